"""C07 - topological sort and cycle detection are correct.

Design check + spec -> code: specs/graph/ToposortImpl.tla is a transcription of dask.core._toposort
(the DFS stack, `seen` / `completed`, the priority-guided cycle walk) that leaves every dict / set
iteration order open.  TLC runs it on every digraph of the plan, for toposort and for getcycle with
every start-key subset, and checks transcription => contract (specs/graph/Toposort.tla), in two
variants: the priority numbering as written in the code and the repaired numbering.  Every terminal
state is exported, i.e. for every call the set of outcomes the transcription allows.  The real
toposort / getcycle / isdag are run on the same calls - through the public functions on legacy and
Task-object graphs with scrambled names, and through _toposort with an explicit `dependencies`
mapping of *lists* that forces chosen iteration orders - and every real outcome is compared with the
transcription's outcome set (binding of the transcription; reported, not judged).
code -> spec: every real call is written as a call record and TLC decides it against the contract
(ToposortTrace.tla): any linear extension, any real reachable cycle is accepted, nothing else.
Seeded random digraphs with up to 30 keys are recorded and decided the same way."""
from __future__ import annotations

import json

from .. import graphs as G
from ..core import MachineryError
from ..par import pmap

META = {
    "title": "Topological sort and cycle detection are correct",
    "design_ref": "DESIGN.md §4.2 C07",
    "technique": "TLA+ contract of toposort/getcycle/isdag plus a TLA+ transcription of dask.core._toposort model-checked against "
                 "the contract by TLC on all small digraphs; the real functions are run on the same calls (public API and forced "
                 "iteration orders), every call record is validated by TLC against the contract, outcomes are compared with the "
                 "transcription's",
    "level_text": "Small-scope exhaustive: every digraph with <= 3 nodes (4 nodes: a 1/1021 sample in the quick, 1/61 in the "
                  "thorough tier; 5 nodes: a small sample in thorough) x toposort and getcycle/isdag with every start-key subset; "
                  "TLC explores the transcription of _toposort under every iteration order, with the priority numbering as written "
                  "and repaired, and checks it against the contract; the real functions are run on every such call in several "
                  "spellings and forced iteration orders and each call record is decided by TLC. Random digraphs up to 30 keys are "
                  "sampled.",
    "level_note": "Trusted: TLC, the graph builder of harness/graphs.py, the reading of the Python code that the transcription "
                  "encodes (its outcome sets are compared with the real outcomes and disagreements are reported in the evidence). "
                  "A CPU-time guard turns non-termination into an observation. Closed graphs only (no dangling references).",
}

STYLES = ("str", "kstr", "tuple", "int")


# --------------------------------------------------------------------------- real calls
def real_graph(n, deps, variant):
    full = [G.thaw(x) for x in G.names_for(n, variant["style"], variant["perm"])]
    dsk = G.build(deps, ["t"] * n, full, variant["form"], variant["insert"])
    return dsk, full[:n]


def call(case, variant):
    """One real call.  case: {n, deps, fn, keys}; variant: spelling and iteration-order choices."""
    import dask.core as dc            # looked up at call time (self-test mutants)
    n, deps, fn, keys = case["n"], case["deps"], case["fn"], list(case["keys"])
    dsk, names = real_graph(n, deps, variant)
    index = {nm: i + 1 for i, nm in enumerate(names)}
    korder = [keys[i] for i in variant["korder"]] if variant.get("korder") else keys
    kobjs = [names[k - 1] for k in korder]
    if variant["via"] == "_toposort":
        # explicit iteration orders: dependencies as lists, in the order chosen by the variant
        dmap = {names[i]: [names[d - 1] for d in variant["dorder"][i]] for i in range(n)}
        insert = variant["insert"]
        dsk = {names[i]: dsk[names[i]] for i in insert}
        if fn == "toposort":
            thunk = lambda: dc._toposort(dsk, dependencies=dmap)
        else:
            thunk = lambda: dc._toposort(dsk, keys=kobjs, returncycle=True, dependencies=dmap)
    else:
        arg = kobjs
        if variant.get("keyspell") == "single" and len(kobjs) == 1:
            arg = kobjs[0]
        elif variant.get("keyspell") == "none" and len(kobjs) == n:
            arg = None
        if fn == "toposort":
            thunk = lambda: dc.toposort(dsk)
        elif fn == "getcycle":
            thunk = lambda: dc.getcycle(dsk, arg)
        else:
            thunk = lambda: dc.isdag(dsk, arg)
    kind, val = G.guarded(thunk, seconds=0.05, confirm=0.3)
    rec = {"fn": fn, "n": n, "deps": deps, "keys": sorted(keys), "variant": variant}
    if kind == "hang":
        rec["res"] = "hang"
    elif kind == "raised":
        rec.update(res="raised", exc=type(val).__name__, msg=str(val)[:100])
    elif fn == "isdag":
        if isinstance(val, bool):
            rec.update(res="bool", b=val)
        else:
            rec.update(res="raised", exc="BadReturn", msg=repr(val)[:60])
    else:
        try:
            seq = [index.get(k, 0) for k in val]
        except TypeError:
            rec.update(res="raised", exc="BadReturn", msg=repr(val)[:60])
            return rec
        if fn == "toposort":
            rec.update(res="ok", order=seq)
        else:
            rec.update(res="cycle", c=seq)
    return rec


def variants_for(rng, case, public=2, forced=3):
    n, deps = case["n"], case["deps"]
    out = []

    def base(form):
        perm = list(range(n))
        rng.shuffle(perm)
        insert = list(range(n))
        rng.shuffle(insert)
        return {"form": form, "style": rng.choice(STYLES), "perm": perm, "insert": insert}
    nk = len(case["keys"])
    for j in range(public):
        v = base(("legacy", "taskspec")[j % 2])
        v["via"] = "public"
        v["korder"] = rng.sample(range(nk), nk)
        v["keyspell"] = rng.choice(["list", "single", "none"])
        out.append(v)
    if case["fn"] != "isdag":
        for _ in range(forced):
            v = base("legacy")
            v["via"] = "_toposort"
            v["korder"] = rng.sample(range(nk), nk)
            v["dorder"] = [rng.sample(list(d), len(d)) for d in deps]
            out.append(v)
    return out


def _work(item):
    case, variants = item
    return [call(case, v) for v in variants]


def outcome_key(rec):
    if rec["res"] == "ok":
        return ("ok", tuple(rec["order"]))
    if rec["res"] == "cycle":
        return ("cycle", tuple(rec["c"]))
    if rec["res"] == "hang":
        return ("diverged",)
    return (rec["res"],)


# --------------------------------------------------------------------------- classification
def classify(rec, clauses):
    inner = rec["deps"]
    cyc = G.has_cycle(inner)
    via = rec["variant"]["via"] if "variant" in rec else "public"
    if rec["res"] == "hang":
        return "cycle-reconstruction:hang" if cyc else "acyclic:hang"
    return "%s:%s:%s" % (rec["fn"], "+".join(sorted(clauses)), "cyclic" if cyc else "acyclic") + (":forced-order" if via != "public" else "")


def clause_names(texts):
    out = set()
    for t in texts:
        for part in t.strip("{} ").split(","):
            part = part.strip().strip('"')
            if part:
                out.add(part)
    return sorted(out)


TRACE_FIELDS = ("id", "fn", "n", "deps", "keys", "res", "order", "c", "b")


def judge(ctx, recs, batch=90000):
    spec, cfg = ctx.model(ctx.spec("graph", "ToposortTrace.tla"), {})
    bad = []
    for lo in range(0, len(recs), batch):
        part = recs[lo:lo + batch]
        slim = [{k: r[k] for k in TRACE_FIELDS if k in r} for r in part]
        rej = ctx.tlc_validate(spec, slim, cfg, timeout=1800)
        byid = {r["id"]: r for r in part}
        for rid, texts in rej.items():
            cl = clause_names(texts)
            if "SPEC-INCONSISTENT" in cl:
                raise MachineryError("ToposortTrace.Bad disagrees with Toposort.Accepts on %r" % (byid[rid],))
            bad.append((byid[rid], cl))
    return bad


def report(ctx, recs, bad):
    for r in recs:
        ctx.count((r["fn"], r["n"], r["deps"], r["keys"], r.get("variant")), r["n"] >= 2 and any(r["deps"]))
    for r, clauses in bad:
        ctx.violation(classify(r, clauses), "%s breaks %s on a %d-key graph" % (r["fn"], "+".join(clauses), r["n"]),
                      {"record": {k: v for k, v in r.items() if k != "id"}, "clauses": clauses})


# --------------------------------------------------------------------------- the transcription
IMPL_INVS = ["ContractHolds", "NoValueError", "NoDivergence", "SeenCompletedDisjoint", "SeenOnStack", "CompletedClosed",
             "ContractRejects", "ReversedRejected"]


def plan_for(ctx):
    off = lambda st: ctx.rng.randrange(st)
    full = [{"n": n, "stride": 1, "offset": 0} for n in (1, 2, 3)]
    if ctx.quick:
        return full + [{"n": 4, "stride": 1021, "offset": off(1021)}]     # prime strides: a power of two would pin the low bits
    return full + [{"n": 4, "stride": 61, "offset": off(61)}, {"n": 5, "stride": 131071, "offset": off(131071)}]


def transcription(ctx, plan):
    """TLC on the transcription, both numberings in one run; returns ({call: set(outcomes)} as written, ... repaired)."""
    spec, cfg = ctx.model(ctx.spec("graph", "ToposortMC.tla"), {"Plan": plan}, invariants=IMPL_INVS)
    cases, _ = ctx.tlc_cases(spec, cfg, label="transcription=>contract (numbering as written + repaired)", timeout=3000)
    models = {"written": {}, "repaired": {}}
    for c in cases:
        key = (c["n"], json.dumps([sorted(d) for d in c["deps"]]), c["fn"], tuple(sorted(c["keys"])))
        o = c["o"]
        ok = ("ok", tuple(o["order"])) if o["res"] == "ok" else ("cycle", tuple(o["c"])) if o["res"] == "cycle" else (o["res"],)
        models[c["nb"]].setdefault(key, set()).add(ok)
    return models["written"], models["repaired"]


def call_key(rec):
    return (rec["n"], json.dumps([sorted(d) for d in rec["deps"]]), "getcycle" if rec["fn"] == "isdag" else rec["fn"],
            tuple(sorted(rec["keys"])))


def agreement(model, recs):
    """how many real outcomes lie in the transcription's outcome set for the same call"""
    inside = outside = 0
    examples = []
    for r in recs:
        outs = model.get(call_key(r))
        if outs is None:
            continue
        if r["fn"] == "isdag":
            hit = r["res"] == "bool" and any(o[0] == "cycle" and (len(o[1]) == 0) == r["b"] for o in outs)
            hit = hit or (r["res"] == "hang" and ("diverged",) in outs)
        else:
            hit = outcome_key(r) in outs
        if hit:
            inside += 1
        else:
            outside += 1
            if len(examples) < 3:
                examples.append({"call": [r["fn"], r["n"], r["deps"], r["keys"]], "real": list(outcome_key(r)),
                                 "transcription": sorted(map(list, outs))[:6]})
    return inside, outside, examples


def items_from_model(ctx, model, public=2, forced=3):
    items = []
    for (n, depsj, fn, keys) in sorted(model):
        deps = json.loads(depsj)
        case = {"n": n, "deps": deps, "fn": fn, "keys": list(keys)}
        items.append((case, variants_for(ctx.rng, case, public, forced)))
        if fn == "getcycle":
            c2 = dict(case, fn="isdag")
            items.append((c2, variants_for(ctx.rng, c2, 1, 0)))
    ctx.rng.shuffle(items)
    return items


def run_items(ctx, items, prefix):
    import dask.core  # noqa: F401 - import before forking
    G.prepare_fork()
    # a call costs ~0.2 ms: below ~10^5 items a fork pool costs more than it saves (measured)
    out = pmap(_work, items, chunk=128, procs=None if len(items) > 80000 else 1)
    recs = []
    for res in out:
        for r in res:
            r["id"] = "%s%d" % (prefix, len(recs))
            recs.append(r)
    return recs


def random_items(ctx, count):
    rng = ctx.rng
    items = []
    for _ in range(count):
        n = rng.randint(5, 30)
        mode = rng.random()
        if mode < 0.4:
            deps = G.random_dag(rng, n, p=rng.choice([0.1, 0.2, 0.4]))
            perm = list(range(1, n + 1))
            rng.shuffle(perm)                       # forget the canonical numbering
            deps2 = [None] * n
            for i, ds in enumerate(deps):
                deps2[perm[i] - 1] = sorted(perm[d - 1] for d in ds)
            deps = deps2
            if mode < 0.15:
                deps = [sorted(set(d) | ({rng.randint(1, n)} if rng.random() < 0.1 else set())) for d in deps]
        else:
            deps = G.random_digraph(rng, n, p=rng.choice([0.03, 0.06, 0.12]))
        fn = rng.choice(["toposort", "getcycle", "getcycle", "isdag"])
        keys = list(range(1, n + 1)) if fn == "toposort" else sorted(rng.sample(range(1, n + 1), rng.choice([1, 1, 2, 3, n])))
        case = {"n": n, "deps": deps, "fn": fn, "keys": keys}
        items.append((case, variants_for(rng, case, 1, 1)))
    return items


# --------------------------------------------------------------------------- entry points
def run(ctx):
    plan = plan_for(ctx)
    written, repaired = transcription(ctx, plan)
    if set(written) != set(repaired):
        raise MachineryError("the two transcription variants enumerate different calls")
    ndiv = sum(1 for outs in written.values() if ("diverged",) in outs)
    items = items_from_model(ctx, written, ctx.pick(2, 2), ctx.pick(2, 3))
    rand = random_items(ctx, ctx.pick(1500, 20000))
    recs, first = [], None
    step = 30000
    for lo in range(0, len(items), step):
        part = run_items(ctx, items[lo:lo + step], "e%d_" % lo)
        nmodel = len(part)
        if lo + step >= len(items):                     # the random digraphs ride along with the last batch
            part += run_items(ctx, rand, "r")
            first = part[nmodel:nmodel + 2]
        report(ctx, part, judge(ctx, part))
        recs += [{k: r[k] for k in ("fn", "n", "deps", "keys", "res", "order", "c", "b") if k in r} for r in part[:nmodel]]
    in_w, out_w, ex_w = agreement(written, recs)
    in_r, out_r, ex_r = agreement(repaired, recs)
    ctx.extra["transcription"] = {
        "calls_enumerated": len(written),
        "calls_where_as_written_numbering_can_diverge": ndiv,
        "real_outcomes_inside_as_written_outcome_sets": in_w, "outside": out_w, "examples_outside": ex_w,
        "real_outcomes_inside_repaired_outcome_sets": in_r, "outside_repaired": out_r, "examples_outside_repaired": ex_r,
        "code_matches": ("both numberings (no call where they differ was hit)" if out_w == 0 and out_r == 0 else
                         "as written" if out_w == 0 else "repaired" if out_r == 0 else
                         "neither (transcription drift - reported, not judged)"),
    }
    del recs
    for r in first or []:
        ctx.sample({k: r[k] for k in ("fn", "n", "deps", "keys", "res", "order", "c", "b") if k in r})
    ctx.sample({"transcription_call": list(sorted(written)[len(written) // 2]),
                "outcomes": sorted(map(list, written[sorted(written)[len(written) // 2]]))[:5]})
    ctx.exhaustive = all(j["stride"] == 1 for j in plan)
    ctx.extra["enumeration_plan"] = plan
    ctx.rule = ("cases = (digraph, function, start-key set) enumerated by TLC x spelling (legacy / Task objects, scrambled names and "
                "insertion order, single key / list / None) and forced iteration orders of _toposort, plus seeded random digraphs "
                "up to 30 keys; every call is one record decided by TLC; non-trivial = at least 2 keys and one edge")
    ctx.assumptions = ["TLC evaluates the contract and the transcription correctly",
                       "harness/graphs.build constructs the graph the case describes",
                       "a call on a <= 30-key graph that burns 0.05 s and then again 0.3 s of CPU does not terminate"]


def replay(ctx, obj):
    r = obj["case"]["record"]
    rec = call({"n": r["n"], "deps": r["deps"], "fn": r["fn"], "keys": r["keys"]}, r["variant"])
    rec["id"] = "replay"
    bad = judge(ctx, [rec])
    print("call:", json.dumps({k: rec[k] for k in ("fn", "n", "deps", "keys", "variant")}))
    print("observed:", {k: rec[k] for k in ("res", "order", "c", "b", "exc", "msg") if k in rec})
    print("rejected:", [(classify(x, c), c) for x, c in bad])
    return bool(bad)


def selftest(ctx):
    import dask.core
    from ..srcmut import mutant
    ok = True
    plan = [{"n": n, "stride": 1, "offset": 0} for n in (1, 2, 3)]
    _, model = transcription(ctx, plan)
    items = items_from_model(ctx, model, 2, 1)
    mutants = [
        ("a dependency that is already on the DFS path is skipped (dropped cycle branch)", "_toposort",
         "                if nxt not in completed:\n                    if nxt in seen:",
         "                if nxt not in completed and nxt not in seen:\n                    if nxt in seen:"),
        ("the reconstructed cycle is not reversed (wrong direction)", "_toposort",
         "                        cycle.reverse()\n", "                        pass\n"),
        ("a key is emitted when it is first expanded, not when its dependencies are done (moved statement)", "_toposort",
         "            if next_nodes:\n                nodes.extend(next_nodes)\n",
         "            if next_nodes:\n                nodes.extend(next_nodes)\n                if not returncycle and cur not in ordered:\n"
         "                    ordered.append(cur)\n                    completed.add(cur)\n"),
        ("isdag ignores its start keys (wrong operand)", "isdag", "return not getcycle(d, keys)", "return not getcycle(d, None)"),
    ]
    recs = run_items(ctx, items, "b_")
    for mi, (what, name, old, new) in enumerate(mutants):
        with mutant(dask.core, name, old, new):
            recs += run_items(ctx, items, "m%d_" % mi)
    sigs = {}
    for r, clauses in judge(ctx, recs):
        tag = r["id"].split("_")[0]
        sg = classify(r, clauses)
        sigs.setdefault(tag, {})
        sigs[tag][sg] = sigs[tag].get(sg, 0) + 1
    base = sigs.get("b", {})
    extra = set(base) - set(ctx.known)
    print("selftest C07: unchanged tree -> signatures %s (known: %s)" % (sorted(base), sorted(ctx.known)))
    if extra:
        print("selftest C07: FAIL unchanged tree is rejected outside the known findings: %s" % sorted(extra))
        ok = False
    for mi, (what, _n, _o, _nw) in enumerate(mutants):
        got = sigs.get("m%d" % mi, {})
        new_sigs = {sg: c for sg, c in got.items() if c > base.get(sg, 0)}
        det = bool(new_sigs)
        print("selftest C07: mutant [%s] -> %s %s" % (what, "DETECTED" if det else "MISSED", sorted(new_sigs.items())[:4]))
        ok = ok and det
    # (ii) corrupted records
    g3 = [[2], [3], []]
    good = [{"id": "g1", "fn": "toposort", "n": 3, "deps": g3, "keys": [1, 2, 3], "res": "ok", "order": [3, 2, 1]},
            {"id": "g2", "fn": "getcycle", "n": 3, "deps": [[2], [3], [1]], "keys": [2], "res": "cycle", "c": [3, 1, 2, 3]},
            {"id": "g3", "fn": "isdag", "n": 3, "deps": [[2], [1], []], "keys": [3], "res": "bool", "b": True}]
    corrupt = [({"id": "swap", "fn": "toposort", "n": 3, "deps": g3, "keys": [1, 2, 3], "res": "ok", "order": [2, 3, 1]}, "DepsFirst"),
               ({"id": "dropped", "fn": "toposort", "n": 3, "deps": g3, "keys": [1, 2, 3], "res": "ok", "order": [3, 2]}, "EachKeyOnce"),
               ({"id": "wrongdir", "fn": "getcycle", "n": 3, "deps": [[2], [3], [1]], "keys": [2], "res": "cycle", "c": [3, 2, 1, 3]}, "NotACycle"),
               ({"id": "open", "fn": "getcycle", "n": 3, "deps": [[2], [3], [1]], "keys": [2], "res": "cycle", "c": [1, 2, 3]}, "NotACycle"),
               ({"id": "missed", "fn": "getcycle", "n": 3, "deps": [[2], [3], [1]], "keys": [2], "res": "cycle", "c": []}, "CycleMissed"),
               ({"id": "unreach", "fn": "getcycle", "n": 3, "deps": [[2], [1], []], "keys": [3], "res": "cycle", "c": [1, 2, 1]}, "CycleInvented"),
               ({"id": "isdag", "fn": "isdag", "n": 3, "deps": [[2], [1], []], "keys": [1], "res": "bool", "b": True}, "IsdagWrong")]
    bad = {r["id"]: cl for r, cl in judge(ctx, good + [c for c, _ in corrupt])}
    for c, want in corrupt:
        hit = want in bad.get(c["id"], [])
        print("selftest C07: corrupted record [%s] -> %s %s" % (c["id"], "REJECTED" if hit else "ACCEPTED", bad.get(c["id"])))
        ok = ok and hit
    for gr in good:
        if gr["id"] in bad:
            print("selftest C07: FAIL an uncorrupted record is rejected: %s %s" % (gr["id"], bad[gr["id"]]))
            ok = False
    print("selftest C07: %s" % ("all binding demonstrations hold" if ok else "FAILED"))
    return 0 if ok else 1
