"""C53 - serializable locks keep their identity across pickling.

Pattern A.  specs/sched/SerializableLock.tla gives every operation of dask.utils.SerializableLock
(construct with explicit / generated token, pickle, unpickle, copy, drop, try-acquire, release) as a
function on the state (objects -> token, objects -> threading.Lock identity, pickles -> token, the
weak registry, the set of held locks).  SerializableLockMC.tla is the state machine; TLC checks
SameTokenSameLock / SeparateNeverShare / RegistryIsWeak / SeparateNeverExclude / AcquireExcludes on
all histories of a small instance.

spec -> code: every behaviour of bounded length is exported and executed on the real class; after
every step tokens, lock identities (`a.lock is b.lock`), the registry entries of the live tokens,
`locked()` of every live lock and the result of acquire(blocking=False) are compared with the
specification state.
code -> spec: (i) seeded random longer histories (more objects, tokens, pickles), whose acquire /
release / unpickle steps are executed on several worker threads in lock step, are recorded and
stepped through the specification by TLC; (ii) free-running threads contend on pickled copies and
log enter/exit of their critical sections while holding the lock; TLC checks mutual exclusion per
token on the log."""
from __future__ import annotations

import copy
import itertools
import pickle
import queue
import random
import threading
import time

from ..core import MachineryError
from ..par import pmap

META = {
    "title": "Serializable locks keep their identity across pickling",
    "design_ref": "DESIGN.md §4.1 C53",
    "technique": "TLA+ state machine of SerializableLock (objects, pickles, weak registry, held locks); TLC exhaustive on "
                 "small instances; every bounded behaviour replayed on the real class; recorded multi-thread histories and "
                 "contention logs validated by TLC",
    "level_text": "TLC checks all histories of new/fresh/pickle/unpickle/copy/drop/try-acquire/release on 3 (quick) / 4 (thorough) "
                  "objects, 2 explicit tokens, 1 / 2 pickles, <= 3 / 4 Lock() objects (complete graph, any length), and exports every "
                  "behaviour of length <= 5 (quick) / 7 (thorough, sampled) of the 3-object, 1-token, 1-pickle instance "
                  "(thorough, sampled) for replay on dask.utils.SerializableLock with the projected state compared after every "
                  "step. Longer random histories (6 objects, 3 tokens, 3 pickles, ops spread over worker threads in lock step) "
                  "and enter/exit logs of 2-8 free-running threads contending on pickled copies are decided by TLC.",
    "level_note": "Trusted: TLC, the projection (token classes, lock identity by `is`, locked()), CPython reference counting "
                  "for `del`. Don't-cares: falsy explicit tokens, dropping the last object of a held lock, stale registry "
                  "entries of tokens without live objects, concurrent *creation* of locks (documented as not thread-safe), "
                  "other processes.",
}

_uniq = itertools.count()


class Runner:
    """Executes operations on real SerializableLock objects and projects their state."""

    def __init__(self, nobj, ntok, variant=0):
        from dask.utils import SerializableLock
        self.SL = SerializableLock
        self.nobj, self.ntok = nobj, ntok
        u = next(_uniq)
        self.real = {t: "verif-%d-%d-%d" % (id(self) % 100000, u, t) for t in range(1, ntok + 1)}   # explicit tokens
        self.back = {v: k for k, v in self.real.items()}
        self.nfresh = 0
        self.objs = {}
        self.picks = {}
        self.locknum = {}      # id(threading.Lock) -> number, only for locks of live objects
        self.nlocks = 0
        self.variant = variant

    def slot(self):
        return min(o for o in range(1, self.nobj + 1) if o not in self.objs)

    def do(self, e):
        """-> observed result (True, or the bool of acquire)"""
        a, o, x = e["a"], e["o"], e["x"]
        if a == "new":
            self.objs[self.slot()] = self.SL(self.real[x])
        elif a == "fresh":
            self.objs[self.slot()] = self.SL()
        elif a == "pickle":
            self.picks[x] = pickle.dumps(self.objs[o], protocol=(self.variant + x) % (pickle.HIGHEST_PROTOCOL + 1))
        elif a == "unpickle":
            self.objs[self.slot()] = pickle.loads(self.picks[x])
        elif a == "copy":
            self.objs[self.slot()] = (copy.copy if (self.variant + o) % 2 else copy.deepcopy)(self.objs[o])
        elif a == "drop":
            del self.objs[o]
        elif a == "acquire":
            return bool(self.objs[o].acquire(False) if self.variant % 2 else self.objs[o].acquire(blocking=False))
        elif a == "release":
            self.objs[o].release()
        else:
            raise MachineryError("unknown action %r" % a)
        return True

    def project(self):
        live = {id(ob.lock) for ob in self.objs.values()}
        for k in [k for k in self.locknum if k not in live]:
            del self.locknum[k]
        tok, lk = [], []
        for o in range(1, self.nobj + 1):
            ob = self.objs.get(o)
            if ob is None:
                tok.append(0)
                lk.append(0)
                continue
            if ob.token not in self.back:          # a token we have not seen: generated
                self.nfresh += 1
                self.back[ob.token] = self.ntok + self.nfresh
            tok.append(self.back[ob.token])
            if id(ob.lock) not in self.locknum:
                self.nlocks += 1
                self.locknum[id(ob.lock)] = self.nlocks
            lk.append(self.locknum[id(ob.lock)])
        reg = set()
        for ob in self.objs.values():              # registry entries of the live tokens only
            l = self.SL._locks.get(ob.token)
            reg.add((self.back[ob.token], self.locknum.get(id(l), 999) if l is not None else 0))
        held = sorted({self.locknum[id(ob.lock)] for ob in self.objs.values() if ob.locked()})
        return {"tok": tok, "lk": lk, "reg": [{"t": t, "l": l} for t, l in sorted(reg)], "held": held}

    def close(self):
        for ob in self.objs.values():
            try:
                if ob.locked():
                    ob.release()
            except Exception:  # noqa: BLE001
                pass
        self.objs.clear()


CLAUSE = (("tok", "TokenKept"), ("lk", "SameTokenSameLock"), ("reg", "RegistryNamesLock"), ("held", "HoldingOneBlocksTheOthers"))


def norm_state(st):
    return {"tok": list(st["tok"]), "lk": list(st["lk"]),
            "reg": sorted(({"t": r["t"], "l": r["l"]} for r in st["reg"]), key=lambda r: (r["t"], r["l"])),
            "held": sorted(st["held"])}


def replay_history(item):
    """spec -> code: execute one exported behaviour; -> None or (clause, signature, detail)"""
    hist, nobj, ntok, variant = item
    r = Runner(nobj, ntok, variant)
    try:
        for i, e in enumerate(hist):
            try:
                got = r.do(e)
                obs = r.project()
            except Exception as ex:  # noqa: BLE001 - the specification enables this step: it must not raise
                return ("UnexpectedRaise", "%s:UnexpectedRaise" % e["a"], {"step": i, "raised": repr(ex)[:200]})
            want = norm_state(e["st"])
            for field, clause in CLAUSE:
                if obs[field] != want[field]:
                    return (clause, "%s:%s" % (e["a"], clause), {"step": i, "observed": obs, "expected": want})
            if e["a"] == "acquire" and got != e["r"]:
                return ("AcquireResult", "acquire:AcquireResult", {"step": i, "observed": got})
    finally:
        r.close()
    return None


# ------------------------------------------------------------------ code -> spec recording
class Workers:
    """K threads executing callables one at a time, in the order the main thread hands them out."""

    def __init__(self, k):
        self.q = [queue.Queue() for _ in range(k)]
        self.res = queue.Queue()
        self.threads = [threading.Thread(target=self._loop, args=(i,), daemon=True) for i in range(k)]
        for t in self.threads:
            t.start()

    def _loop(self, i):
        while True:
            fn = self.q[i].get()
            if fn is None:
                return
            try:
                self.res.put((True, fn()))
            except BaseException as ex:  # noqa: BLE001
                self.res.put((False, ex))

    def run(self, i, fn):
        self.q[i].put(fn)
        ok, val = self.res.get(timeout=30)
        if not ok:
            raise val
        return val

    def close(self):
        for q_ in self.q:
            q_.put(None)


NOBJ, NTOK, NPICK = 6, 3, 3


def record_history(rng, rid, workers):
    r = Runner(NOBJ, NTOK, variant=rng.randint(0, 5))
    ev = []
    raised = ""
    try:
        for _ in range(rng.randint(15, 50)):
            live = sorted(r.objs)
            free = len(live) < NOBJ
            held_objs = [o for o in live if r.objs[o].locked()]
            cands = []
            if free:
                cands += [("new", 0, rng.randint(1, NTOK))] * 2 + [("fresh", 0, 0)]
                cands += [("unpickle", 0, p) for p in r.picks] * 2
                cands += [("copy", o, 0) for o in live]
            cands += [("pickle", o, rng.randint(1, NPICK)) for o in live]
            cands += [("acquire", o, 0) for o in live] * 2
            cands += [("release", o, 0) for o in held_objs] * 2
            for o in live:                      # never drop the last object of a held lock (don't-care)
                if not r.objs[o].locked() or any(p != o and r.objs[p].lock is r.objs[o].lock for p in live):
                    cands.append(("drop", o, 0))
            a, o, x = rng.choice(cands)
            e = {"a": a, "o": o, "x": x}
            if a in ("new", "fresh", "unpickle"):
                e["o"] = r.slot()
            if a == "copy":
                e["x"] = r.slot()
            th = rng.randrange(len(workers.threads))
            try:
                got = workers.run(th, lambda e=e: r.do(e)) if a in ("acquire", "release", "unpickle", "copy") else r.do(e)
                e["st"] = r.project()
            except Exception as ex:  # noqa: BLE001
                raised = "%s: %r" % (a, ex)
                break
            e["r"] = got
            e["th"] = th
            ev.append(e)
    finally:
        r.close()
    return {"id": rid, "kind": "hist", "ev": ev, "raised": raised}


def contend(rng, rid, nthreads, niter, join_timeout=30):
    """free-running threads on pickled copies; every critical section logs enter/exit while holding the lock"""
    from dask.utils import SerializableLock
    nc = rng.randint(1, 3)
    origs = [SerializableLock() if rng.random() < 0.5 else SerializableLock("verif-contend-%d-%d" % (next(_uniq), c))
             for c in range(nc)]
    blobs = [pickle.dumps(o) for o in origs]
    shared = [[pickle.loads(b) if rng.random() < 0.7 else copy.deepcopy(o) for _ in range(3)] for o, b in zip(origs, blobs)]
    log = []
    seeds = [rng.randrange(1 << 30) for _ in range(nthreads)]
    start = threading.Barrier(nthreads)

    def body(th):
        lr = random.Random(seeds[th])
        own = [pickle.loads(b) for b in blobs] if lr.random() < 0.5 else None   # originals are alive: lookup only
        start.wait()
        for _ in range(niter):
            c = lr.randrange(nc)
            lock = own[c] if own is not None and lr.random() < 0.5 else lr.choice(shared[c])
            use_with = lr.random() < 0.5
            if use_with:
                lock.__enter__()
            else:
                lock.acquire()
            log.append(("enter", th + 1, c + 1))
            if lr.random() < 0.4:
                time.sleep(0.0001)            # give the other threads every chance to barge in
            log.append(("exit", th + 1, c + 1))
            if use_with:
                lock.__exit__(None, None, None)
            else:
                lock.release()

    ts = [threading.Thread(target=body, args=(i,), daemon=True) for i in range(nthreads)]
    for t in ts:
        t.start()
    deadline = time.time() + join_timeout
    for t in ts:
        t.join(max(0.0, deadline - time.time()))
    hung = any(t.is_alive() for t in ts)
    ev = [{"a": a, "th": th, "c": c} for a, th, c in list(log)]
    return {"id": rid, "kind": "contend", "nc": nc, "ev": ev, "hung": hung, "nth": nthreads}


def first_clause(text):
    return text.strip("{}\" ").split('"')[0] or "Rejected"


def sig_of_reject(rec, clauses):
    cl = first_clause(clauses[0])
    if rec["kind"] == "contend":
        return "threads:%s" % cl
    return "history:%s" % cl


# ------------------------------------------------------------------ TLC
INVS = ["SameTokenSameLock", "SeparateNeverShare", "RegistryIsWeak", "HeldReachable"]
PROPS = ["SeparateNeverExclude", "AcquireExcludes"]


def model(ctx, nobj, ntok, npick, maxlen, maxfresh, maxlocks, keep):
    consts = {"NObj": nobj, "NTok": ntok, "NPick": npick, "MaxLen": maxlen, "MaxFresh": maxfresh,
              "MaxLocks": maxlocks, "KeepHist": keep}
    return ctx.model(ctx.spec("sched", "SerializableLockMC.tla"), consts, invariants=INVS, properties=PROPS, constraint="Bounded")


def judge_histories(items, report, count):
    results = pmap(replay_history, items, chunk=4000) if len(items) > 150000 else [replay_history(x) for x in items]
    for (hist, nobj, ntok, variant), res in zip(items, results):
        acts = {e["a"] for e in hist}
        count(("behaviour", hist and [(e["a"], e["o"], e["x"]) for e in hist], variant),
              bool(acts & {"acquire"}) and bool(acts & {"unpickle", "copy", "new"}))
        if res is not None:
            clause, sig, detail = res
            report(sig, "%s: SerializableLock disagrees with the specification" % clause,
                   {"kind": "behaviour", "hist": hist, "nobj": nobj, "ntok": ntok, "variant": variant, "observed": detail})


def validate(ctx, recs, report):
    spec, cfg = ctx.model(ctx.spec("sched", "SerializableLockTrace.tla"), {"NObj": NOBJ, "NTok": NTOK, "NPick": NPICK})
    for lo in range(0, len(recs), 3000):
        part = [{k: v for k, v in r.items() if k not in ("raised", "hung", "nth")} for r in recs[lo:lo + 3000]]
        rej = ctx.tlc_validate(spec, part, cfg, timeout=1500)
        byid = {r["id"]: r for r in recs[lo:lo + 3000]}
        for rid, clauses in rej.items():
            report(sig_of_reject(byid[rid], clauses), "TLC rejects a recorded %s (%s)" % (byid[rid]["kind"], clauses[0]),
                   {"kind": "record", "record": byid[rid], "clauses": clauses})


def record_all(ctx, nhist, ncont, report, niter=25, join_timeout=30):
    recs = []
    w = Workers(3)
    try:
        for i in range(nhist):
            r = record_history(ctx.rng, "h%d" % i, w)
            if r["raised"]:
                report("history:UnexpectedRaise", "an enabled operation raised: " + r["raised"], {"kind": "record", "record": r})
            recs.append(r)
            acts = {e["a"] for e in r["ev"]}
            ctx.count(("hist", [(e["a"], e["o"], e["x"], e["th"]) for e in r["ev"]]), "acquire" in acts and bool(acts & {"unpickle", "copy"}))
    finally:
        w.close()
    for i in range(ncont):
        r = contend(ctx.rng, "c%d" % i, ctx.rng.randint(2, 8), niter, join_timeout)
        if r["hung"]:
            report("threads:Hang", "threads contending on pickled copies did not finish", {"kind": "record", "record": r})
        recs.append(r)
        ctx.count(("contend", r["nth"], r["nc"], i), True)
    return recs


def run(ctx):
    from concurrent.futures import ThreadPoolExecutor
    # design check on the complete graph (no history variable) + export of all bounded behaviours
    big = model(ctx, ctx.pick(3, 4), 2, ctx.pick(1, 2), 0, ctx.pick(1, 2), ctx.pick(3, 4), False)
    exp_consts = (3, 1, 1, ctx.pick(5, 7), 1, 3)
    exp = model(ctx, *exp_consts, True)
    side = []
    recs = record_all(ctx, ctx.pick(1500, 6000), ctx.pick(40, 300), lambda *a: side.append(a))
    rejected = []
    with ThreadPoolExecutor(3) as ex:
        f1 = ex.submit(lambda: ctx.tlc(big[0], big[1], label="design: complete graph", timeout=2400))
        f2 = ex.submit(lambda: ctx.tlc_cases(exp[0], exp[1], label="design+behaviours", timeout=2400)[0])
        f3 = ex.submit(lambda: validate(ctx, recs, lambda *a: rejected.append(a)))
        f1.result()
        cases = f2.result()
        f3.result()
    full = [h for h in cases if len(h) == exp_consts[3]]
    cap = ctx.pick(10 ** 9, 300000)
    sampled = len(full) > cap
    if sampled:
        full = ctx.rng.sample(full, cap)
    items = [(h, exp_consts[0], exp_consts[1], i % 6) for i, h in enumerate(full)]
    judge_histories(items, ctx.violation, ctx.count)
    for a in side + rejected:
        ctx.violation(*a)
    ctx.sample({"behaviour": [(e["a"], e["o"], e["x"], e["r"]) for e in full[len(full) // 2]]})
    ctx.sample({"recorded_history": [(e["a"], e["o"], e["x"], e["r"], e["th"]) for e in recs[0]["ev"]]})
    ctx.sample({"contention_log_head": [(e["a"], e["th"], e["c"]) for e in recs[-1]["ev"][:12]]})
    ctx.exhaustive = not sampled
    ctx.rule = ("cases = TLC-enumerated behaviours of maximal length (replayed step by step) + recorded lock-step histories + "
                "contention logs; non-trivial = the behaviour acquires a lock and creates a copy/unpickles/re-creates a token; "
                "distinct by the operation sequence")
    ctx.extra["behaviours_enumerated_by_tlc"] = len(cases)
    ctx.assumptions = ["CPython reference counting frees a dropped object immediately", "TLC evaluates the specification correctly",
                       "lock identity observed with `is`, lockedness with locked()"]


def replay(ctx, obj):
    c = obj["case"]
    if c["kind"] == "record":
        spec, cfg = ctx.model(ctx.spec("sched", "SerializableLockTrace.tla"), {"NObj": NOBJ, "NTok": NTOK, "NPick": NPICK})
        rec = {k: v for k, v in c["record"].items() if k not in ("raised", "hung", "nth")}
        rej = ctx.tlc_validate(spec, [rec], cfg) if rec["ev"] else {}
        print("recorded:", c["record"], "\nrejected:", rej)
        return bool(rej) or bool(c["record"].get("hung")) or bool(c["record"].get("raised"))
    res = replay_history((c["hist"], c["nobj"], c["ntok"], c["variant"]))
    print("behaviour:", [(e["a"], e["o"], e["x"]) for e in c["hist"]], "\nresult:", res)
    return res is not None


# ------------------------------------------------------------------ selftest
def selftest(ctx):
    import uuid
    from threading import Lock
    from dask.utils import SerializableLock as SL
    ok = True
    exp = model(ctx, 3, 1, 1, 5, 1, 3, True)
    cases, _ = ctx.tlc_cases(exp[0], exp[1], label="selftest behaviours")
    items = [(h, 3, 1, i % 6) for i, h in enumerate(c for c in cases if len(c) == 5)]

    def violations():
        out = []
        judge_histories(items, lambda sig, what, rp: out.append(sig), lambda k, n: None)
        return out

    base = violations()
    print("selftest baseline (unchanged tree): %d violations on %d behaviours" % (len(base), len(items)))
    ok &= not base and len(items) > 100

    def setstate_fresh(self, token):          # mutant 1: the unpickled copy forgets its token
        self.__init__(None)

    def init_no_lookup(self, token=None):     # mutant 2: the registry is written but never consulted
        self.token = token or str(uuid.uuid4())
        self.lock = Lock()
        SL._locks[self.token] = self.lock

    def getstate_uuid_only(self):             # mutant 3: user-supplied tokens do not survive pickling
        return self.token if len(str(self.token)) == 36 and not str(self.token).startswith("verif") else str(uuid.uuid4())

    def release_noop(self, *args, **kwargs):  # mutant 4: release forgets to release
        return None

    orig = {k: SL.__dict__[k] for k in ("__setstate__", "__init__", "__getstate__", "release")}
    mutants = [("__setstate__ ignores the token", "__setstate__", setstate_fresh),
               ("__init__ never consults the registry", "__init__", init_no_lookup),
               ("__getstate__ keeps only generated tokens", "__getstate__", getstate_uuid_only),
               ("release() does not release", "release", release_noop)]
    if True:
        for name, attr, fn in mutants:
            setattr(SL, attr, fn)
            try:
                v = violations()
                w = Workers(2)
                side = []
                try:
                    rec = record_history(random.Random(5), "m", w)
                finally:
                    w.close()
            finally:
                setattr(SL, attr, orig[attr])
            spec, cfg = ctx.model(ctx.spec("sched", "SerializableLockTrace.tla"), {"NObj": NOBJ, "NTok": NTOK, "NPick": NPICK})
            rej = ctx.tlc_validate(spec, [{k: v_ for k, v_ in rec.items() if k != "raised"}], cfg) if rec["ev"] else {}
            print("selftest mutant [%s]: replay %s (%d violations, e.g. %s); recorded history %s %s"
                  % (name, "DETECTED" if v else "MISSED", len(v), sorted(set(v))[:2],
                     "REJECTED" if rej or rec["raised"] else "accepted", list(rej.values())[:1]))
            ok &= bool(v) and (bool(rej) or bool(rec["raised"]))
    # threads: broken exclusion must show up in the contention log
    def acquire_private(self, *args, **kwargs):   # mutant 5: every object locks a private lock
        if not hasattr(self, "_mine"):
            self._mine = Lock()
        return self._mine.acquire(*args, **kwargs)

    def release_private(self, *args, **kwargs):
        return self._mine.release(*args, **kwargs)

    def enter_private(self):
        acquire_private(self)

    def exit_private(self, *args):
        release_private(self)
    saved = {k: SL.__dict__[k] for k in ("acquire", "release", "__enter__", "__exit__")}
    SL.acquire, SL.release, SL.__enter__, SL.__exit__ = acquire_private, release_private, enter_private, exit_private
    try:
        bad = [contend(random.Random(s), "bad%d" % s, 6, 40) for s in range(3)]
    finally:
        for k, v_ in saved.items():
            setattr(SL, k, v_)
    good = contend(random.Random(1), "good", 6, 40)
    w = Workers(3)
    try:
        gh = record_history(random.Random(2), "goodhist", w)
    finally:
        w.close()
    bh = copy.deepcopy(gh)
    bh["id"] = "corrupt-lock-identity"
    e = [x for x in bh["ev"] if sum(1 for v_ in x["st"]["lk"] if v_) >= 2][-1]
    i = [k for k, v_ in enumerate(e["st"]["lk"]) if v_][0]
    e["st"]["lk"][i] += 7
    dh = copy.deepcopy(gh)
    dh["id"] = "dropped-event"
    k = [j for j, x in enumerate(dh["ev"]) if x["a"] in ("new", "fresh", "unpickle", "copy")][0]
    del dh["ev"][k]
    ah = copy.deepcopy(gh)
    ah["id"] = "flipped-acquire-result"
    e = [x for x in ah["ev"] if x["a"] == "acquire"][0]
    e["r"] = not e["r"]
    spec, cfg = ctx.model(ctx.spec("sched", "SerializableLockTrace.tla"), {"NObj": NOBJ, "NTok": NTOK, "NPick": NPICK})
    strip = lambda r: {k_: v_ for k_, v_ in r.items() if k_ not in ("raised", "hung", "nth")}
    rej = ctx.tlc_validate(spec, [strip(r) for r in bad + [good, gh, bh, dh, ah]], cfg)
    anybad = any(r["id"] in rej for r in bad)
    print("selftest mutant [every copy locks a private lock]: contention logs %s %s"
          % ("REJECTED" if anybad else "accepted", [rej[r["id"]] for r in bad if r["id"] in rej][:1]))
    ok &= anybad
    for rid, want in (("good", False), ("goodhist", False), ("corrupt-lock-identity", True), ("dropped-event", True),
                      ("flipped-acquire-result", True)):
        got = rid in rej
        print("selftest trace [%s]: %s %s" % (rid, "rejected" if got else "accepted", rej.get(rid, "")))
        ok &= got == want
    print("selftest C53:", "OK" if ok else "FAILED")
    return 0 if ok else 1
