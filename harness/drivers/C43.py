"""C43 - the DataFrame optimizer preserves results and converges.

Specification (specs/frame/Optimizer.tla): logical programs = a source table, a sequence of steps (project / filter /
assign / frame-level elementwise / head / dropna / drop_duplicates / nlargest / nsmallest - the last four select rows by
looking at columns they need not output) whose column expressions may contain reductions and disjunctions of
conjunctions with partially shared terms, and a final form (frame,
column, reduction of a column); DenoteFrame(program) over the tables of FrameAlgebra with the operator definitions of
FrameOps (C36); the design's rewrite rules as Rewrite(rule, position).  TLC (OptimizerMC.tla) explores, for every
program of the bounded universe, every rewriting order: each reachable program denotes the original table (Sound),
stays well-formed, the rewrite relation has no cycle (Converges, liveness) and normal forms are fixpoints of the
normalisation strategy.

Binding.  spec -> code: the programs TLC enumerated (with the tables it demands) are built on real dask collections
(from_pandas with 1..3 partitions, or exact partitions incl. an empty one).  code -> spec: seeded larger DAG-shaped
programs (longer chains, nested expressions, reductions inside predicates and assigned values, shadowing assigns,
columns consumed several times).  For every program the recorder obtains the real optimizer's stages through
optimize_until(expr, stage) - logical, simplified-logical, tuned-logical, physical, simplified-physical, fused -
EXECUTES every stage (each partition through its own key), plus lower_completely() without any simplification,
plus the optimized expression optimized again (twice: from the simplified-logical and from the fused stage), plus
collection.compute(); TLC (OptimizerTrace.tla) decides every record: executed result = DenoteFrame(program).
An exception at any stage - "Optimizer does not converge" included - is a violation.  pandas executes the same
program as the reference guard: its result goes through the same TLC verdict and a rejection is a machinery error.
The spec's rule set is not required to contain the real rules: only results are compared."""
from __future__ import annotations

import copy
import json
import operator
import warnings

from ..core import MachineryError
from ..divisions import parts_collection
from ..frameobs import CallTimeout, time_limit
from ..frames import dd, is_shim_error, split_rows
from ..frametables import LIMIT, NA, table_of, tables_concat, to_pandas, cell, kind_of
from ..par import pmap

META = {
    "title": "The DataFrame optimizer preserves results and converges",
    "design_ref": "DESIGN.md §4.4 C43",
    "technique": "TLA+ logical expression language with DenoteFrame over FrameOps tables and the optimizer's rewrite rules as "
                 "actions; TLC checks on all small programs that every rule application preserves the denotation, that rewriting "
                 "has no cycle (liveness) and that normal forms are fixpoints; the real optimizer's stages are obtained with "
                 "optimize_until, executed, and every executed result is decided by TLC against DenoteFrame",
    "level_text": "Model checking of the rule set (projection pushdown through filter / assign / elementwise / head and - only "
                  "together with the columns they inspect - through dropna / drop_duplicates / nlargest / nsmallest, projection "
                  "fusion and identity, dead-assign elimination, filter pushdown through assign, filter fusion, factoring of "
                  "common AND-terms out of OR predicates, head pushdown and fusion) over programs of depth <= 2 (quick: depth 2 "
                  "thinned; thorough: <= 3, depth 3 thinned) from a menu of 43 steps x 8 "
                  "final forms on a 3-column 4-row frame: soundness invariant in every reachable state, convergence as a "
                  "liveness property, normal-form fixpoints. Conformance: TLC-enumerated programs and seeded larger DAG-shaped "
                  "programs are run through the REAL optimizer stage by stage (logical, simplified-logical, tuned-logical, "
                  "physical, simplified-physical, fused, lower_completely without simplify, re-optimization of optimized "
                  "expressions, compute()), every stage executed partition by partition, every result decided by TLC.",
    "level_note": "Trusted: TLC, DenoteFrame (cross-checked against pandas on every program through the same verdict; a "
                  "disagreement is a machinery error), the projection of results to tables, FrameOps' operator definitions (C36). "
                  "Only RESULTS of the real stages are compared - the real expression trees are not projected to the AST, so a "
                  "wrong rewrite is localised to a stage, not to a rule. The modelled rule set is a subset of the real one "
                  "(linear programs; no merges / groupby / alignment / IO predicate pushdown into parquet). Programs are sampled.",
}

STAGES = [("lg", "logical"), ("sl", "simplified-logical"), ("tl", "tuned-logical"), ("ph", "physical"),
          ("sp", "simplified-physical"), ("fu", "fused")]
STAGE_NAME = dict(STAGES, pd="pandas", lc="lower_completely", r1="reoptimize(simplified-logical)", r2="reoptimize(fused)", cm="compute()")
CLAUSES = ["Raised", "Kind", "Cols", "Dtypes", "NRows", "Index", "Values"]
BINOPS = {"add": operator.add, "sub": operator.sub, "mul": operator.mul,
          "lt": operator.lt, "le": operator.le, "gt": operator.gt, "ge": operator.ge, "eq": operator.eq, "ne": operator.ne,
          "and": operator.and_, "or": operator.or_, "xor": operator.xor}


class OutOfVocabulary(Exception):
    """A pandas intermediate left the cell vocabulary of the specification (|cell| >= LIMIT): the program is discarded."""


# ----------------------------------------------------------------------------- the interpreter (pandas and dask)
def _check_small(obj):
    import numpy as np
    import pandas as pd
    if isinstance(obj, (pd.Series, pd.DataFrame)):
        vals = obj.to_numpy(dtype="float64", na_value=np.nan) if len(obj) else np.zeros(0)
        if vals.size and np.nanmax(np.abs(np.where(np.isnan(vals), 0, vals))) >= LIMIT:
            raise OutOfVocabulary()
    elif isinstance(obj, (int, float, np.integer, np.floating)):
        if obj == obj and abs(obj) >= LIMIT:
            raise OutOfVocabulary()
    return obj


def ev(F, x, guard=False):
    """Column expression x (Optimizer.tla vocabulary) on the pandas / dask frame F."""
    e = x["e"]
    g = _check_small if guard else (lambda v: v)
    if e == "col":
        return F[x["c"]]
    if e == "const":
        return x["v"]
    if e == "bin":
        return g(BINOPS[x["f"]](ev(F, x["l"], guard), ev(F, x["r"], guard)))
    v = ev(F, x["x"], guard)
    if e == "red":
        return g(getattr(v, x["op"])())
    if e == "not":
        return ~v
    if e == "isna":
        return v.isna()
    if e == "notna":
        return v.notnull()
    if e == "isin":
        return v.isin(list(x["vals"]))
    if e == "fillna":
        return v.fillna(x["v"])
    raise MachineryError("unknown expression %r" % (x,))


def run_program(F, steps, fin, lazy, guard=False):
    g = _check_small if guard else (lambda v: v)
    for st in steps:
        k = st["k"]
        if k == "project":
            F = F[list(st["cols"])]
        elif k == "filter":
            F = F[ev(F, st["p"], guard)]
        elif k == "assign":
            F = F.assign(**{st["name"]: ev(F, st["x"], guard)})
        elif k == "fmap":
            F = (F + st["v"]) if st["f"] == "addc" else F.fillna(st["v"])
        elif k == "head":
            F = F.head(st["n"], npartitions=-1, compute=False) if lazy else F.head(st["n"])
        elif k == "dropna":
            kw = {"subset": list(st["sub"])} if st["sub"] else {}
            F = F.dropna(thresh=st["th"], **kw) if st["th"] != NA else F.dropna(how=st["how"], **kw)
        elif k == "dropdup":
            F = F.drop_duplicates(subset=list(st["sub"]) or None, keep=st["keep"])
        elif k == "ntop":
            F = F.nlargest(st["n"], st["c"]) if st["big"] else F.nsmallest(st["n"], st["c"])
        else:
            raise MachineryError("unknown step %r" % (st,))
        g(F)
    if fin["k"] == "frame":
        return F
    if fin["k"] == "col":
        return F[fin["c"]]
    return g(getattr(F[fin["c"]], fin["op"])())


def scalar_table(v):
    import numpy as np
    k = kind_of(np.asarray(v).dtype)
    return {"ser": True, "cols": ["#"], "kinds": [k], "rows": [{"idx": 0, "v": [cell(v)]}]}


def obs_of(parts_or_value):
    """list of computed partitions (pandas objects) or a scalar -> observation."""
    import pandas as pd
    if isinstance(parts_or_value, list):
        parts = parts_or_value
        if parts and all(isinstance(p, (pd.Series, pd.DataFrame)) for p in parts):
            t = tables_concat([table_of(p) for p in parts])
        elif len(parts) == 1:
            t = scalar_table(parts[0])
        else:
            t = {"ser": False, "cols": ["<%d non-frame partitions>" % len(parts)], "kinds": [], "rows": []}
    elif isinstance(parts_or_value, (pd.Series, pd.DataFrame)):
        t = table_of(parts_or_value)
    else:
        t = scalar_table(parts_or_value)
    return {"raised": "", "ser": t["ser"], "cols": list(t["cols"]), "kinds": list(t["kinds"]), "rows": t["rows"]}


def raised(ex):
    return {"raised": type(ex).__name__, "ser": False, "cols": [], "kinds": [], "rows": [], "msg": str(ex)[:160]}


def source(src, variant, key):
    ddm = dd()
    pdf = to_pandas(src)
    if variant["k"] == "fp":
        return ddm.from_pandas(pdf, npartitions=variant["n"], sort=True)
    lay = variant["lay"]
    return parts_collection(split_rows(pdf, lay), None, key=("C43", key, list(lay)))


def execute(expr):
    """Execute an expression AS IT IS: lowered without any simplification (a no-op for physical stages), the graph run
    on the synchronous scheduler, one result per output key."""
    from dask.local import get_sync
    low = expr.lower_completely()
    keys = list(low.__dask_keys__())
    return list(get_sync(dict(low.__dask_graph__()), keys))


def stage_observations(case):
    """-> {stage code: observation} for one program (pandas first), or {"skip": reason}."""
    from dask._expr import optimize_until
    src, steps, fin = case["src"], case["steps"], case["fin"]
    out = {}
    with warnings.catch_warnings():
        warnings.simplefilter("ignore")
        try:
            out["pd"] = obs_of(run_program(to_pandas(src), steps, fin, False, guard=True))
        except OutOfVocabulary:
            return {"skip": "cells leave the vocabulary"}
        except Exception as ex:  # noqa: BLE001 - pandas itself raises: not a program of the domain
            return {"skip": "pandas raises %s" % type(ex).__name__}
        try:
            with time_limit(60):
                coll = run_program(source(src, case["variant"], json.dumps([steps, fin], sort_keys=True)), steps, fin, True)
                expr = coll.expr
        except NotImplementedError as ex:
            return {"skip": "NotImplementedError: " + str(ex)[:60]}
        except Exception as ex:  # noqa: BLE001 - the lazy program cannot even be written down with dask's API: that is
            if is_shim_error(ex):  # a limitation of the operations (C36), nothing the optimizer has seen yet
                return {"skip": "pyarrow shim"}
            return {"skip": "dask cannot express the program: %s" % type(ex).__name__}
        exprs = {}

        def attempt(code, make):
            try:
                with time_limit(60):
                    res = make()
                out[code] = obs_of(res)
            except NotImplementedError as ex:
                out[code] = {"skipstage": "NotImplementedError: " + str(ex)[:60]}
            except CallTimeout as ex:
                out[code] = raised(ex)
            except Exception as ex:  # noqa: BLE001 - an exception of the optimizer / executor is an observation
                if is_shim_error(ex):
                    out[code] = {"skipstage": "pyarrow shim"}
                else:
                    out[code] = raised(ex)

        def staged(code, name, base=None):
            def make():
                e = optimize_until(expr if base is None else base, name)
                exprs[code] = e
                return execute(e)
            attempt(code, make)

        only = case.get("only")                  # (the selftest executes a subset of the stages)
        for code, name in STAGES:
            if only is None or code in only:
                staged(code, name)
        if only is None or "lc" in only:
            attempt("lc", lambda: execute(expr.lower_completely()))
        if "sl" in exprs and (only is None or "r1" in only):
            staged("r1", "fused", exprs["sl"])
        if "fu" in exprs and (only is None or "r2" in only):
            staged("r2", "fused", exprs["fu"])
        if only is None or "cm" in only:
            attempt("cm", lambda: coll.compute(scheduler="sync"))
    return out


# ----------------------------------------------------------------------------- classification
def expr_feats(x, out):
    if x["e"] == "red":
        out.add("red")
    for k in ("l", "r", "x"):
        if k in x and isinstance(x[k], dict):
            expr_feats(x[k], out)
    return out


def shape_of(case):
    """Structural shape of a program: kinds of steps in order (collapsing repeats), with the features that select
    optimizer paths: a reduction inside a predicate / assigned value, an assign that shadows a column."""
    toks, cols = [], set(case["src"]["cols"])
    for st in case["steps"]:
        k = st["k"]
        t = {"project": "P", "filter": "F", "assign": "A", "fmap": "E", "head": "H", "dropna": "N", "dropdup": "D", "ntop": "T"}[k]
        if k in ("dropna", "dropdup") and not st["sub"]:
            t += "w"                                       # looks at whole rows
        if k == "filter" and "red" in expr_feats(st["p"], set()):
            t += "r"
        if k == "filter" and st["p"].get("e") == "bin" and st["p"].get("f") == "or":
            t += "o"
        if k == "assign":
            if "red" in expr_feats(st["x"], set()):
                t += "r"
            if st["name"] in cols:
                t += "s"
            cols.add(st["name"])
        if k == "project":
            cols = set(st["cols"])
        if not toks or toks[-1] != t:
            toks.append(t)
    return ">".join(toks) + ":" + case["fin"]["k"]


def classify(case, stages_bad, obs=None):
    """Signature = a known root cause identified by its call site / program pattern, else the first optimizer stage
    whose result is wrong (the stage that introduced the damage) + the structural shape of the program."""
    order = ["lg", "lc", "sl", "tl", "ph", "sp", "fu", "r1", "r2", "cm"]
    first = next(s for s in order if s in stages_bad)
    clauses = stages_bad[first]
    what = "raises" if "Raised" in clauses else "wrong-result"
    o = (obs or {}).get(first, {})
    # Head._simplify_down wraps EVERY expression operand of an elementwise node, scalar reductions included
    if what == "raises" and "object has no attribute 'head'" in o.get("msg", ""):
        return "head-pushed-into-scalar-operand"
    # simplifying an expression that holds Fused nodes rewrites the dependencies of a Fused node, whose inner
    # expressions keep referring to the old ones by name
    if what == "raises" and first == "r2" and o.get("msg", "").startswith("Missing dependency"):
        return "reoptimize-fused:dependencies-rewritten-under-fused-node"
    # Reduction._simplify_up pushes a projection below nlargest / nsmallest WITHOUT the column they order by
    msg = o.get("msg", "")
    if what == "raises" and any(st["k"] == "ntop" for st in case["steps"]) and \
            (o.get("raised") == "KeyError" or "nlargest()" in msg or "nsmallest()" in msg):
        return "projection-below-nlargest-drops-order-column"
    # Assign fusion drops the earlier assignment of a re-assigned column and appends it at the end
    names = [st["name"] for st in case["steps"] if st["k"] == "assign"]
    if what == "wrong-result" and "Cols" in clauses and len(set(names)) < len(names) and obs is not None \
            and sorted(o.get("cols", [])) == sorted(obs["pd"]["cols"]):
        return "assign-fusion:reassigned-column-order"
    return "%s:%s:%s" % (STAGE_NAME[first], what, shape_of(case))


# ----------------------------------------------------------------------------- records and verdicts
def _work(case):
    return stage_observations(case)


def judge_cases(ctx, cases, label, results=None):
    """Run every case through all stages (unless `results` holds their observations already), let ONE TLC run decide
    the pooled records.  -> ([(case, {stage: clauses}, {stage: obs})] for the cases with a rejected stage,
    observations per case, number of executions)."""
    if results is None:
        results = pmap(_work, cases, chunk=8)
    pool, members = {}, {}
    per_case = []
    for ci, (case, obs) in enumerate(zip(cases, results)):
        if "skip" in obs:
            ctx.skip(obs["skip"])
            per_case.append(None)
            continue
        per_case.append(obs)
        lc = obs.get("lc", {})
        base = list(lc["kinds"]) if lc.get("raised", "x") == "" else []
        for code, o in obs.items():
            if "skipstage" in o:
                ctx.skip("%s: %s" % (STAGE_NAME[code], o["skipstage"]))
                continue
            judged = {k: o[k] for k in ("raised", "ser", "cols", "kinds", "rows")}
            key = json.dumps([case["src"], case["steps"], case["fin"], base, judged], sort_keys=True)
            if key not in pool:
                pool[key] = {"id": "u%d" % len(pool), "src": case["src"], "steps": case["steps"], "fin": case["fin"], "st": code,
                             "base": base, "obs": judged}
            members.setdefault(pool[key]["id"], []).append((ci, code))
    recs = list(pool.values())
    rej = {}
    if recs:
        spec, cfg = ctx.model(ctx.spec("frame", "OptimizerTrace.tla"), {})
        for lo in range(0, len(recs), 8000):
            rej.update(ctx.tlc_validate(spec, recs[lo:lo + 8000], cfg, label=label, timeout=2400))
    n_exec = sum(len(v) for v in members.values())
    ctx.traces += n_exec - len(recs)                 # stages with identical observations share one TLC verdict
    bad = {}
    for uid, texts in rej.items():
        cl = [c for c in CLAUSES if '"%s"' % c in " ".join(texts)] or ["Rejected"]
        for ci, code in members[uid]:
            bad.setdefault(ci, {})[code] = cl
    out = []
    for ci, stages_bad in sorted(bad.items()):
        if "pd" in stages_bad:
            raise MachineryError("DenoteFrame disagrees with pandas on %r: clauses %s, pandas gives %r"
                                 % ({k: cases[ci][k] for k in ("src", "steps", "fin")}, stages_bad["pd"], per_case[ci]["pd"]))
        out.append((cases[ci], stages_bad, per_case[ci]))
    judge_cases.last_bad_index = sorted(bad)
    return out, per_case, n_exec


def report(ctx, case, stages_bad, obs):
    sig = classify(case, stages_bad, obs)
    first = next(s for s in ["lg", "lc", "sl", "tl", "ph", "sp", "fu", "r1", "r2", "cm"] if s in stages_bad)
    what = "stage %s: %s (%s); failing stages: %s" % (STAGE_NAME[first], "+".join(stages_bad[first]),
                                                       obs[first].get("msg", "result differs from DenoteFrame"),
                                                       ", ".join(STAGE_NAME[s] for s in stages_bad))
    ctx.violation(sig, what, {"case": case, "failing": stages_bad, "observed": {s: obs[s] for s in stages_bad}, "pandas": obs["pd"]})


# ----------------------------------------------------------------------------- sources, variants, programs
def make_table(a, b, c, kinds=("i", "f", "i")):
    return {"ser": False, "err": False, "cols": ["a", "b", "c"], "kinds": list(kinds),
            "rows": [{"idx": i, "v": [a[i], b[i], c[i]]} for i in range(len(a))]}


MC_SOURCES = [make_table([1, 2, 0, 2], [0, NA, 2, 1], [2, 1, 1, 0])]


def variants(rng, nrows):
    out = [{"k": "fp", "n": n} for n in (1, 2, 3) if n <= max(1, nrows)]
    cuts = sorted(rng.randint(0, nrows) for _ in range(2))
    out.append({"k": "parts", "lay": [cuts[0], cuts[1] - cuts[0], nrows - cuts[1]]})
    return out


def rand_expr(rng, cols, depth, boolean):
    """A random column expression over `cols` (values stay small).  ser(d): Series-valued; sca(d): scalar-valued
    (a constant, or a reduction of a Series-valued expression - never of a scalar)."""
    def col():
        return {"e": "col", "c": rng.choice(cols)}

    def sca(d):
        if d == 0 or rng.random() < 0.35:
            return {"e": "const", "v": rng.randint(0, 2)}
        return {"e": "red", "op": rng.choice(["sum", "min", "max", "count"]), "x": ser(d - 1)}

    def ser(d):
        r = rng.random()
        if d == 0 or r < 0.35:
            return {"e": "fillna", "x": col(), "v": rng.randint(0, 1)} if rng.random() < 0.15 else col()
        f = rng.choice(["add", "sub", "add", "mul"])
        r = rng.random()
        if r < 0.45:
            return {"e": "bin", "f": f, "l": ser(d - 1), "r": ser(d - 1)}
        if r < 0.8:
            return {"e": "bin", "f": f, "l": ser(d - 1), "r": sca(d)}
        return {"e": "bin", "f": f, "l": sca(d), "r": ser(d - 1)}

    def boo(d):
        r = rng.random()
        if d == 0 or r < 0.55:
            return {"e": "bin", "f": rng.choice(["lt", "le", "gt", "ge", "eq", "ne"]), "l": ser(max(0, d - 1)),
                    "r": ser(max(0, d - 1)) if rng.random() < 0.5 else sca(d)}
        if r < 0.65:
            return {"e": rng.choice(["isna", "notna"]), "x": col()}
        if r < 0.75:
            return {"e": "isin", "x": col(), "vals": sorted(set(rng.randint(0, 3) for _ in range(2)))}
        if r < 0.82:
            return {"e": "not", "x": boo(d - 1)}
        return {"e": "bin", "f": rng.choice(["and", "or", "and"]), "l": boo(d - 1), "r": boo(d - 1)}

    return boo(depth) if boolean else ser(depth)


ATOMS = [("gt", "a", 1), ("gt", "a", 0), ("lt", "c", 2), ("ge", "c", 1), ("eq", "c", 0), ("le", "b", 1), ("eq", "a", 2), ("ne", "c", 1)]


def or_predicate(rng, cols):
    """Disjunction of 2..4 conjunctions over a small pool of atomic comparisons with CONTROLLED SHARING of AND-terms:
    a term shared by all clauses, by some clauses only (the others can be satisfied without it), or by none."""
    pool = [{"e": "bin", "f": f, "l": {"e": "col", "c": c}, "r": {"e": "const", "v": v}} for f, c, v in ATOMS if c in cols]
    if "b" in cols:
        pool.append({"e": "notna", "x": {"e": "col", "c": "b"}})
    if len(pool) < 3:
        return None
    rng.shuffle(pool)
    nclauses = rng.randint(2, 4)
    sharing = rng.choice(["all", "some", "some", "none"])
    shared, others = pool[0], pool[1:]
    clauses = []
    for j in range(nclauses):
        terms = [rng.choice(others)]
        if rng.random() < 0.3:
            terms.append(rng.choice(others))
        has = sharing == "all" or (sharing == "some" and (j == 0 or (j < nclauses - 1 and rng.random() < 0.7)))
        if has:
            terms.insert(rng.randint(0, len(terms)) if j else 0, shared)     # the first clause leads with the shared term
        x = terms[0]
        for q in terms[1:]:
            x = {"e": "bin", "f": "and", "l": x, "r": q}
        clauses.append(x)
    p = clauses[0]
    for cl in clauses[1:]:
        p = {"e": "bin", "f": "or", "l": p, "r": cl}
    return p


def row_selection(rng, cols, after_dropdup):
    """dropna / drop_duplicates / nlargest / nsmallest: they look at columns they need not output."""
    kinds = ["dropna", "dropna"] if after_dropdup else ["dropna", "dropdup", "dropdup", "dropdup", "ntop"]
    k = rng.choice(kinds)
    sub = [] if rng.random() < 0.5 else rng.sample(cols, rng.randint(1, min(2, len(cols))))
    if k == "dropna":
        if rng.random() < 0.3:
            return {"k": "dropna", "how": "any", "sub": sub, "th": rng.randint(1, max(1, len(sub or cols)))}
        return {"k": "dropna", "how": rng.choice(["any", "all"]), "sub": sub, "th": NA}
    if k == "dropdup":
        return {"k": "dropdup", "sub": sub, "keep": rng.choice(["first", "last"])}
    return {"k": "ntop", "n": rng.randint(1, 4), "c": rng.choice(cols), "big": rng.random() < 0.5}


def random_program(rng):
    """A seeded program.  Half of the programs are built around the two situations in which a rewrite must look at more
    than the columns it outputs: a row selection (dropna / drop_duplicates / nlargest ...) followed by projections to
    one or several columns and further filters, and OR-predicates with partially shared AND-terms placed before and
    after projections / assigns."""
    n = rng.randint(4, 8)
    a = [rng.randint(0, 3) for _ in range(n)]
    b = [NA if rng.random() < 0.25 else rng.randint(0, 3) for _ in range(n)]
    c = [rng.randint(0, 2) for _ in range(n)]
    kinds = ["i", "f" if (NA in b or rng.random() < 0.5) else "i", "i"]
    src = make_table(a, b, c, kinds)
    cols = ["a", "b", "c"]
    steps = []
    dedup = False                       # after a drop_duplicates nothing order-dependent may follow (Optimizer!OrderFree)
    focus = rng.choice(["rowsel", "orpred", "mixed", "mixed"])
    for _ in range(rng.randint(3, 7)):
        r = rng.random()
        if focus == "rowsel" and r < 0.3 or focus == "mixed" and r < 0.08:
            st = row_selection(rng, cols, dedup)
            steps.append(st)
            dedup = dedup or st["k"] == "dropdup"
            continue
        if focus == "orpred" and r < 0.35 or focus == "mixed" and 0.08 <= r < 0.14:
            p = or_predicate(rng, cols)
            if p is not None:
                steps.append({"k": "filter", "p": p})
                continue
        r = rng.random()
        if r < 0.3:
            k = rng.randint(1, len(cols))
            sel = rng.sample(cols, k)
            if rng.random() < 0.6:
                sel = [x for x in cols if x in sel]
            steps.append({"k": "project", "cols": sel})
            cols = sel
        elif r < 0.55:
            steps.append({"k": "filter", "p": rand_expr(rng, cols, rng.randint(0, 2), True)})
        elif r < 0.82:
            name = rng.choice(cols + ["d", "e"])
            steps.append({"k": "assign", "name": name, "x": rand_expr(rng, cols, rng.randint(1, 2), False)})
            if name not in cols:
                cols = cols + [name]
        elif r < 0.9:
            steps.append({"k": "fmap", "f": rng.choice(["addc", "fillna"]), "v": rng.randint(0, 1)})
        elif not dedup:
            steps.append({"k": "head", "n": rng.randint(1, 5)})
    r = rng.random()
    if r < 0.4:
        fin = {"k": "frame"}
    elif r < 0.75:
        fin = {"k": "col", "c": rng.choice(cols)}
    else:
        fin = {"k": "red", "op": rng.choice(["sum", "min", "max", "count"]), "c": rng.choice(cols)}
    return {"src": src, "steps": steps, "fin": fin, "variant": rng.choice(variants(rng, n))}


# ----------------------------------------------------------------------------- TLC model checking + export
def model_check(ctx, depth, stride, label, liveness=True):
    consts = {"Sources": MC_SOURCES, "MaxDepth": depth, "Stride": stride, "Salt": ctx.rng.randrange(1, 9973)}
    kw = dict(invariants=["Sound", "WellFormedKept", "NormalIsFixpoint", "NormalizeSound"])
    if liveness:
        kw.update(spec="Spec", properties=["Converges"])
    spec, cfg = ctx.model(ctx.spec("frame", "OptimizerMC.tla"), consts, **kw)
    exported, r = ctx.tlc_cases(spec, cfg, label=label, timeout=3000)
    seen, progs = set(), []
    for c in exported:                                   # with a liveness property TLC dumps every state twice
        key = json.dumps(c["c"], sort_keys=True)
        if key not in seen:
            seen.add(key)
            progs.append(c)
    progs.sort(key=lambda c: json.dumps(c["c"], sort_keys=True))
    return progs, r


def case_of(exported, rng):
    c = exported["c"]
    src = MC_SOURCES[c["src"] - 1]
    return {"src": src, "steps": c["steps"], "fin": c["fin"], "variant": rng.choice(variants(rng, len(src["rows"]))), "want": exported["e"]}


# ----------------------------------------------------------------------------- run
def is_focus(steps):
    return any(st["k"] in ("dropna", "dropdup", "ntop") or
               (st["k"] == "filter" and st["p"].get("e") == "bin" and st["p"].get("f") == "or") for st in steps)


def nontrivial(case):
    return len(case["steps"]) >= 2


def run(ctx):
    dd()
    rng = ctx.rng
    depth = ctx.pick(2, 3)
    stride = {0: 1, 1: 1, 2: ctx.pick(6, 1), 3: 150}
    progs, r = model_check(ctx, depth, {d: stride[d] for d in range(depth + 1)}, "rule-set model checking + program export")
    ctx.extra["programs_enumerated_by_tlc"] = len(progs)
    ctx.extra["rewrite_states_explored"] = r.distinct
    nsel = ctx.pick(240, 3500)
    if len(progs) <= nsel:
        sel = progs
    else:       # half of the replayed programs hold a row selection that reads columns / an OR-predicate (where a rewrite
        focus = [p for p in progs if is_focus(p["c"]["steps"])]       # must look at more than the columns it outputs)
        rest = [p for p in progs if not is_focus(p["c"]["steps"])]
        take = min(len(focus), nsel // 2)
        sel = rng.sample(focus, take) + rng.sample(rest, min(len(rest), nsel - take))
    cases = [case_of(p, rng) for p in sel] + [random_program(rng) for _ in range(ctx.pick(180, 4000))]
    bad, per_case, n_exec = judge_cases(ctx, cases, "stage results vs DenoteFrame")
    ctx.extra["stage_executions"] = n_exec
    for case, obs in zip(cases, per_case):
        if obs is None:
            continue
        k = {x: case[x] for x in ("src", "steps", "fin", "variant")}
        ctx.count(k, nontrivial(case), n=sum(1 for o in obs.values() if "skipstage" not in o))
        if "want" in case and (obs["pd"]["rows"] != case["want"]["rows"] or obs["pd"]["cols"] != case["want"]["cols"]):
            raise MachineryError("exported DenoteFrame disagrees with pandas on %r" % (k,))
    for case, stages_bad, obs in bad:
        report(ctx, case, stages_bad, obs)
    for case, obs in zip(cases, per_case):
        if obs is not None and len(case["steps"]) >= 2 and len(ctx.samples) < 4:
            ctx.sample({"steps": case["steps"], "fin": case["fin"], "source_partitions": case["variant"], "result_rows": obs["pd"]["rows"],
                        "stages_executed": sorted(STAGE_NAME[s] for s in obs if s != "pd")})
    ctx.exhaustive = False
    ctx.rule = ("a case = one program (source table, steps, final form, partitioning of the source); an evaluation = one executed "
                "optimizer stage of it (logical, simplified-logical, tuned-logical, physical, simplified-physical, fused, "
                "lower_completely, two re-optimizations, compute()); non-trivial = at least two steps; distinct by program + "
                "partitioning")
    ctx.assumptions = ["pandas kernels per partition are correct", "TLC evaluates DenoteFrame correctly",
                       "executing an un-lowered stage means lower_completely() without simplification",
                       "the operator definitions of FrameOps (C36) are the pandas semantics"]


# ----------------------------------------------------------------------------- replay
def replay(ctx, obj):
    dd()
    case = obj["case"]["case"]
    bad, per_case, _ = judge_cases(ctx, [case], "replay")
    print("program:", json.dumps({k: case[k] for k in ("steps", "fin", "variant")}))
    if per_case[0] is None:
        print("skipped")
        return False
    for code, o in per_case[0].items():
        print("  %-32s %s" % (STAGE_NAME[code], o if "skipstage" in o else (o["raised"] + " " + o.get("msg", "") if o["raised"] else o["rows"])))
    print("rejected stages:", bad[0][1] if bad else {})
    return bool(bad)


# ----------------------------------------------------------------------------- selftest
def selftest(ctx):
    """Binding demonstration: in-memory mutants of the anchored optimizer functions must be reported on a small program
    set (and the unmutated code must not be, beyond the known findings); corrupted recorded results must be rejected.
    Observations of all runs are decided by ONE TLC run."""
    from ..divisions import mutate, patched_attr as patched
    dd()
    import dask._expr as core
    import dask.dataframe.dask_expr._expr as ex
    import dask.dataframe.dask_expr._reductions as red
    rng = ctx.rng
    S = MC_SOURCES[0]
    col, k = (lambda c: {"e": "col", "c": c}), (lambda v: {"e": "const", "v": v})
    bn = lambda f, l, r: {"e": "bin", "f": f, "l": l, "r": r}          # noqa: E731
    P = lambda *cs: {"k": "project", "cols": list(cs)}                  # noqa: E731
    F = lambda p: {"k": "filter", "p": p}                               # noqa: E731
    A = lambda n, x: {"k": "assign", "name": n, "x": x}                 # noqa: E731
    H = lambda n: {"k": "head", "n": n}                                 # noqa: E731
    frame, colfin = {"k": "frame"}, (lambda c: {"k": "col", "c": c})
    hand = [
        ([P("a", "b"), P("a")], frame), ([P("c", "a"), F(bn("gt", col("a"), k(1))), P("a")], frame), ([P("a", "c"), P("c")], colfin("c")),
        ([F(bn("gt", col("a"), k(0))), F(bn("lt", col("c"), k(2)))], frame), ([F(bn("gt", col("a"), k(1))), F(bn("ge", col("c"), k(1)))], colfin("a")),
        ([A("d", bn("add", col("a"), col("c"))), A("c", bn("mul", col("c"), k(2))), P("a", "d")], frame),
        ([A("d", bn("add", col("a"), col("c"))), A("a", bn("mul", col("a"), k(2))), P("d", "c")], frame),
        ([A("d", bn("add", col("a"), col("c"))), A("e", bn("add", col("b"), k(1))), P("e", "a")], frame),
        ([H(3), H(2)], frame), ([H(2), H(3)], frame), ([{"k": "fmap", "f": "addc", "v": 1}, H(3), H(1)], colfin("a")),
        ([A("d", bn("add", col("a"), k(1))), F(bn("gt", col("d"), k(1))), P("a", "d")], frame),
        ([F(bn("lt", col("a"), {"e": "red", "op": "max", "x": col("a")})), P("b", "c")], {"k": "red", "op": "sum", "c": "c"}),
        # a whole-row drop_duplicates / a dropna over all columns followed by a projection to fewer columns
        ([{"k": "dropdup", "sub": [], "keep": "first"}, P("a")], frame), ([{"k": "dropdup", "sub": [], "keep": "last"}], colfin("a")),
        ([{"k": "dropdup", "sub": ["a"], "keep": "first"}, P("c")], frame),
        ([{"k": "dropna", "how": "any", "sub": [], "th": NA}, P("a", "c")], frame),
        # OR of three conjunctions whose leading AND-term is shared by two of them only; rows satisfy the third alone
        ([F(bn("or", bn("or", bn("and", bn("gt", col("a"), k(1)), bn("lt", col("c"), k(2))),
                              bn("and", bn("gt", col("a"), k(1)), {"e": "notna", "x": col("b")})), bn("eq", col("c"), k(2)))), P("a", "c")], frame),
        ([P("a", "c"), F(bn("or", bn("or", bn("and", bn("gt", col("a"), k(1)), bn("lt", col("c"), k(1))),
                                       bn("and", bn("gt", col("a"), k(1)), bn("ge", col("c"), k(1)))), bn("eq", col("a"), k(0))))], colfin("c")),
    ]
    stages = ["lc", "sl", "fu", "cm"]        # "lc" (no optimization) is the dtype base of the verdict
    base_cases = [{"src": S, "steps": st, "fin": fin, "variant": {"k": "fp", "n": 2}, "only": stages} for st, fin in hand]
    base_cases += [dict(random_program(rng), only=stages) for _ in range(12)]
    known = set(ctx.known)
    mutants = [
        ("Projection._simplify_down: df[a][b] fused to df[a] instead of df[b] (wrong operand)",
         [ex.Projection], "_simplify_down", mutate(vars(ex.Projection)["_simplify_down"], "return self.frame.frame[b]", "return self.frame.frame[a]")),
        ("Filter._simplify_up: two filters fused with | instead of & (wrong operand)",
         [ex.Filter], "_simplify_up", mutate(vars(ex.Filter)["_simplify_up"], "self.predicate & parent.predicate.substitute(self, self.frame)",
                                             "self.predicate | parent.predicate.substitute(self, self.frame)")),
        ("Assign._simplify_up: dead-assign elimination keeps the assigns that are NOT needed (inverted test)",
         [ex.Assign], "_simplify_up", mutate(vars(ex.Assign)["_simplify_up"], "if k in columns:", "if k not in columns:")),
        ("Head._simplify_down: head(head(x, n), m) fused to max(n, m) (boundary)",
         [ex.Head], "_simplify_down", mutate(vars(ex.Head)["_simplify_down"], "min(self.n, self.frame.n)", "max(self.n, self.frame.n)")),
        ("DropDuplicates._simplify_up: the `subset is not None` guard dropped - a projection is pushed below a WHOLE-ROW "
         "drop_duplicates()",
         [red.DropDuplicates], "_simplify_up", mutate(vars(red.DropDuplicates)["_simplify_up"],
                                                      "if self.subset is not None and isinstance(parent, Projection):", "if isinstance(parent, Projection):")),
        ("_replace_common_or_components: an AND-term is factored out of an OR predicate when ANY other clause has it (all -> any)",
         [ex], "_replace_common_or_components", mutate(ex._replace_common_or_components, "if all(c in comp for comp in and_components):",
                                                       "if any(c in comp for comp in and_components):")),
        ("Expr.simplify: the second simplification pass is reported as a revisit (spurious 'Optimizer does not converge')",
         [core.Expr], "simplify", mutate(vars(core.Expr)["simplify"], "if new._name in seen:", "if len(seen) >= 1:")),
    ]
    runs = [("baseline", pmap(_work, base_cases, chunk=4))]
    for what, targets, attr, mut in mutants:
        with patched(targets, attr, mut):
            runs.append((what, pmap(_work, base_cases, chunk=4)))
    n = len(base_cases)
    all_cases = [c for _ in runs for c in base_cases]
    all_results = [r for _w, res in runs for r in res]
    bad, _, _ = judge_cases(ctx, all_cases, "selftest: baseline + mutants", results=all_results)
    flagged = {i: [] for i in range(len(runs))}
    for ci, (case, sb, o) in zip(judge_cases.last_bad_index, bad):
        sig = classify(case, sb, o)
        if sig not in known:
            flagged[ci // n].append(sig)
    ok = not flagged[0]
    print("selftest C43 baseline (unmutated code, %d programs x stages %s): violations outside known findings: %d -> %s"
          % (n, stages, len(flagged[0]), "ok" if ok else "UNEXPECTED %s" % flagged[0][:3]))
    for i, (what, _res) in enumerate(runs[1:], start=1):
        got = flagged[i]
        ok = ok and bool(got)
        print("selftest C43 mutant [%s]: %s (%d of %d programs flagged, e.g. %s)" % (what, "DETECTED" if got else "MISSED", len(got), n, got[0] if got else "-"))
    # corrupted recorded results
    recs = []
    for case, o in zip(base_cases, runs[0][1]):
        if "skip" in o or o.get("fu", {}).get("raised", "x") != "" or len(o["fu"]["rows"]) < 2:
            continue
        recs.append({"id": "g%d" % len(recs), "src": case["src"], "steps": case["steps"], "fin": case["fin"], "st": "fu",
                     "base": list(o["fu"]["kinds"]), "obs": {k: o["fu"][k] for k in ("raised", "ser", "cols", "kinds", "rows")}})
    corrupt = []
    for j, r in enumerate(recs):
        c = copy.deepcopy(r)
        o = c["obs"]
        kind = j % 4
        if kind == 2 and any(st["k"] == "dropdup" for st in r["steps"]):
            kind = 0                          # (rows of a drop_duplicates program are compared as a multiset)
        if kind == 0:
            v = o["rows"][0]["v"][0]
            o["rows"][0]["v"][0] = 0 if v == NA else v + 1
            c["want"] = "Values"
        elif kind == 1:
            o["rows"] = o["rows"][:-1]
            c["want"] = "NRows"
        elif kind == 2:
            o["rows"][0], o["rows"][1] = o["rows"][1], o["rows"][0]
            c["want"] = "Index"
        else:
            o["cols"] = [x + "x" for x in o["cols"]]
            c["want"] = "Cols"
        c["id"] = "x%d" % j
        corrupt.append(c)
    spec, cfg = ctx.model(ctx.spec("frame", "OptimizerTrace.tla"), {})
    rej = ctx.tlc_validate(spec, [{k: v for k, v in r.items() if k != "want"} for r in recs + corrupt], cfg, label="selftest records")
    genuine = [r["id"] for r in recs if r["id"] in rej]
    print("selftest C43 trace: %d genuine stage results, rejected: %d -> %s" % (len(recs), len(genuine), "ok" if not genuine and len(recs) >= 8 else "UNEXPECTED"))
    ok = ok and not genuine and len(recs) >= 8
    for name in ("Values", "NRows", "Index", "Cols"):
        mine = [c for c in corrupt if c["want"] == name]
        hit = [c for c in mine if '"%s"' % name in " ".join(rej.get(c["id"], []))]
        print("selftest C43 corrupted result [%s]: %d of %d rejected -> %s" % (name, len(hit), len(mine), "REJECTED" if mine and len(hit) == len(mine) else "MISSED"))
        ok = ok and bool(mine) and len(hit) == len(mine)
    print("selftest C43: %s" % ("all binding demonstrations hold" if ok else "FAILED"))
    return 0 if ok else 1
