"""C27 - counting, set, search and histogram routines equal NumPy.

spec -> code: TLC enumerates (specs/array/RoutinesMC.tla) every (operation, data fill, arguments) case of the
bounded space with the result demanded by the TLA+ reference (specs/array/Routines.tla: unique with
index/inverse/counts, bincount, histogram and histogram2d with exact rational densities, digitize, searchsorted,
isin, nonzero/argwhere/flatnonzero, count_nonzero, ravel_multi_index/unravel_index, coarsen, compress) plus, per
shape, the complete list of chunkings; each case is run on real dask arrays under those chunkings (every input
with its own chunking where the operation allows it, zero-width chunks included), every block of every returned
array computed through its own key.  code -> spec: seeded random calls on larger inputs are recorded and TLC
decides every record (RoutinesTrace.tla).  NumPy is only the reference *guard*."""
from __future__ import annotations

import functools
import json
import math
import warnings
from fractions import Fraction

import numpy as np

from ..arrays import compute_blocks, observe, py_chunks, raised
from ..core import TLA, MachineryError
from ..par import pmap

META = {
    "title": "Counting, set, search and histogram routines equal NumPy",
    "design_ref": "DESIGN.md §4.3 C27",
    "technique": "TLA+ reference semantics of unique/bincount/histogram(2d)/digitize/searchsorted/isin/nonzero family/"
                 "count_nonzero/ravel_multi_index/unravel_index/coarsen/compress on small integer (and NaN) arrays; TLC enumerates "
                 "data fills x argument menus and all chunkings; replay into dask + TLC validation of recorded calls",
    "level_text": "Small-scope exhaustive: every 1-d data fill over {0..3} up to length 3 (thorough 4) plus seeded samples up to "
                  "length 6, with NaN, and of 2-d shapes up to (2,3)/(3,2); for each, every flag combination of unique, bincount "
                  "(weights, minlength), histogram over 6 explicit edge lists and 4 bins+range forms (weights, density as exact "
                  "rationals), histogram2d, digitize (increasing / decreasing / empty bins, right), searchsorted (side, 1-d and "
                  "2-d needles, NaN), isin (invert, dask or NumPy test set), argwhere/nonzero/flatnonzero, count_nonzero (all "
                  "axes), ravel_multi_index / unravel_index, coarsen (sum, max, trim_excess) and compress (every condition up to "
                  "length 5, every axis) - each under ALL chunkings of every input (zero-width chunks on extents <= 3); the "
                  "TLA+ reference gives shape, content and dtype class of every returned array. Two strata are never sampled "
                  "out (the specification marks them): searchsorted (side left and right) under every chunking whose border cuts a "
                  "run of equal values, and digitize over decreasing bins (right False and True). Random larger calls are decided "
                  "by TLC from recorded observations.",
    "level_note": "Trusted: TLC, the TLA+ reference (cross-checked against NumPy on every case; a disagreement is a machinery "
                  "error), the block-assembly projection, NumPy per block. Bounded shapes; quick tier samples (case, chunking) "
                  "pairs; bin edges are integers (bins+range only with integral edges); float accuracy, histogramdd beyond 2-d, "
                  "Delayed/dask-array bins, unique on structured arrays and searchsorted(sorter=) are not covered.",
}

NAN, NONE = 9, 99
OPS = ["unique", "bincount", "histogram", "histogram2d", "digitize", "searchsorted", "isin", "nonzero", "count_nonzero",
       "ravel_multi_index", "unravel_index", "coarsen", "compress"]
INVS = ["CellCount", "UniqueOK", "BincountOK", "HistogramOK", "DigitizeOK", "SearchSortedOK", "IsInOK", "NonZeroOK",
        "CountNonZeroOK", "RavelOK", "UnravelOK", "CoarsenOK", "CompressOK", "ChunkingsValid", "StrataOK"]


# --------------------------------------------------------------------------- inputs of a case
def data_array(cells, shape):
    if NAN in cells:
        return np.array([np.nan if v == NAN else float(v) for v in cells], dtype="f8").reshape(tuple(shape))
    return np.array(cells, dtype="i8").reshape(tuple(shape))


def weights(n):
    return np.array([1 + (j % 3) for j in range(1, n + 1)], dtype="i8")


def ids(shape):
    n = int(np.prod(shape))
    return np.arange(1, n + 1, dtype="i8").reshape(tuple(shape))


def multi_idx(case):
    cells, dims = case["cells"], case["dims"]
    rows = [[(v + r + case["bump"]) % (dims[r] + case["over"]) for v in cells] for r in range(len(dims))]
    return np.array(rows, dtype="i8").reshape((len(dims),) + tuple(case["shape"]))


def inputs(case):
    """-> [(array, chunk group)]: inputs with the same group must be chunked identically (weights, coordinates)."""
    op = case["op"]
    if op in ("coarsen", "compress"):
        ins = [(ids(case["shape"]), 0)]
        if op == "compress":
            ins.append((np.array(case["cond"], dtype=bool), 1))
        return ins
    if op == "ravel_multi_index":
        return [(multi_idx(case), 0)]
    x = data_array(case["cells"], case["shape"])
    if op in ("bincount", "histogram"):
        return [(x, 0), (weights(x.size).reshape(x.shape), 0)] if case["hasw"] else [(x, 0)]
    if op == "histogram2d":
        y = data_array(case["ycells"], case["shape"])
        return [(x, 0), (y, 0)] + ([(weights(x.size), 0)] if case["hasw"] else [])
    if op == "searchsorted":
        return [(np.sort(x), 0), (data_array(case["v"], case["vshape"]), 1)]
    if op == "isin":
        return [(x, 0), (data_array(case["test"], case["tshape"]), 1)]
    return [(x, 0)]


def group_shapes(case):
    out = {}
    for arr, g in inputs(case):
        out.setdefault(g, list(arr.shape))
    return [out[g] for g in sorted(out)]


# --------------------------------------------------------------------------- one call, NumPy or dask
def _np_coarsen(x, red, fac, trim):
    if not trim and any(s % f for s, f in zip(x.shape, fac)):
        raise ValueError("not aligned")
    x = x[tuple(slice(0, (s // f) * f) for s, f in zip(x.shape, fac))]
    sh = []
    for s, f in zip(x.shape, fac):
        sh += [s // f, f]
    x = x.reshape(sh)
    return getattr(np, red)(x, axis=tuple(range(1, 2 * len(fac), 2)))


def apply(xp, case, ins, v):
    """Apply the case's routine with module xp (numpy or dask.array) to its inputs; -> list of returned arrays."""
    op = case["op"]
    alt = v.get("alt", 0)
    a = ins[0]
    if op == "unique":
        kw = {"return_index": case["ri"], "return_inverse": case["rv"], "return_counts": case["rc"]}
        r = xp.unique(a, **kw)
        return list(r) if isinstance(r, tuple) else [r]
    if op == "bincount":
        kw = {"weights": ins[1]} if case["hasw"] else {}
        if xp is not np and v.get("split"):
            kw["split_every"] = 2
        if case["minlength"] or alt % 2:
            kw["minlength"] = case["minlength"]
        return [xp.bincount(a, **kw)]
    if op == "histogram":
        kw = {"weights": ins[1]} if case["hasw"] else {}
        if case["density"]:
            kw["density"] = True
        elif alt % 2:
            kw["density"] = False
        if case["lin"]:
            k, lo, hi = case["lin"]
            h, e = xp.histogram(a, bins=k, range=(lo, hi) if alt % 3 else [lo, hi], **kw)
        else:
            edges = case["edges"]
            bins = [np.array(edges), list(edges), np.array(edges, dtype="f8")][alt % 3]
            if xp is not np and v.get("dabins"):
                bins = xp.from_array(np.array(edges), chunks=max(1, len(edges) // 2))
            h, e = xp.histogram(a, bins=bins, **kw)
        return [h, e]
    if op == "histogram2d":
        kw = {"weights": ins[2]} if case["hasw"] else {}
        if case["density"]:
            kw["density"] = True
        h, ex, ey = xp.histogram2d(a, ins[1], bins=[np.array(case["edges"]), np.array(case["yedges"])], **kw)
        return [h, ex, ey]
    if op == "digitize":
        bins = np.array(case["bins"], dtype="i8") if alt % 2 == 0 else np.array(case["bins"], dtype="f8")
        return [xp.digitize(a, bins, right=case["right"])]
    if op == "searchsorted":
        return [xp.searchsorted(a, ins[1], side=case["side"])]
    if op == "isin":
        t = ins[1]
        kw = {"invert": True} if case["invert"] else ({"invert": False} if alt % 2 else {})
        return [xp.isin(a, t, **kw)]
    if op == "argwhere":
        return [xp.argwhere(a)]
    if op == "nonzero":
        return list(xp.nonzero(a)) if alt % 2 == 0 or xp is np else list(a.nonzero())
    if op == "flatnonzero":
        return [xp.flatnonzero(a)]
    if op == "count_nonzero":
        ax = case["axes"]
        ax = None if ax == [NONE] else (ax[0] if len(ax) == 1 else tuple(ax))
        return [np.asarray(xp.count_nonzero(a, axis=ax)) if xp is np else xp.count_nonzero(a, axis=ax)]
    if op == "ravel_multi_index":
        mi = tuple(a[r] for r in range(a.shape[0])) if v.get("tuple") else a
        return [xp.ravel_multi_index(mi, tuple(case["dims"]))]
    if op == "unravel_index":
        return list(xp.unravel_index(a, tuple(case["dims"])))
    if op == "coarsen":
        if xp is np:
            return [_np_coarsen(a, case["red"], case["fac"], case["trim"])]
        axes = {d: f for d, f in enumerate(case["fac"]) if f > 1 or alt % 2}
        return [xp.coarsen(getattr(np, case["red"]), a, axes, trim_excess=case["trim"])]
    if op == "compress":
        ax = None if case["axis"] == NONE else case["axis"]
        cond = ins[1]
        if isinstance(cond, np.ndarray) and alt % 3 == 1:
            cond = [bool(c) for c in cond]
        elif isinstance(cond, np.ndarray) and alt % 3 == 2:
            cond = cond.astype("i8")
        return [xp.compress(cond, a, axis=ax)]
    raise MachineryError("unknown op %r" % op)


def kind_of(dt):
    k = np.dtype(dt).kind
    return {"i": "i", "u": "i", "f": "f", "b": "b"}.get(k, k)


def is_rational(case, k):
    return case["op"] in ("histogram", "histogram2d") and case["density"] and k == 0


def to_cells(case, k, arr):
    out = []
    rat = is_rational(case, k)
    for x in np.asarray(arr).ravel().tolist():
        if isinstance(x, bool):
            out.append(int(x))
        elif isinstance(x, float):
            if math.isnan(x):
                out.append([0, 0] if rat else NAN)
            elif rat:
                if math.isinf(x):
                    out.append([1, 0])
                else:
                    fr = Fraction(x).limit_denominator(100000)
                    out.append([fr.numerator, fr.denominator])
            else:
                out.append(int(x) if x == int(x) and abs(x) < 2 ** 30 else repr(x))
        elif isinstance(x, int):
            out.append(x)
        else:
            out.append(repr(x))
    return out


def np_reference(case):
    try:
        with warnings.catch_warnings():
            warnings.simplefilter("ignore")
            outs = apply(np, case, [a for a, _g in inputs(case)], {"alt": 0})
    except Exception:  # noqa: BLE001 - whatever NumPy raises is "NumPy raises"
        return {"err": True}
    return {"err": False, "outs": [{"shape": list(np.shape(o)), "cells": to_cells(case, k, o), "kind": kind_of(np.asarray(o).dtype)}
                                   for k, o in enumerate(outs)]}


def same_result(ref, exp):
    if ref["err"] != exp["err"]:
        return False
    if ref["err"]:
        return True
    if len(ref["outs"]) != len(exp["outs"]):
        return False
    for r, e in zip(ref["outs"], exp["outs"]):
        if r["shape"] != list(e["shape"]) or r["cells"] != _plain(e["cells"]):
            return False
        if e["kind"] not in ("e", "r") and r["kind"] != e["kind"]:
            return False
    return True


def _plain(cs):
    return [list(c) if isinstance(c, (list, tuple)) else c for c in cs]


def observe_out(case, k, y, whole):
    import dask.array as da
    if isinstance(y, da.Array):
        try:
            obs, full = observe(y, whole_too=whole)
        except ValueError:
            compute_blocks(y)          # dask itself fails: the exception propagates as dask's
            # every block computes but the blocks do not fit together into the declared grid
            obs, full = {"lshape": [-1 if isinstance(n, float) else int(n) for n in y.shape],
                         "chunks": [[-1 if isinstance(c, float) else int(c) for c in ax] for ax in y.chunks],
                         "cshape": [], "blocksok": False, "raised": ""}, None
        obs["kind"] = kind_of(y.dtype)
        if full is None:
            obs["cells"] = []
            return obs
        if kind_of(full.dtype) != obs["kind"]:
            obs["blocksok"] = False        # computed dtype class differs from the declared one
        obs["cells"] = to_cells(case, k, full)
        return obs
    a = np.asarray(y)
    sh = [int(n) for n in a.shape]
    return {"lshape": sh, "chunks": [[n] for n in sh], "cshape": sh, "blocksok": True, "kind": kind_of(a.dtype), "raised": "",
            "cells": to_cells(case, k, a)}


def run_dask(case, run, whole=False):
    """run = {"chunks": [chunking per chunk group], "v": variant} -> {"raised", "outs": [observation per returned array]}"""
    import dask.array as da
    try:
        with warnings.catch_warnings():
            warnings.simplefilter("ignore")
            ins = []
            for arr, g in inputs(case):
                if g == 1 and run["v"].get("np1"):
                    ins.append(arr)              # second operand left as a NumPy array (isin test set, compress condition)
                else:
                    ins.append(da.from_array(arr, chunks=py_chunks(run["chunks"][g])))
            outs = apply(da, case, ins, run["v"])
            return {"raised": "", "outs": [observe_out(case, k, y, whole) for k, y in enumerate(outs)]}
    except NotImplementedError as ex:
        return {"skip": "NotImplementedError(%s): %s" % (case["op"], str(ex)[:60])}
    except Exception as ex:  # noqa: BLE001 - every other exception is an observation
        o = raised(ex)
        return {"raised": o["raised"], "outs": [], "msg": "%s: %s" % (type(ex).__name__, str(ex)[:200])}


def meta_ok(o):
    if len(o["chunks"]) != len(o["cshape"]) or not o["blocksok"]:
        return False
    for a, ch in enumerate(o["chunks"]):
        if all(c >= 0 for c in ch) and (sum(ch) != o["cshape"][a] or o["lshape"][a] != o["cshape"][a]):
            return False
    return True


def judge(exp, obs):
    if "skip" in obs:
        return None
    if exp["err"]:
        return None        # NumPy raises: there is no result to equal; any behaviour of dask is accepted
    if obs["raised"]:
        return "UnexpectedRaise"
    if len(obs["outs"]) != len(exp["outs"]):
        return "Arity"
    for want, got in zip(exp["outs"], obs["outs"]):
        if got["cshape"] != list(want["shape"]):
            return "Shape"
        if got["cells"] != _plain(want["cells"]):
            return "Content"
        if want["kind"] not in ("e", "r") and got["kind"] != want["kind"]:
            return "Kind"
        if not meta_ok(got):
            return "Meta"
    return None


def classify(case, clause, run):
    """Input class of a violation: the routine (call site), the structural class of the input - zero-width chunk, empty
    input, NaN data - or else the failing clause with the options in force; never concrete numbers."""
    op = case["op"]
    kind = "raises" if clause == "UnexpectedRaise" else "wrong-result"
    shapes = group_shapes(case)
    chunks = run.get("chunks", [])
    np1 = run.get("v", {}).get("np1")
    cells = case.get("cells", [])
    # root causes that do not depend on the chunking come first
    if clause == "Kind":           # the dtype class is decided when the graph is built
        return "%s:Kind:%s" % (op, "weights" if case.get("hasw") else "basic")
    zero = any(0 in ax and sum(ax) > 0 for g, ch in enumerate(chunks) if not (g == 1 and np1) for ax in ch)
    if op == "unique" and NAN in cells and (case["ri"] or case["rv"] or case["rc"]) \
            and not (zero and len(case["shape"]) > 1 and clause == "UnexpectedRaise"):     # that is the ravel of a zero-width chunk
        return "unique:nan:index-inverse-counts"
    if op == "bincount" and clause in ("Meta", "Shape") and case["minlength"] and cells and max(cells) + 1 > case["minlength"]:
        return "bincount:minlength-below-data:declared-shape"
    if op == "compress":
        n = int(np.prod(case["shape"])) if case["axis"] == NONE else case["shape"][case["axis"]]
        if len(case["cond"]) > n:
            return "compress:condition-longer-than-axis:%s" % kind
    if zero:
        return "%s:zero-chunk:%s" % (op, kind)
    feats = []
    if any(int(np.prod(s)) == 0 for s in shapes):
        feats.append("empty-input")
    if NAN in case.get("cells", []):
        feats.append("nan")
    if len(case["shape"]) > 1 and op not in ("coarsen", "compress"):
        feats.append("2d")
    for flag, name in (("ri", "index"), ("rv", "inverse"), ("rc", "counts"), ("hasw", "weights"), ("density", "density"),
                       ("right", "right"), ("invert", "invert"), ("trim", "trim")):
        if case.get(flag):
            feats.append(name)
    if case.get("lin"):
        feats.append("bins+range")
    if op == "searchsorted" and (NAN in case["v"] or len(case["vshape"]) > 1 or 0 in case["vshape"]):
        feats.append("needles:" + ("nan" if NAN in case["v"] else "2d" if len(case["vshape"]) > 1 else "empty"))
    if op == "isin" and NAN in case["test"]:
        feats.append("nan-test")
    if op == "digitize" and len(case["bins"]) == 0:
        feats.append("no-bins")
    for flag in ("tuple", "dabins", "split"):
        if run.get("v", {}).get(flag):
            feats.append(flag)
    if np1 and op in ("isin", "compress"):
        feats.append("numpy-operand")
    return "%s:%s:%s" % (op, clause, "+".join(feats) or "basic")


# --------------------------------------------------------------------------- spec -> code
def fills_tla(fills):
    return TLA("{" + ", ".join("[shape |-> <<%s>>, cells |-> <<%s>>]" % (", ".join(map(str, f["shape"])), ", ".join(map(str, f["cells"])))
                               for f in fills) + "}")


def make_fills(rng, full_len, n_long, n_nan, n_2d):
    """All 1-d fills over 0..3 up to length full_len, a seeded sample of longer ones (to length 6), fills with NaN, 2-d fills."""
    import itertools
    fills = []
    for n in range(0, full_len + 1):
        fills += [{"shape": [n], "cells": list(c)} for c in itertools.product(range(4), repeat=n)]
    seen = {json.dumps(f) for f in fills}

    def add(f):
        k = json.dumps(f)
        if k not in seen:
            seen.add(k)
            fills.append(f)
    for _ in range(n_long):
        n = rng.randint(full_len + 1, 6)
        add({"shape": [n], "cells": [rng.choice([0, 0, 1, 2, 3, 3]) for _ in range(n)]})
    for _ in range(n_nan):
        n = rng.randint(1, 5)
        cells = [rng.choice([0, 1, 2, 3, NAN]) for _ in range(n)]
        cells[rng.randrange(n)] = NAN
        add({"shape": [n], "cells": cells})
    for _ in range(n_2d):
        sh = rng.choice([[2, 2], [2, 3], [3, 2], [1, 3], [2, 1]])
        cells = [rng.choice([0, 0, 1, 2, 3]) for _ in range(sh[0] * sh[1])]
        if rng.random() < 0.15:
            cells[rng.randrange(len(cells))] = NAN
        add({"shape": sh, "cells": cells})
    return fills


def enumerate_cases(ctx, ops, fills, coshapes, label, zeron=3, invariants=INVS):
    spec, cfg = ctx.model(ctx.spec("array", "RoutinesMC.tla"),
                          {"Ops": set(ops), "Fills": fills_tla(fills), "CoShapes": TLA(coshapes), "ZeroN": zeron},
                          invariants=invariants)
    return spec, cfg, label


def read_cases(ctx, prepared):
    spec, cfg, label = prepared
    cases, _ = ctx.tlc_cases(spec, cfg, label="design+cases:" + label, timeout=3000)
    return [c for c in cases if c is not None]


def _guard(c):
    if c["c"]["op"] == "chunkings":
        return None
    ref = np_reference(c["c"])
    return None if same_result(ref, c["e"]) else ref


def variant(case, rng):
    op = case["op"]
    v = {"alt": rng.randrange(12)}
    if op == "bincount":
        v["split"] = rng.random() < 0.3
    elif op == "histogram" and not case["lin"]:
        v["dabins"] = rng.random() < 0.15
    elif op in ("isin", "compress"):
        v["np1"] = rng.random() < (0.3 if op == "isin" else 0.6)
    elif op == "ravel_multi_index":
        v["tuple"] = rng.random() < 0.4
    return v


def make_run(case, chunkings, rng, first=None):
    shapes = group_shapes(case)
    chunks = [first if (g == 0 and first is not None) else rng.choice(chunkings[tuple(s)]) for g, s in enumerate(shapes)]
    return {"chunks": chunks, "v": variant(case, rng)}


def _work(item):
    case, exp, runs = item
    res = []
    for run in runs:
        obs = run_dask(case, run)
        if "skip" in obs:
            res.append(("SKIP", run, obs["skip"]))
            continue
        cl = judge(exp, obs)
        res.append((cl, run, obs if cl else None))
    return res


def nontrivial(case, exp):
    return (not exp["err"]) and any(len(o["cells"]) > 0 for o in exp["outs"])


def strata(cases, chunkings, full):
    """The (case, chunking) pairs that are never sampled out; the specification says which (field `must`, RoutinesMC.tla):
    searchsorted under every chunking with a border inside a run of equal values; digitize over decreasing bins
    (under one chunking per case - thorough: four - rotating through the chunkings, several blocks where there are any)."""
    out, rot = [], 0
    for ci, c in enumerate(cases):
        must = c["e"].get("must")
        if not must or c["e"]["err"]:
            continue
        chs = chunkings[tuple(group_shapes(c["c"])[0])]
        if c["c"]["op"] == "searchsorted":
            for ch in chs:
                off, cut = 0, set()
                for b in ch[0][:-1]:
                    off += b
                    cut.add(off)
                if cut & set(must):
                    out.append((ci, ch))
        else:
            multi = [ch for ch in chs if len(ch[0]) > 1] or chs
            for k in range(min(4 if full else 1, len(multi))):
                out.append((ci, multi[(rot + k) % len(multi)]))
            rot += 1
    return out


def replay_cases(ctx, cases, chunkings, cap, always=()):
    """Every case under every chunking of its first input (the other inputs get a seeded chunking each time); a seeded
    sample of the (case, chunking) pairs when there are more than `cap` - the pairs of `always` (strata) are run in any case."""
    keep = {(ci, json.dumps(ch)) for ci, ch in always}
    pairs = [(ci, ch) for ci, c in enumerate(cases) for ch in chunkings[tuple(group_shapes(c["c"])[0])]
             if (ci, json.dumps(ch)) not in keep]
    total = len(pairs) + len(always)
    sampled = len(pairs) > cap
    if sampled:
        # stratified by operation, so that the operations with few cases are not crowded out by the ones with many
        byop = {}
        for p in pairs:
            byop.setdefault(cases[p[0]]["c"]["op"], []).append(p)
        quota, pairs, rest = cap // len(byop), [], []
        for op in sorted(byop):
            ctx.rng.shuffle(byop[op])
            pairs += byop[op][:quota]
            rest += byop[op][quota:]
        pairs += ctx.rng.sample(rest, min(len(rest), cap - len(pairs)))
    pairs = sorted(list(pairs) + list(always), key=lambda p: p[0])
    by = {}
    for ci, ch in pairs:
        by.setdefault(ci, []).append(make_run(cases[ci]["c"], chunkings, ctx.rng, first=ch))
    items = [(cases[ci]["c"], cases[ci]["e"], runs) for ci, runs in sorted(by.items())]
    for (case, exp, _r), res in zip(items, pmap(_work, items, chunk=16)):
        for cl, run, obs in res:
            if cl == "SKIP":
                ctx.skip(obs)
                continue
            ctx.count((case, run), nontrivial(case, exp))
            if cl:
                ctx.violation(classify(case, cl, run), "%s: dask %s disagrees with the reference%s"
                              % (cl, case["op"], (" (%s)" % obs["msg"]) if obs.get("msg") else ""),
                              {"case": case, "expected": exp, "run": run, "observed": obs})
    return items, total, sampled


# --------------------------------------------------------------------------- code -> spec: random larger calls
def _rand_chunking(rng, n, zero_p=0.06):
    if n == 0:
        return [0]
    ch, left = [], n
    while left > 0:
        c = rng.randint(1, left)
        ch.append(c)
        left -= c
    if rng.random() < zero_p:
        ch.insert(rng.randint(0, len(ch)), 0)
    return ch


def _rand_fill(rng, nan_p=0.15, two_d=True, hi=5):
    if two_d and rng.random() < 0.3:
        shape = [rng.randint(1, 4), rng.randint(1, 4)]
    else:
        shape = [rng.randint(0, 12)]
    n = int(np.prod(shape))
    cells = [rng.randint(0, hi) for _ in range(n)]
    if n and rng.random() < nan_p:
        for _ in range(rng.randint(1, 2)):
            cells[rng.randrange(n)] = NAN
    return shape, cells


def _rand_edges(rng):
    k = rng.randint(2, 5)
    return sorted(rng.sample(range(-1, 8), k))


def random_case(rng):
    op = rng.choice(["unique", "unique", "bincount", "histogram", "histogram", "histogram2d", "digitize", "searchsorted", "isin",
                     "argwhere", "nonzero", "flatnonzero", "count_nonzero", "ravel_multi_index", "unravel_index", "coarsen",
                     "compress"])
    if op == "unique":
        shape, cells = _rand_fill(rng)
        return {"op": op, "shape": shape, "cells": cells, "ri": rng.random() < 0.5, "rv": rng.random() < 0.5, "rc": rng.random() < 0.5}
    if op == "bincount":
        shape, cells = _rand_fill(rng, nan_p=0, two_d=False)
        return {"op": op, "shape": shape, "cells": cells, "hasw": rng.random() < 0.5, "minlength": rng.choice([0, 0, 3, 9])}
    if op == "histogram":
        shape, cells = _rand_fill(rng)
        c = {"op": op, "shape": shape, "cells": cells, "hasw": rng.random() < 0.4, "density": rng.random() < 0.4, "lin": []}
        if rng.random() < 0.4:
            k, lo = rng.randint(1, 4), rng.randint(-1, 2)
            hi = lo + k * rng.randint(1, 2)
            c["lin"] = [k, lo, hi]
            c["edges"] = [lo + b * ((hi - lo) // k) for b in range(k + 1)]
        else:
            c["edges"] = _rand_edges(rng)
        return c
    if op == "histogram2d":
        shape, cells = _rand_fill(rng, nan_p=0, two_d=False)
        return {"op": op, "shape": shape, "cells": cells, "ycells": [rng.randint(0, 5) for _ in cells], "edges": _rand_edges(rng),
                "yedges": _rand_edges(rng), "hasw": rng.random() < 0.4, "density": rng.random() < 0.4}
    if op == "digitize":
        shape, cells = _rand_fill(rng)
        bins = sorted(rng.randint(0, 6) for _ in range(rng.randint(0, 5)))
        if rng.random() < 0.3:
            bins = bins[::-1]
        return {"op": op, "shape": shape, "cells": cells, "bins": bins, "right": rng.random() < 0.5}
    if op == "searchsorted":
        shape, cells = _rand_fill(rng, two_d=False)
        vshape, v = _rand_fill(rng, hi=7)
        return {"op": op, "shape": shape, "cells": cells, "vshape": vshape, "v": [x - 1 if x != NAN else x for x in v],
                "side": rng.choice(["left", "right"])}
    if op == "isin":
        shape, cells = _rand_fill(rng)
        tshape, test = _rand_fill(rng, hi=7)
        return {"op": op, "shape": shape, "cells": cells, "tshape": tshape, "test": test, "invert": rng.random() < 0.5}
    if op in ("argwhere", "nonzero", "flatnonzero"):
        shape, cells = _rand_fill(rng, hi=2)
        return {"op": op, "shape": shape, "cells": cells}
    if op == "count_nonzero":
        shape, cells = _rand_fill(rng, hi=2)
        nd = len(shape)
        axes = rng.choice([[NONE], [0], [-1]] + ([[1], [0, 1], [-2], [-1, 0]] if nd == 2 else []))
        return {"op": op, "shape": shape, "cells": cells, "axes": axes}
    if op == "ravel_multi_index":
        shape, cells = _rand_fill(rng, nan_p=0, hi=7)
        dims = [rng.randint(1, 4) for _ in range(rng.randint(1, 3))]
        return {"op": op, "shape": shape, "cells": cells, "dims": dims, "bump": rng.randint(0, 3), "over": 0}
    if op == "unravel_index":
        shape, cells = _rand_fill(rng, nan_p=0, hi=7)
        dims = rng.choice([[8], [2, 4], [4, 2], [2, 2, 2], [1, 8], [3, 3]])
        return {"op": op, "shape": shape, "cells": cells, "dims": dims}
    if op == "coarsen":
        shape = rng.choice([[rng.randint(1, 12)], [rng.randint(1, 6), rng.randint(1, 6)]])
        fac = [rng.randint(1, min(4, s)) for s in shape]
        trim = rng.random() < 0.6 or any(s % f for s, f in zip(shape, fac))
        return {"op": op, "shape": shape, "red": rng.choice(["sum", "max"]), "fac": fac, "trim": trim}
    shape = rng.choice([[rng.randint(1, 10)], [rng.randint(1, 5), rng.randint(1, 5)]])
    axis = rng.choice([NONE] + list(range(-len(shape), len(shape))))
    n = int(np.prod(shape)) if axis == NONE else shape[axis]
    k = rng.randint(0, n)
    return {"op": "compress", "shape": shape, "cond": [rng.randint(0, 1) for _ in range(k)], "axis": axis}


def random_runs(ctx, n):
    items = []
    for i in range(n):
        case = random_case(ctx.rng)
        run = {"chunks": [[_rand_chunking(ctx.rng, s) for s in sh] for sh in group_shapes(case)], "v": variant(case, ctx.rng)}
        items.append(("r%d" % i, case, run))
    return items


def _record(item):
    rid, case, run = item
    obs = run_dask(case, run, whole=True)
    if "skip" in obs:
        return {"skip": obs["skip"]}
    obs.pop("msg", None)
    return {"id": rid, "c": case, "run": run, "obs": obs}


CLAUSES = ("UnexpectedRaise", "Arity", "Shape", "Content", "Kind", "Meta")


def validate(ctx, recs, label, report=True):
    spec, cfg = ctx.model(ctx.spec("array", "RoutinesTrace.tla"), {})
    out = {}
    for lo in range(0, len(recs), 8000):
        part = recs[lo:lo + 8000]
        slim = [{"id": r["id"], "c": r["c"], "obs": r["obs"]} for r in part]
        rej = ctx.tlc_validate(spec, slim, cfg, timeout=2400, label="trace-validation:" + label)
        byid = {r["id"]: r for r in part}
        for rid, clauses in sorted(rej.items()):
            r = byid[rid]
            cl = next((n for n in CLAUSES if '"%s"' % n in clauses[0]), "Rejected")
            out[rid] = cl
            if report:
                ctx.violation(classify(r["c"], cl, r["run"]), "TLC rejects a recorded %s call (%s)" % (r["c"]["op"], clauses[0]),
                              {"record": r, "clauses": clauses})
    return out


# --------------------------------------------------------------------------- run
def run(ctx):
    from ..sidebyside import in_parallel
    fills = make_fills(ctx.rng, ctx.pick(3, 4), ctx.pick(30, 250), ctx.pick(12, 60), ctx.pick(18, 100))
    coshapes = ctx.pick("{<<4>>, <<6>>, <<2, 3>>}", "{<<1>>, <<4>>, <<5>>, <<6>>, <<2, 3>>, <<3, 2>>, <<4, 4>>}")
    groups = [["unique", "bincount", "histogram2d"], ["digitize", "searchsorted"], ["isin", "nonzero", "count_nonzero"],
              ["ravel_multi_index", "unravel_index", "coarsen", "compress"], ["histogram"]]
    jobs = [enumerate_cases(ctx, g, fills, coshapes, "+".join(g)) for g in groups]
    parts = in_parallel([functools.partial(read_cases, ctx, j) for j in jobs])
    # TLC's workers write the state dump in no particular order: sort, so that seeded sampling is reproducible
    cases = sorted((c for p in parts for c in p), key=lambda c: json.dumps(c["c"], sort_keys=True))
    for c, bad in zip(cases, pmap(_guard, cases, chunk=64)):
        if bad is not None:
            raise MachineryError("TLA+ reference disagrees with NumPy on %r: numpy=%r spec=%r" % (c["c"], bad, c["e"]))
    chunkings = {tuple(c["c"]["shape"]): c["e"]["all"] for c in cases if c["c"]["op"] == "chunkings"}
    cases = [c for c in cases if c["c"]["op"] != "chunkings"]
    always = strata(cases, chunkings, not ctx.quick)
    items, total, sampled = replay_cases(ctx, cases, chunkings, ctx.pick(7500, 50000), always=always)
    ctx.extra["strata_runs_never_sampled_out"] = {
        op: sum(1 for ci, _ch in always if cases[ci]["c"]["op"] == op) for op in ("searchsorted", "digitize")}
    for it in items[:3]:
        ctx.sample({"case": it[0], "expected": it[1], "run": it[2][0]})
    recs = []
    for r in pmap(_record, random_runs(ctx, ctx.pick(1000, 8000)), chunk=32):
        if "skip" in r:
            ctx.skip(r["skip"])
            continue
        recs.append(r)
        ctx.count(("rec", r["c"], r["run"]), r["obs"]["raised"] == "" and any(len(o["cells"]) > 0 for o in r["obs"]["outs"]))
    validate(ctx, recs, "random-calls")
    if recs:
        ctx.sample({"recorded_call": {"case": recs[0]["c"], "run": recs[0]["run"]}})
    ctx.exhaustive = not sampled
    ctx.extra["cases_enumerated_by_tlc"] = len(cases)
    ctx.extra["data_fills"] = len(fills)
    ctx.extra["chunkings_enumerated_by_tlc"] = sum(len(v) for v in chunkings.values())
    ctx.extra["case_x_chunking_pairs"] = total
    ctx.rule = ("cases = TLC-enumerated (operation, data fill, arguments) x TLC-enumerated chunkings of the first input (a seeded "
                "chunking for every further input) x spelling/option variants, plus recorded random calls; non-trivial = NumPy "
                "returns a result and some returned array is non-empty; distinct by (case, chunkings, variant)")
    ctx.assumptions = ["NumPy per-block kernels are correct", "TLC evaluates the reference semantics correctly",
                       "data fills / argument menus bounded as listed in tlc_runs constants"]


# --------------------------------------------------------------------------- replay
def replay(ctx, obj):
    c = obj["case"]
    if "record" in c:
        r = c["record"]
        rec = _record((r["id"], r["c"], r["run"]))
        if "skip" in rec:
            print("skipped:", rec["skip"])
            return False
        rej = validate(ctx, [rec], "replay", report=False)
        print("observed:", rec["obs"], "rejected:", rej)
        return bool(rej)
    case, exp, run = c["case"], c["expected"], c["run"]
    obs = run_dask(case, run)
    cl = judge(exp, obs)
    print("case:", case, "\nrun:", run, "\nexpected:", exp, "\nobserved:", obs, "\nclause:", cl)
    return cl is not None


# --------------------------------------------------------------------------- selftest
def _selftest_replay(cases, chunkings, seed=3, per_op=45):
    """The case loop, serially (mutants are patched in this process), on a seeded sample stratified by operation."""
    import random
    rng = random.Random(seed)
    byop = {}
    for c in cases:
        if not c["e"]["err"] and NAN not in c["c"].get("cells", []):
            byop.setdefault(c["c"]["op"], []).append(c)
    bad, sigs = 0, set()
    for op in sorted(byop):
        for c in rng.sample(byop[op], min(per_op, len(byop[op]))):
            case, exp = c["c"], c["e"]
            run = make_run(case, chunkings, rng)
            if any(0 in ax for ch in run["chunks"] for ax in ch):
                continue            # the self-test uses inputs on which unmutated dask is correct
            obs = run_dask(case, run)
            if "skip" in obs:
                continue
            cl = judge(exp, obs)
            if cl:
                bad += 1
                sigs.add(classify(case, cl, run))
    return bad, sigs


def selftest(ctx):
    import copy
    import importlib
    import random
    import dask.array as da
    from ..srcmut import mutant
    routines = importlib.import_module("dask.array.routines")
    ok = True
    fills = make_fills(random.Random(7), 3, 12, 0, 8)
    cases = read_cases(ctx, enumerate_cases(ctx, OPS, fills, "{<<5>>, <<2, 3>>}", "selftest", zeron=0,
                                            invariants=["CellCount", "ChunkingsValid"]))
    chunkings = {tuple(c["c"]["shape"]): c["e"]["all"] for c in cases if c["c"]["op"] == "chunkings"}
    cases = [c for c in cases if c["c"]["op"] != "chunkings"]
    # inputs on which unmutated dask is correct (the known findings of this property are left out)
    cases = [c for c in cases if not (c["c"]["op"] == "bincount" and c["c"]["minlength"] == 2)
             and not (c["c"]["op"] == "histogram2d" and c["c"]["hasw"])
             and not (c["c"]["op"] == "compress" and classify(c["c"], "x", {}).startswith("compress:condition-longer"))]
    base, sigs = _selftest_replay(cases, chunkings)
    print("selftest C27: unmutated dask on the self-test case set (%d cases): %d violations %s -> %s"
          % (len(cases), base, sorted(sigs), "ok" if base == 0 else "FAILED"))
    ok &= base == 0
    mutants = [
        ("M1 routines._bincount_agg: out[:len(b)] += b -> = b  [partial counts overwrite instead of adding up]",
         "_bincount_agg", "out[: len(b)] += b", "out[: len(b)] = b"),
        ("M2 routines.searchsorted: block offsets cumsum(sizes)[:-1] -> [1:]  [offset of the next block]",
         "searchsorted", "np.cumsum(a_chunk_sizes)[:-1]", "np.cumsum(a_chunk_sizes)[1:]"),
        ("M3 routines.histogram: density n / db / n.sum() -> n / n.sum()  [bin widths dropped]",
         "histogram", "return n / db / n.sum(), bins", "return n / n.sum(), bins"),
        ("M4 routines._unique_internal: first index min -> max  [wrong reduction]",
         "_unique_internal", "indices[m].min(keepdims=True", "indices[m].max(keepdims=True"),
        ("M5 routines.count_nonzero: sum(axis=axis) -> sum(axis=None)  [argument not forwarded]",
         "count_nonzero", ".sum(axis=axis)", ".sum(axis=None)"),
        ("M6 routines.compress: a[:len(condition)] -> a[:len(condition) - 1]  [boundary off by one]",
         "compress", "slice(None, len(condition)) if i == axis", "slice(None, len(condition) - 1) if i == axis"),
        ("M7 routines._searchsorted_block: position 0 no longer masked  [dropped statement]",
         "_searchsorted_block", "res[res == 0] = -1", "res[res == 0] = 0"),
        ("M8 routines.digitize: right=right -> right=False  [argument not forwarded]",
         "digitize", "bins=bins, right=right", "bins=bins, right=False"),
        ("M9 routines._partition (coarsen chunk alignment): remainder chunk dropped  [dropped branch]",
         "_partition", "remainder = (total % divisor,) if total % divisor else ()", "remainder = ()"),
    ]
    # the strata that are never sampled out, alone, against the two slips they are there for
    always = [(ci, ch) for ci, ch in strata(cases, chunkings, False) if not any(0 in ax for ax in ch)]

    def strata_replay():
        rng = random.Random(5)
        bad, sigs = 0, set()
        for ci, ch in always:
            case, exp = cases[ci]["c"], cases[ci]["e"]
            run = make_run(case, chunkings, rng, first=ch)
            if any(0 in ax for c2 in run["chunks"] for ax in c2):
                continue
            cl = judge(exp, run_dask(case, run))
            if cl:
                bad += 1
                sigs.add(classify(case, cl, run))
        return bad, sigs
    n0, sg = strata_replay()
    print("selftest C27: unmutated dask on the strata (%d runs): %d violations %s -> %s" % (len(always), n0, sorted(sg), "ok" if n0 == 0 else "FAILED"))
    ok &= n0 == 0
    for title, fn, old, new in [
        ("S1 routines._searchsorted_block: 'earlier block' marker where the local result is 0 -> where y < x[0]  "
         "[a run of equal values across a chunk border, side='left']",
         "_searchsorted_block", "res[res == 0] = -1", "res[(y < x[0]) if x.size else (y == y)] = -1"),
        ("S2 routines.digitize: per-block np.digitize -> np.searchsorted(bins, x)  [decreasing bins]",
         "digitize", "a.map_blocks(np.digitize, dtype=dtype, bins=bins, right=right)",
         "a.map_blocks(lambda x, bins, right: np.searchsorted(bins, x, side='left' if right else 'right'), dtype=dtype, "
         "bins=bins, right=right)")]:
        with mutant(routines, fn, old, new) as f:
            saved = getattr(da, fn, None)
            if saved is not None:
                setattr(da, fn, f)
            try:
                n, sg = strata_replay()
            finally:
                if saved is not None:
                    setattr(da, fn, saved)
        print("selftest C27: mutant %s, strata only: %d violations %s -> %s" % (title, n, sorted(sg)[:3], "DETECTED" if n > 0 else "MISSED"))
        ok &= n > 0
    for title, fn, old, new in mutants:
        with mutant(routines, fn, old, new) as f:
            saved = getattr(da, fn, None)
            if saved is not None:
                setattr(da, fn, f)          # dask.array re-exports the function object
            try:
                n, sigs = _selftest_replay(cases, chunkings)
            except Exception as ex:  # noqa: BLE001
                n, sigs = 0, {"harness exception %r" % ex}
            finally:
                if saved is not None:
                    setattr(da, fn, saved)
        print("selftest C27: mutant %s: %d violations %s -> %s" % (title, n, sorted(sigs)[:3], "DETECTED" if n > 0 else "MISSED"))
        ok &= n > 0
    # (ii) corrupted recorded fields are rejected by the trace specification
    good = []
    for item in random_runs(ctx, 200):
        if item[1]["op"] in ("unique", "histogram", "searchsorted", "coarsen") and NAN not in item[1].get("cells", []) \
                and not any(0 in ax for ch in item[2]["chunks"] for ax in ch) and item[1]["op"] not in [g["c"]["op"] for g in good]:
            r = _record(item)
            if "skip" not in r and r["obs"]["raised"] == "" and len(r["obs"]["outs"][0]["cells"]) > 1:
                good.append(r)
        if len(good) == 4:
            break
    c1 = copy.deepcopy(good[0]); c1["id"] = "c_cells"
    cs = c1["obs"]["outs"][0]["cells"]
    c1["obs"]["outs"][0]["cells"] = cs[1:] + cs[:1] if cs[1:] + cs[:1] != cs else cs[:-1] + [cs[-1] if isinstance(cs[-1], list) else cs[-1] + 1]
    if isinstance(cs[-1], list) and c1["obs"]["outs"][0]["cells"] == cs:
        c1["obs"]["outs"][0]["cells"] = cs[:-1] + [[cs[-1][0] + 1, cs[-1][1] + 1]]
    c2 = copy.deepcopy(good[1]); c2["id"] = "c_shape"; c2["obs"]["outs"][0]["cshape"] = c2["obs"]["outs"][0]["cshape"] + [1]
    c3 = copy.deepcopy(good[2]); c3["id"] = "c_kind"; c3["obs"]["outs"][0]["kind"] = "f" if c3["obs"]["outs"][0]["kind"] != "f" else "i"
    c4 = copy.deepcopy(good[3]); c4["id"] = "c_dropped"; c4["obs"]["outs"] = c4["obs"]["outs"][:-1]
    bads = [c1, c2, c3, c4]
    rej = validate(ctx, good + bads, "selftest", report=False)
    for r in good:
        print("selftest C27: uncorrupted record %s (%s) -> %s" % (r["id"], r["c"]["op"], "accepted" if r["id"] not in rej else "rejected  FAILED"))
        ok &= r["id"] not in rej
    for r in bads:
        print("selftest C27: corrupted record %s (%s) -> %s" % (r["id"], r["c"]["op"],
                                                               ("rejected (%s)" % rej[r["id"]]) if r["id"] in rej else "accepted  FAILED"))
        ok &= r["id"] in rej
    print("selftest C27: %s" % ("all binding checks hold" if ok else "FAILED"))
    return 0 if ok else 1
