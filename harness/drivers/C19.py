"""C19 - elementwise and broadcasting array operations equal NumPy.

spec -> code: TLC enumerates (specs/array/ElemwiseMC.tla) calls of elementwise operations - operand
forms (dask array / NumPy array / Python scalar), dtype kinds, every tuple of broadcastable small
shapes, ALL chunkings of every dask operand - together with the result demanded by the TLA+ reference
semantics (specs/array/Elemwise.tla, specs/common/Broadcast.tla).  Each case is run on real dask
arrays with exactly those chunks, every block computed through its own key, and compared in content,
shape, dtype kind and lazy metadata (specs/array/ArrayMeta.tla).
code -> spec: seeded random larger lazy expressions are recorded step by step and TLC decides every
step (ElemwiseTrace.tla).  NumPy is only the reference *guard* (spec vs NumPy disagreement is a
machinery error)."""
from __future__ import annotations

import operator
import os
import warnings
from fractions import Fraction

import numpy as np

from ..arrayobs import meta_clauses, numpy_obs, observe_full, raised_obs, trim_clauses
from ..arrays import py_chunks
from ..core import TLA, MachineryError
from ..par import pmap

META = {
    "title": "Elementwise and broadcasting array operations equal NumPy",
    "design_ref": "DESIGN.md §4.3 C19",
    "technique": "TLA+ reference semantics of broadcasting, elementwise operations and dtype-kind promotion; TLC enumerates "
                 "all broadcastable shape tuples x all chunkings x operand forms x kinds x operations; replay into dask + "
                 "TLC validation of recorded expression steps",
    "level_text": "Small-scope exhaustive: TLC enumerates every pair of broadcast-compatible shapes with <= 2 axes and extents "
                  "0..3 (plus 0-d) x all chunkings of both operands x dask/NumPy/Python-scalar operand forms, a 5x5 dtype-kind "
                  "grid x 17 binary and 4 unary operations, where(c,x,y), clip, astype and ufunc out=/where= over all chunkings "
                  "of a smaller shape set; the TLA+ reference gives content, shape, dtype kind or the error; dask is replayed "
                  "on each case block by block.  Random larger lazy expressions are decided step by step by TLC.",
    "level_note": "Trusted: TLC, the TLA+ reference (cross-checked against NumPy on every case and every recorded step; a "
                  "disagreement is a machinery error, not a violation), the block-assembly projection.  Cells are small integers "
                  "(bool 0/1, uint8 mod 256, integral floats, complex with zero imaginary part); dtypes are one concrete dtype "
                  "per kind (bool, uint8, int64, float64, complex128); transcendental ufuncs and floating-point rounding are "
                  "NumPy's per-block kernels and are not decided; datetime dtypes are not covered.",
}

DC = 99999
DT = {"b": np.bool_, "u": np.uint8, "i": np.int64, "f": np.float64, "c": np.complex128}
PY = {"b": bool, "i": int, "f": float, "c": complex}

NPF = {"add": "add", "sub": "subtract", "mul": "multiply", "floordiv": "floor_divide", "mod": "remainder",
       "min": "minimum", "max": "maximum", "eq": "equal", "ne": "not_equal", "lt": "less", "le": "less_equal",
       "gt": "greater", "ge": "greater_equal", "and": "bitwise_and", "or": "bitwise_or", "xor": "bitwise_xor",
       "truediv": "true_divide", "neg": "negative", "abs": "absolute", "square": "square", "lnot": "logical_not"}
PYOP = {"add": operator.add, "sub": operator.sub, "mul": operator.mul, "floordiv": operator.floordiv,
        "mod": operator.mod, "eq": operator.eq, "ne": operator.ne, "lt": operator.lt, "le": operator.le,
        "gt": operator.gt, "ge": operator.ge, "and": operator.and_, "or": operator.or_, "xor": operator.xor,
        "truediv": operator.truediv, "neg": operator.neg, "abs": operator.abs}
# kernel-mode operations: (NumPy/dask function name, index of the output or None, Python spelling or None)
KOPS = {"k_floordiv": ("floor_divide", None, operator.floordiv), "k_mod": ("remainder", None, operator.mod),
        "k_truediv": ("true_divide", None, operator.truediv), "k_fmod": ("fmod", None, None),
        "k_power": ("power", None, operator.pow), "k_divmod0": ("divmod", 0, divmod), "k_divmod1": ("divmod", 1, divmod),
        "k_modf0": ("modf", 0, None), "k_modf1": ("modf", 1, None), "k_frexp0": ("frexp", 0, None), "k_frexp1": ("frexp", 1, None)}
KBIN = [k for k in KOPS if KOPS[k][0] not in ("modf", "frexp")]
KUN = [k for k in KOPS if KOPS[k][0] in ("modf", "frexp")]
CODES = {70001: float("inf"), 70002: float("-inf"), 70003: float("nan")}
BINOPS = ["add", "sub", "mul", "floordiv", "mod", "min", "max", "eq", "ne", "lt", "le", "gt", "ge", "and", "or", "xor",
          "truediv"]
UNOPS = ["neg", "abs", "square", "lnot"]


# ------------------------------------------------------------------ building and applying
def build(x, as_numpy=False):
    """Spec operand -> Python object (dask array with exactly the chunks / ndarray / Python scalar)."""
    import dask.array as da
    f = x["f"]
    if f == "-":
        return None
    if f == "s":
        return PY[x["k"]](CODES.get(x["v"][0], x["v"][0]))
    if x["k"] in "fc" and any(v in CODES for v in x["v"]):
        a = np.array([CODES.get(v, v) for v in x["v"]], dtype=np.float64).reshape(tuple(x["sh"])).astype(DT[x["k"]])
    else:
        a = np.array(x["v"], dtype=np.int64).reshape(tuple(x["sh"])).astype(DT[x["k"]])
    if f == "n" or as_numpy:
        return a
    return da.from_array(a, chunks=py_chunks(x["ch"]))


def apply_op(fam, op, objs, spelling, lib):
    """The real call.  lib: module providing the functions (dask.array, or numpy for the guard).
    spelling: 'op' Python operator / method, 'da' library function, 'np' NumPy function dispatched
    to dask through __array_ufunc__ / __array_function__."""
    mod = np if spelling == "np" else lib
    if op in KOPS:
        name, idx, pyop = KOPS[op]
        r = pyop(*objs) if (spelling == "op" and pyop is not None) else getattr(mod, name)(*objs)
        return r if idx is None else r[idx]
    if fam == "binary":
        x, y = objs
        if spelling == "op" and op in PYOP:
            return PYOP[op](x, y)
        return getattr(mod, NPF[op])(x, y)
    if fam == "unary":
        (x,) = objs
        if spelling == "op" and op in PYOP:
            return PYOP[op](x)
        return getattr(mod, NPF[op])(x)
    if fam == "where":
        return mod.where(*objs)
    if fam == "clip":
        x, lo, hi = objs
        if spelling == "op" and hasattr(x, "clip"):
            return x.clip(lo, hi)
        return mod.clip(x, lo, hi)
    if fam == "astype":
        return objs[0].astype(DT[op])
    if fam == "outwhere":
        x, y, o, w = objs
        kw = {}
        if o is not None:
            kw["out"] = o
        if w is not None:
            kw["where"] = w
        return getattr(mod, NPF[op])(x, y, **kw)
    raise MachineryError("unknown family %r" % fam)


def np_reference(case):
    """What NumPy does on the same operands (all arrays as ndarrays)."""
    objs = [build(x, as_numpy=True) for x in case["xs"]]
    if case["fam"] == "outwhere" and objs[2] is not None:
        objs[2] = objs[2].copy()
    try:
        with warnings.catch_warnings(), np.errstate(all="ignore"):
            warnings.simplefilter("ignore")
            r = np.asarray(apply_op(case["fam"], case["op"], objs, "da", np))
        return {"err": False, "arr": r}
    except (TypeError, ValueError, OverflowError) as ex:
        return {"err": True, "msg": "%s: %s" % (type(ex).__name__, str(ex)[:80])}


def cell_ok(e, g):
    if e == DC:
        return True
    if isinstance(g, complex):
        if g.imag != 0:
            return False
        g = g.real
    if isinstance(e, list):
        try:
            want, got = Fraction(e[0], e[1]), Fraction(g)
        except (ValueError, OverflowError, ZeroDivisionError):
            return False
        return abs(got - want) <= abs(want) * Fraction(1, 2 ** 52)
    return bool(g == e)


_KCACHE = {}


def kernel(case, term):
    """The uninterpreted element function of kernel-mode cells <<"K", a, b>>: NumPy's own kernel
    applied to one cell of each operand (as a 1-element array of the operand's dtype, or the Python
    scalar itself, so that promotion is NumPy's as well)."""
    key = (case["op"], tuple((x["f"], x["k"]) for x in case["xs"]), tuple(term[1:]))
    if key not in _KCACHE:
        args = [build(dict(x, sh=[] if x["f"] == "s" else [1], v=[v], f="s" if x["f"] == "s" else "n"))
                for x, v in zip(case["xs"], term[1:])]
        name, idx, _py = KOPS[case["op"]]
        with warnings.catch_warnings(), np.errstate(all="ignore"):
            warnings.simplefilter("ignore")
            r = getattr(np, name)(*args)
        _KCACHE[key] = np.asarray(r if idx is None else r[idx]).ravel()[0]
    return _KCACHE[key]


def content_ok(exp_cells, arr, case=None):
    a = np.asarray(arr).ravel()
    if len(a) != len(exp_cells):
        return False
    if exp_cells and isinstance(exp_cells[0], list) and exp_cells[0][:1] == ["K"]:
        want = np.array([kernel(case, t) for t in exp_cells])
        return want.dtype.kind == a.dtype.kind and bool(np.array_equal(a, want.astype(a.dtype), equal_nan=True))
    return all(cell_ok(e, g) for e, g in zip(exp_cells, a.tolist()))


def guard(case, exp):
    """TLA+ reference vs NumPy.  Returns a message on disagreement."""
    ref = np_reference(case)
    if ref["err"] != exp["err"]:
        return "error status: numpy=%r spec=%r" % (ref, exp)
    if ref["err"]:
        return None
    a = ref["arr"]
    if list(a.shape) != list(exp["shape"]) or a.dtype.kind != exp["kind"] or not content_ok(exp["cells"], a, case):
        return "numpy gives shape=%s kind=%s cells=%s, spec %r" % (a.shape, a.dtype.kind, a.ravel().tolist(), exp)
    return None


def has_dontcare(case):
    """ufunc where= without out=: NumPy leaves the unselected cells uninitialised."""
    return case["fam"] == "outwhere" and case["xs"][2]["f"] == "-" and case["xs"][3]["f"] != "-"


def run_dask(case, spelling="da"):
    """Apply the case to real dask arrays.  Returns (obs, full)."""
    import dask.array as da
    try:
        with warnings.catch_warnings(), np.errstate(all="ignore"):
            warnings.simplefilter("ignore")
            objs = [build(x) for x in case["xs"]]
            y = apply_op(case["fam"], case["op"], objs, spelling, da)
            if not isinstance(y, da.Array):
                if y is NotImplemented:
                    raise TypeError("NotImplemented")
                raise MachineryError("case %r did not reach dask (result %r)" % (case, type(y)))
            obs, full = observe_full(y, codes=not has_dontcare(case))
        obs["kind"] = np.dtype(obs["dt"]).kind
        obs["ckind"] = np.dtype(obs["whole"]["dt"]).kind
        return obs, full
    except NotImplementedError as ex:
        return {"skip": "NotImplementedError: " + str(ex)[:60]}, None
    except MachineryError:
        raise
    except Exception as ex:  # noqa: BLE001 - every other exception is an observation
        o = raised_obs(ex)
        o["kind"] = o["ckind"] = ""
        o["msg"] = str(ex)[:200]
        return o, None


def judge(exp, obs, full, case=None):
    """Python mirror of ElemwiseTrace!Bad: the clauses the observation violates."""
    if exp["err"]:
        return [] if obs["raised"] else ["ErrorExpected"]
    if obs["raised"]:
        return ["UnexpectedRaise"]
    bad = []
    if obs["whole"]["s"] != list(exp["shape"]):
        bad.append("Shape")
    if obs["kind"] != exp["kind"] or obs["ckind"] != exp["kind"]:
        bad.append("Kind")
    if full is None or not content_ok(exp["cells"], full, case):
        bad.append("Content")
    return bad + meta_clauses(obs)


# ------------------------------------------------------------------ signatures
def features(case):
    xs = [x for x in case["xs"] if x["f"] != "-"]
    feats = []
    if any(x["f"] == "d" and len(x["sh"]) == 0 for x in xs):
        feats.append("0d")
    if any(0 in x["sh"] for x in xs):
        feats.append("empty")
    if any(x["f"] == "d" and any(0 in c and s > 0 for c, s in zip(x["ch"], x["sh"])) for x in xs):
        feats.append("zero-chunk")
    if len({tuple(x["sh"]) for x in xs if x["f"] != "s"}) > 1:
        feats.append("bcast")
    return feats


def _bshape(shapes):
    nd = max(len(s) for s in shapes)
    out = []
    for d in range(nd):
        ext = [s[len(s) - nd + d] for s in shapes if len(s) - nd + d >= 0]
        out.append(next((e for e in ext if e != 1), 1))
    return out


STRUCT_CLAUSES = ("Shape", "Content", "Keys", "BlockShape", "LazyShape", "Reassemble", "UnexpectedRaise")
DTYPE_CLAUSES = ("Kind", "Dtype", "ErrorExpected")


def root_cause(case, clauses=None):
    """Input classes behind the recorded known findings (one root cause shows up under several
    clauses and families): the first that applies - and can produce one of the observed clauses -
    names the violation.  clauses=None: any."""
    xs = case["xs"]
    live = [x for x in xs if x["f"] != "-"]
    can = lambda names: clauses is None or any(c in names for c in clauses)
    if case["fam"] == "outwhere" and xs[2]["f"] != "-":
        # where=True (the Python constant) is the same code path as no where= at all
        masked = xs[3]["f"] != "-" and not (xs[3]["f"] == "s" and xs[3]["v"] == [1])
        if masked and xs[2]["sh"] == [] and clauses is not None and list(clauses) == ["UnexpectedRaise"]:
            return "outwhere:0d-out+where"
        ins = [x["sh"] for x in (xs[0], xs[1], xs[3]) if x["f"] != "-"]
        if not masked and list(xs[2]["sh"]) != _bshape(ins):
            return "outwhere:out-shape-larger-than-inputs" if can(("UnexpectedRaise",)) else None
        try:
            with warnings.catch_warnings():
                warnings.simplefilter("ignore")
                rk = np.asarray(apply_op("binary", case["op"], [build(dict(x, sh=[] if x["f"] == "s" else [1] * len(x["sh"]), v=[1]), as_numpy=True)
                                                              for x in xs[:2]], "da", np)).dtype.kind
        except Exception:  # noqa: BLE001
            rk = "?"
        if rk != xs[2]["k"]:
            if masked and can(DTYPE_CLAUSES + ("UnexpectedRaise",)):
                return "outwhere:where+out-dtype-differs"
            if not masked and can(DTYPE_CLAUSES):
                return "outwhere:out-dtype-differs"
    if can(STRUCT_CLAUSES) and (len(live) > 1 or case["fam"] == "clip") and \
            any(x["f"] == "d" and any(s == 1 and 0 in c for s, c in zip(x["sh"], x["ch"])) for x in live):
        if case["fam"] == "where" and xs[0]["f"] == "s":
            return "broadcast_to:zero-chunk-on-unit-axis"     # where(scalar, x, y) goes through broadcast_to
        return "elemwise:zero-chunk-on-unit-axis"
    return None


def classify(case, clauses, spelling="da"):
    """Signature = family, operand forms, failing clause and the structural class of the call; dtype
    clauses additionally name the operation and the kinds (they are specific to them)."""
    clauses = [clauses] if isinstance(clauses, str) else list(clauses)
    root = root_cause(case, clauses)
    if root:
        return root
    clause = ([c for c in ORDER_ALL if c in clauses] or clauses)[0]
    forms = "".join(x["f"] for x in case["xs"])
    sig = "%s:%s:%s" % (case["fam"], forms, clause)
    if clause in ("Kind", "Dtype", "UnexpectedRaise", "ErrorExpected") or case["op"] in KOPS:
        sig += ":%s:%s" % (case["op"], "".join(x["k"] for x in case["xs"] if x["f"] != "-"))
    else:
        sig += ":" + ("+".join(features(case)) or "plain")
    if spelling == "np":
        sig += ":np-dispatch"
    return sig


ORDER_ALL = ["ErrorExpected", "UnexpectedRaise", "Shape", "Kind", "Content", "Keys", "BlockShape", "LazyShape", "Dtype", "Reassemble"]


# ------------------------------------------------------------------ spec -> code
def _work(item):
    case, exp, spellings = item
    g = guard(case, exp)
    if g:
        return [("GUARD", None, g)]
    res = []
    for sp in spellings:
        obs, full = run_dask(case, sp)
        if "skip" in obs:
            res.append(("SKIP", sp, obs["skip"]))
            continue
        bad = judge(exp, obs, full, case)
        det = None
        if bad:
            det = {"obs": obs, "got": np.asarray(full).ravel().tolist() if full is not None else None}
        res.append((bad, sp, det))
    return res


def spellings_for(case, rng, thorough):
    fam = case["fam"]
    if fam == "astype":
        return ["da"]
    all_ = ["da", "np"] + (["op"] if (fam in ("unary", "clip") or (fam == "binary" and case["op"] in PYOP)) else [])
    if fam == "unary" and case["op"] not in PYOP:
        all_ = ["da", "np"]
    if case["op"] in KOPS:
        all_ = ["da", "np"] + (["op"] if KOPS[case["op"]][2] is not None else [])
    if fam == "where" and case["xs"][0]["f"] == "s" and not any(x["f"] == "d" for x in case["xs"][1:]):
        all_ = ["da"]
    if not thorough:
        return [rng.choice(all_)]
    return ["da"] + ([rng.choice(all_[1:])] if len(all_) > 1 else [])


ALLSH = "({<<>>} \\cup {<<a>> : a \\in 0..3} \\cup {<<a, b>> : a \\in 0..3, b \\in 0..3})"
K5 = ["b", "u", "i", "f", "c"]


def tla_set(items):
    from ..tlc import tla_value
    return TLA("{" + ", ".join(tla_value(i) for i in items) + "}")


def _cfg(lab, fam, shapes, ops, ktuples, forms, allch=True, zero=False, bad="{}", special=False):
    from ..tlc import tla_value
    st = lambda items: "{" + ", ".join(tla_value(i) for i in items) + "}"
    return ('[lab |-> "%s", fam |-> "%s", shapes |-> %s, bad |-> %s, ops |-> %s, ktuples |-> %s, forms |-> %s, '
            'allch |-> %s, zero |-> %s, special |-> %s]' % (lab, fam, shapes, bad, st(ops), st(ktuples), st(forms),
                                                            "TRUE" if allch else "FALSE", "TRUE" if zero else "FALSE",
                                                            "TRUE" if special else "FALSE"))


def families(ctx):
    """The sub-spaces TLC enumerates: (TLA text of Configs, {label: quick cap})."""
    q = ctx.quick
    allk2 = [[a, b] for a in K5 for b in K5]
    f = lambda *names: [list(n) for n in names]
    small = "{<<>>, <<3>>, <<2, 1>>, <<2, 3>>}"
    cfgs = [
        # alignment: every broadcastable pair of shapes x ALL chunkings of both operands
        _cfg("bcast", "binary", ALLSH, ["add"], [["i", "i"]], f("dd", "dn", "nd"),
             zero=not q, bad="{<<<<2>>, <<3>>>>, <<<<2, 3>>, <<2>>>>, <<<<0>>, <<2>>>>}"),
        # dtype kinds x operations x operand forms (dtype inference does not look at chunks)
        _cfg("kinds", "binary", "{<<>>, <<2>>}" if q else "{<<>>, <<3>>, <<2, 1>>}", BINOPS, allk2,
             f("dd", "ds", "sd") if q else f("dd", "dn", "nd", "ds", "sd"), allch=False),
        _cfg("unary", "unary", ALLSH, UNOPS, [[k] for k in K5], f("d"), zero=not q),
        _cfg("astype", "astype", "{<<>>, <<0>>, <<3>>, <<2, 3>>}", K5, [[k] for k in K5], f("d"), zero=not q),
        _cfg("where", "where", small if q else "{<<>>, <<1>>, <<3>>, <<2, 1>>, <<2, 3>>, <<0>>}", ["where"],
             [["b", "i", "i"], ["b", "u", "f"], ["i", "b", "i"]] + ([] if q else [["b", "i", "c"], ["b", "f", "i"]]),
             f("ddd", "dnd", "dds", "sdd", "dss") + ([] if q else f("ndn", "dsd")),
             allch=not q, bad="{<<<<2>>, <<3>>, <<3>>>>}"),
        _cfg("clip", "clip", small, ["clip"],
             [["i", "i", "i"], ["u", "i", "i"], ["i", "f", "i"]] + ([] if q else [["f", "i", "i"], ["u", "u", "i"], ["i", "i", "f"]]),
             f("dss", "d-s", "ds-", "dds", "dnd") + ([] if q else f("nds", "d--")), allch=not q),
        _cfg("outwhere", "outwhere", "{<<>>, <<3>>}" if q else small, ["add"] if q else ["add", "lt"],
             [["i", "i", "i", "b"], ["i", "i", "f", "b"], ["f", "i", "i", "b"]] + ([] if q else [["u", "i", "i", "b"], ["i", "u", "u", "b"]]),
             f("ddd-", "dd-d", "dddd", "dndn", "ddds") + ([] if q else f("dsdd", "dd-s")),
             allch=False),
    ]
    # division-like and multi-output ufuncs on operands with zeros, negatives, inf, nan (kernel mode)
    cfgs += [
        _cfg("kernel2", "binary", "{<<>>, <<7>>}" if q else "{<<>>, <<7>>, <<2, 1>>, <<1, 4>>}", KBIN,
             [k for k in allk2 if "c" not in k] + [["c", "c"], ["f", "c"]] if q else allk2,
             f("dd", "nd", "ds") if q else f("dd", "dn", "nd", "ds"), allch=False, special=True),
        _cfg("kernel1", "unary", "{<<>>, <<7>>, <<2, 4>>}", KUN, [[k] for k in K5], f("d"), allch=False, zero=not q, special=True),
    ]
    caps = {"kernel2": 2000, "kernel1": 100, "bcast": 2500, "kinds": 2500, "unary": 600, "astype": 200, "where": 1200, "clip": 500, "outwhere": 1500}
    return TLA("{" + ",\n ".join(cfgs) + "}"), caps


INVS = ["CellCount", "ShapeIsBroadcast", "Commutes", "Attribution", "Selects", "Ranges", "KernelTerms"]


def nontrivial(case, exp):
    return (not exp["err"]) and len(exp["cells"]) > 1


def replay_cases(ctx, label, cases, spell=None, report=True):
    """Run enumerated cases on dask and report violations.  Returns the list of (case, clauses)."""
    thorough = not ctx.quick
    items = [(c["c"], c["e"], spell or spellings_for(c["c"], ctx.rng, thorough)) for c in cases]
    results = pmap(_work, items)
    found = []
    for (case, exp, _s), res in zip(items, results):
        for bad, sp, detail in res:
            if bad == "GUARD":
                raise MachineryError("TLA+ reference disagrees with NumPy on %r: %s" % (case, detail))
            if bad == "SKIP":
                ctx.skip(detail)
                continue
            ctx.count((case, sp), nontrivial(case, exp))
            if bad:
                found.append((case, bad))
                if report:
                    ctx.violation(classify(case, bad, sp), "%s: dask disagrees with the reference on %s (%s)" % (bad[0], case.get("lab", label), "+".join(bad)),
                                  {"case": case, "expected": exp, "spelling": sp, "observed": detail})
    return found


# ------------------------------------------------------------------ code -> spec
def _rand_chunks(rng, n, zero_p=0.12):
    if n == 0:
        return [0]
    ch, left = [], n
    while left > 0:
        c = rng.randint(1, left)
        ch.append(c)
        left -= c
    if rng.random() < zero_p:
        ch.insert(rng.randint(0, len(ch)), 0)
    return ch


class Expr:
    """A random lazy expression built step by step; every step is one record."""

    def __init__(self, rng, eid, origin=None):
        import dask.array as da
        self.rng, self.eid, self.da = rng, eid, da
        self.origin = origin        # (eid, seed, nsteps): lets a replay re-execute the whole lazy expression
        nd = rng.choice([1, 2, 2, 3])
        self.base = [rng.choice([1, 2, 3, 4, 5, 6]) for _ in range(nd)]
        if nd == 3:
            self.base = [min(s, 4) for s in self.base]
        if rng.random() < 0.08:
            self.base[rng.randrange(nd)] = 0
        self.pool = []      # (dask array, operand record without chunks)
        self.steps = []
        for _ in range(rng.choice([2, 3])):
            self.pool.append(self.leaf("d"))

    def shape(self):
        rng = self.rng
        k = rng.randint(0, len(self.base)) if rng.random() < 0.5 else len(self.base)
        sh = self.base[len(self.base) - k:]
        return [1 if (rng.random() < 0.25) else s for s in sh]

    def leaf(self, form, kind=None, positive=False, small=False):
        rng = self.rng
        kind = kind or rng.choice(["b", "u", "i", "i", "f", "c"])
        if form == "s":
            kind = rng.choice(["b", "i", "i", "f", "c"]) if kind == "u" else kind
            v = [rng.randint(1, 9)] if kind != "b" else [rng.randint(0, 1)]
            x = {"f": "s", "k": kind, "sh": [], "ch": [], "v": v}
            return build(x), x
        sh = self.shape()
        n = int(np.prod(sh)) if sh else 1
        lo = 1 if (positive or kind == "u") else -5
        v = [rng.randint(lo, 40) for _ in range(n)] if kind != "b" else [rng.randint(0, 1) for _ in range(n)]
        x = {"f": form, "k": kind, "sh": sh, "ch": [_rand_chunks(rng, s) for s in sh] if form == "d" else [], "v": v}
        return build(x), x

    def operand(self, **kw):
        r = self.rng.random()
        pool = [p for p in self.pool if "kind" not in kw or p[1]["k"] == kw["kind"]]
        if r < 0.6 and pool:
            return self.rng.choice(pool)
        if r < 0.75:
            return self.leaf("n", **kw)
        if r < 0.9:
            return self.leaf("s", **kw)
        return self.leaf("d", **kw)

    def step(self):
        """Choose one call whose operands satisfy the value preconditions of the reference
        (non-zero divisors, naturals for bit operations, values far below 2^31)."""
        rng = self.rng
        fam = rng.choice(["binary"] * 5 + ["unary", "where", "clip", "astype", "outwhere"])
        absent = (None, {"f": "-", "k": "b", "sh": [], "ch": [], "v": []})
        if fam == "binary":
            op = rng.choice([o for o in BINOPS if o != "truediv"])
            xs = [self.operand(), self.operand()]
        elif fam == "unary":
            op = rng.choice(UNOPS)
            xs = [rng.choice(self.pool)]
        elif fam == "where":
            op = "where"
            c = self.operand(kind="b") if rng.random() < 0.7 else self.operand()
            xs = [c, self.operand(), self.operand()]
        elif fam == "clip":
            op = "clip"
            xs = [rng.choice(self.pool), self.operand() if rng.random() < 0.8 else absent, self.operand() if rng.random() < 0.8 else absent]
        elif fam == "astype":
            op = rng.choice(K5)
            xs = [rng.choice(self.pool)]
        else:
            op = rng.choice(["add", "sub", "mul", "max", "lt", "and"])
            o = rng.choice(self.pool) if rng.random() < 0.7 else absent
            w = absent if rng.random() < 0.3 else (self.operand(kind="b"))
            xs = [self.operand(), self.operand(), o, w]
            if o[0] is not None:
                # out= is overwritten in place: give the call its own copy of the pool entry
                xs[2] = (o[0].copy(), o[1])
        recs = [x[1] for x in xs]
        vals = [v for x in recs for v in x["v"]]
        big = max([abs(v) for v in vals] or [0])
        if not any(hasattr(x[0], "dask") for x in (xs[:2] if fam in ("binary", "outwhere") else xs[:3])):
            return None
        if op in ("mul", "square") and big > 20000:
            return None
        if op in ("floordiv", "mod") and (0 in recs[1]["v"] or recs[1]["k"] == "b" or "c" in (recs[0]["k"], recs[1]["k"])):
            return None
        if op in ("and", "or", "xor") and any(v < 0 for x in recs[:2] for v in x["v"]):
            return None
        if fam == "astype" and op == "u" and recs[0]["k"] in ("f", "c") and any(not 0 <= v < 256 for v in vals):
            return None
        if fam == "clip" and "c" in [x["k"] for x in recs]:
            return None         # ordering of complex numbers: NumPy's kernel, not decided
        if fam == "clip" and recs[0]["k"] == "b":
            return None
        if any(x["f"] == "s" and x["k"] == "i" for x in recs) and any(x["k"] == "u" for x in recs if x["f"] != "s"):
            if any(not 0 <= v < 256 for x in recs if x["f"] == "s" for v in x["v"]):
                return None
        return fam, op, xs

    def run_step(self, sid):
        da = self.da
        st = None
        for _ in range(20):
            st = self.step()
            if st:
                break
        if not st:
            return
        fam, op, xs = st
        objs = [x[0] for x in xs]
        case = {"fam": fam, "op": op, "xs": [x[1] for x in xs]}
        spelling = self.rng.choice(["da", "da", "np", "op"])
        rec = {"id": "e%d.%d" % (self.eid, sid), "fam": fam, "op": op, "xs": case["xs"], "spelling": spelling,
               "expr": list(self.origin or [])}
        y = None
        try:
            with warnings.catch_warnings():
                warnings.simplefilter("ignore")
                y = apply_op(fam, op, objs, spelling, da)
                if y is NotImplemented:
                    raise TypeError("NotImplemented")
                if not isinstance(y, da.Array):
                    return
                obs, full = observe_full(y, codes=not has_dontcare(case))
            obs["kind"] = np.dtype(obs["dt"]).kind
            obs["ckind"] = np.dtype(obs["whole"]["dt"]).kind
            obs["cells"] = int_cells(full, keep_garbage=has_dontcare(case)) if full is not None else []
        except NotImplementedError:
            return
        except Exception as ex:  # noqa: BLE001
            obs = raised_obs(ex)
            obs["kind"] = obs["ckind"] = ""
            obs["cells"] = []
            full = None
        if obs["cells"] is None:
            return                  # non-integral values cannot be handed to TLC (never produced by the menu)
        rec["obs"] = obs
        # the NumPy guard record for the same call
        ref = np_reference(case)
        g = dict(rec, id="g" + rec["id"])
        if ref["err"]:
            g["obs"] = dict(raised_obs(TypeError()), kind="", ckind="", cells=[])
        else:
            a = ref["arr"]
            ic = int_cells(a, keep_garbage=has_dontcare(case))
            if ic is None:
                return
            g["obs"] = dict(numpy_obs(a), kind=a.dtype.kind, ckind=a.dtype.kind, cells=ic)
        self.steps.append((rec, g))
        if (y is not None and full is not None and not obs["raised"] and not meta_clauses(obs) and not has_dontcare(case)
                and max([abs(v) for v in obs["cells"]] or [0]) < 10 ** 6):
            k = obs["kind"]
            if k in DT and str(np.dtype(DT[k])) == obs["dt"]:
                self.pool.append((y, {"f": "d", "k": k, "sh": obs["whole"]["s"], "ch": obs["chunks"], "v": obs["cells"]}))


def int_cells(a, keep_garbage=False):
    """Cells as integers TLC can read; None if some cell is not a small integer.  keep_garbage:
    uninitialised (don't-care) cells may hold anything - they are passed as -1."""
    out = []
    for g in np.asarray(a).ravel().tolist():
        try:
            if isinstance(g, complex):
                if g.imag != 0:
                    raise ValueError
                g = g.real
            if isinstance(g, float) and not g.is_integer():
                raise ValueError
            g = int(g)
            if abs(g) >= 2 ** 30:
                raise ValueError
        except (ValueError, OverflowError):
            if not keep_garbage:
                return None
            g = -1
        out.append(g)
    return out


def _expr(item):
    eid, seed, nsteps = item
    import random
    e = Expr(random.Random(seed), eid, origin=(eid, seed, nsteps))
    for s in range(nsteps):
        e.run_step(s)
    return e.steps


def record_expressions(ctx, n):
    items = [(i, ctx.rng.randrange(2 ** 40), ctx.rng.randint(2, 6)) for i in range(n)]
    out = []
    for steps in pmap(_expr, items, chunk=8):
        out.extend(steps)
    return out


def validate(ctx, pairs, report=True, extra=None):
    """TLC decides the recorded steps (dask records and their NumPy guard records).  extra =
    (records, Python verdicts) of enumerated cases: TLC's verdict on them must equal judge()'s."""
    spec, cfg = ctx.model(ctx.spec("array", "ElemwiseTrace.tla"), {})
    found = []
    for lo in range(0, max(len(pairs), 1), 2500):
        part = pairs[lo:lo + 2500]
        recs = [r for p in part for r in p]
        xrecs = extra[0] if (extra and lo == 0) else []
        rej = ctx.tlc_validate(spec, recs + xrecs, cfg, timeout=1800)
        ctx.traces -= len(xrecs)
        for x in xrecs:
            t = sorted(c for c in rej.get(x["id"], ["{}"])[0].strip("{} ").replace('"', "").split(", ") if c)
            if t != extra[1][x["id"]]:
                raise MachineryError("Python verdict %r and TLC verdict %r differ on %r" % (extra[1][x["id"]], t, x))
        byid = {r["id"]: r for r in recs}
        for rid, clauses in sorted(rej.items()):
            if rid.startswith("g"):
                raise MachineryError("TLA+ reference rejects what NumPy does on %r: %s" % (byid[rid], clauses))
        for r, _g in part:
            ctx.count(("rec", r["fam"], r["op"], r["xs"], r["spelling"]), r["obs"]["raised"] == "" and len(r["obs"]["cells"]) > 1)
            if r["id"] in rej:
                clauses = rej[r["id"]]
                names = [c for c in clauses[0].strip("{} ").replace('"', "").split(", ") if c]
                found.append((r, names))
                if report:
                    ctx.violation(classify(r, names, r["spelling"]),
                                  "TLC rejects a recorded elementwise call (%s)" % clauses[0], {"record": r, "clauses": clauses})
    return found


def enumerate_cases(ctx):
    cfgs, caps = families(ctx)
    spec, cfg = ctx.model(ctx.spec("array", "ElemwiseMC.tla"), {"Configs": cfgs}, invariants=INVS)
    cases, _ = ctx.tlc_cases(spec, cfg, label="design+cases", timeout=3000)
    bylab = {}
    for c in cases:
        bylab.setdefault(c["c"]["lab"], []).append(c)
    return bylab, caps


def run(ctx):
    bylab, caps = enumerate_cases(ctx)
    only = os.environ.get("VERIF_C19_FAMS")        # development aid: restrict the families
    total, sampled, crosscheck, chosen = 0, False, [], []
    for label in sorted(bylab):
        cases = bylab[label]
        total += len(cases)
        ctx.extra.setdefault("cases_per_family", {})[label] = len(cases)
        if only and label not in only.split(","):
            continue
        if ctx.quick and len(cases) > caps[label]:
            sampled = True
            cases = ctx.rng.sample(cases, caps[label])
        chosen += cases
        ctx.sample({"case": cases[0]["c"], "expected": cases[0]["e"]})
        crosscheck += ctx.rng.sample(cases, min(len(cases), 40))
    replay_cases(ctx, "the enumerated cases", chosen)          # one worker pool for all families
    # the Python verdict function is cross-checked against TLC on a sample of the enumerated cases
    xrecs, xverdicts = crosscheck_records(crosscheck)
    # code -> spec (the same TLC run decides the cross-check records)
    pairs = record_expressions(ctx, ctx.pick(250, 4000))
    validate(ctx, pairs, extra=(xrecs, xverdicts))
    if pairs:
        ctx.sample({"recorded_step": {k: pairs[0][0][k] for k in ("fam", "op", "xs", "spelling")}})
    ctx.exhaustive = not sampled
    ctx.rule = ("cases = TLC-enumerated (family, operation, operand forms/kinds/shapes/chunkings) x spelling (dask function, "
                "NumPy function dispatched to dask, Python operator), plus recorded steps of random lazy expressions; "
                "non-trivial = NumPy defines a result with more than one cell; distinct by (case, spelling)")
    ctx.extra["cases_enumerated_by_tlc"] = total
    ctx.assumptions = ["NumPy per-block kernels are correct", "TLC evaluates the reference semantics correctly",
                       "one concrete dtype per kind: bool, uint8, int64, float64, complex128",
                       "shapes bounded as listed in the Configs constant of the TLC run"]


def crosscheck_records(cases):
    """Observations of enumerated cases as trace records + the verdict judge() takes on them:
    judge() (Python) and ElemwiseTrace!Bad (TLC) must agree on the same observations."""
    recs, verdicts = [], {}
    for n, c in enumerate(cases):
        case, exp = c["c"], c["e"]
        if case["op"] == "truediv" or case["op"] in KOPS or (not exp["err"] and DC in exp["cells"]):
            continue
        obs, full = run_dask(case, "da")
        if "skip" in obs:
            continue
        obs = dict(obs)
        obs.pop("msg", None)
        ic = int_cells(full) if full is not None else []
        if ic is None:
            continue
        obs["cells"] = ic
        rid = "x%d" % n
        recs.append({"id": rid, "fam": case["fam"], "op": case["op"], "xs": case["xs"], "obs": obs})
        verdicts[rid] = trim_clauses(judge(exp, obs, full))
    return recs, verdicts


def replay(ctx, obj):
    c = obj["case"]
    if "record" in c and c["record"].get("expr"):
        # a step of a recorded lazy expression: re-execute the whole expression from its seed
        r = c["record"]
        steps = [rec for rec, _g in _expr(tuple(r["expr"])) if rec["id"] == r["id"]]
        if not steps:
            print("the expression no longer reaches step", r["id"])
            return False
        spec, cfg = ctx.model(ctx.spec("array", "ElemwiseTrace.tla"), {})
        rej = ctx.tlc_validate(spec, steps, cfg)
        print("step:", {k: steps[0][k] for k in ("fam", "op", "xs", "spelling")}, "\nobserved:", steps[0]["obs"], "\nrejected:", rej)
        return bool(rej)
    if "record" in c:
        r = c["record"]
        spec, cfg = ctx.model(ctx.spec("array", "ElemwiseTrace.tla"), {})
        case = {"fam": r["fam"], "op": r["op"], "xs": r["xs"]}
        obs, full = run_dask(case, r.get("spelling", "da"))
        obs = dict(obs)
        obs.pop("msg", None)
        obs["cells"] = (int_cells(full) or []) if full is not None else []
        rec = dict(case, id="r0", obs=obs)
        rej = ctx.tlc_validate(spec, [rec], cfg)
        print("observed:", obs, "\nrejected:", rej)
        return bool(rej)
    case, exp, sp = c["case"], c["expected"], c["spelling"]
    obs, full = run_dask(case, sp)
    bad = judge(exp, obs, full, case)
    print("case:", case, "\nexpected:", exp, "\nobserved:", obs, "\nclauses:", bad)
    return bool(bad)


SELFTEST_CONFIGS = [
    ("bcast", "binary", "{<<>>, <<2>>, <<2, 2>>}", ["add"], [["i", "i"]], ["dd", "dn"], True),
    ("kinds", "binary", "{<<>>, <<2>>}", ["add", "lt"], [[a, b] for a in K5 for b in K5], ["ds", "sd"], False),
    ("where", "where", "{<<>>, <<3>>}", ["where"], [["b", "i", "f"], ["b", "f", "i"], ["i", "b", "i"]], ["sdd", "ddd"], False),
    ("outwhere", "outwhere", "{<<2>>}", ["add"], [["i", "i", "i", "b"]], ["ddd-", "dddd"], True),
    ("kernel2", "binary", "{<<5>>}", ["k_divmod0", "k_divmod1", "k_mod"], [["i", "i"], ["f", "f"], ["f", "i"]], ["dd", "ds"], False),
    ("kernel1", "unary", "{<<7>>}", ["k_frexp0", "k_frexp1", "k_modf1"], [["f"], ["i"]], ["d"], False),
]


def _mutants():
    """(name, module, function, old, new, re-exporting modules): slips that compile, in the anchored functions."""
    import dask.array as da
    import dask.array.core as core
    import dask.array.routines as routines
    import dask.array.ufunc as ufunc
    return [
        ("elemwise: operands aligned on the leading instead of the trailing axes", core, "elemwise",
         "(a, tuple(range(a.ndim)[::-1]) if not is_scalar_for_elemwise(a) else None)",
         "(a, expr_inds[:a.ndim] if not is_scalar_for_elemwise(a) else None)", ()),
        ("elemwise: dtype inferred with Python scalars as strongly typed arrays", core, "elemwise",
         "                if not is_scalar_for_elemwise(a)\n                else a\n",
         "                if not is_scalar_for_elemwise(a)\n                else np.asarray(a)\n", ()),
        ("handle_out: out keeps its old chunks", core, "handle_out",
         "        out._chunks = result.chunks\n", "        pass\n", ()),
        ("divmod: remainder derived from the quotient (differs for zero / infinite divisors)", ufunc, "divmod",
         "res2 = x % y", "res2 = x - res1 * y", (da,)),
        ("frexp: mantissa and exponent outputs swapped", ufunc, "frexp",
         "(getitem, key, 0)", "(getitem, key, 1)", (da,)),
        ("where(scalar condition): result not cast to the common dtype", routines, "where",
         "return broadcast_to(out, shape).astype(dtype)", "return broadcast_to(out, shape)", (da,)),
    ]


def selftest(ctx):
    """Binding demonstration: (i) in-memory mutants of the anchored dask functions are reported as
    violations by the same case loop run() uses; (ii) corrupted recorded observations are rejected by
    the trace specification."""
    from ..arrayobs import source_mutant
    ok = True
    f = lambda names: [list(n) for n in names]
    cfgs = TLA("{" + ", ".join(_cfg(lab, fam, sh, ops, kt, f(forms), allch=allch, special=lab.startswith("kernel"))
                               for lab, fam, sh, ops, kt, forms, allch in SELFTEST_CONFIGS) + "}")
    spec, cfg = ctx.model(ctx.spec("array", "ElemwiseMC.tla"), {"Configs": cfgs}, invariants=INVS)
    cases, _ = ctx.tlc_cases(spec, cfg, label="selftest cases")
    cases = [c for c in cases if root_cause(c["c"]) is None]
    spell = ["da"]
    base = replay_cases(ctx, "selftest", cases, spell=spell, report=False)
    print("selftest C19: %d cases, unchanged tree: %d violations  %s" % (len(cases), len(base), "ok" if not base else "FAIL"))
    ok &= not base
    for name, module, fn, old, new, also in _mutants():
        with source_mutant(module, fn, old, new, also=also):
            found = replay_cases(ctx, "selftest", cases, spell=spell, report=False)
        clauses = sorted({c for _case, bad in found for c in bad})
        print("selftest C19 mutant [%s]: %d of %d cases violate (%s)  %s"
              % (name, len(found), len(cases), ",".join(clauses), "detected" if found else "NOT DETECTED"))
        ok &= bool(found)
    # (ii) corrupted recorded fields / dropped block are rejected by ElemwiseTrace
    pairs = record_expressions(ctx, 12)
    good = [r for r, _g in pairs if not r["obs"]["raised"] and len(r["obs"]["cells"]) > 1 and root_cause(r) is None
            and not has_dontcare(r)]
    rej = validate(ctx, [(r, dict(r, id="g" + r["id"])) for r in good], report=False)
    print("selftest C19 trace: %d recorded steps, %d rejected unmodified  %s" % (len(good), len(rej), "ok" if not rej else "FAIL"))
    ok &= not rej and len(good) >= 3
    import copy
    corrupt = []
    for n, r in enumerate(good[:9]):
        c = copy.deepcopy(r)
        c["id"] = "c%d" % n
        if n % 3 == 0:
            c["obs"]["cells"][-1] += 1
            want = "Content"
        elif n % 3 == 1:
            c["obs"]["blocks"] = c["obs"]["blocks"][:-1]
            want = "Keys"
        else:
            c["obs"]["chunks"][-1] = c["obs"]["chunks"][-1] + [1] if c["obs"]["chunks"] else c["obs"]["chunks"]
            c["obs"]["lshape"] = [n_ + 1 for n_ in c["obs"]["lshape"]] if not c["obs"]["chunks"] else c["obs"]["lshape"]
            want = "LazyShape" if not c["obs"]["chunks"] else "Keys"
        corrupt.append((c, want))
    spec, cfg = ctx.model(ctx.spec("array", "ElemwiseTrace.tla"), {})
    rejd = ctx.tlc_validate(spec, [c for c, _w in corrupt], cfg, label="selftest corrupted records")
    for c, want in corrupt:
        got = rejd.get(c["id"], [""])[0]
        hit = want in got
        print("selftest C19 corrupted record %s (%s): %s  %s" % (c["id"], want, got or "accepted", "rejected" if hit else "NOT REJECTED"))
        ok &= hit
    print("selftest C19: %s" % ("all binding checks hold" if ok else "FAILED"))
    return 0 if ok else 1
