"""C38 - groupby results equal pandas groupby for every partitioning, split_out, split_every and shuffle method.

spec -> code: TLC enumerates (specs/frame/GroupByMC.tla) every (frame fill, grouping keys, dropna, sort, observed,
operation) of the bounded space together with the result TABLE the TLA+ reference semantics (specs/frame/GroupBy.tla
over specs/common/GroupFold.tla, per-group folds from FrameReductions.tla, exact rationals) demands, and ALL row
partitionings with <= MaxParts parts (empty partitions allowed); the design check proves on every one of them that
the reference decomposes into per-partition partial results per group.  Every (case, partitioning) pair - quick: a
seeded sample - is run on a real dask collection built with EXACTLY those partitions, with split_out in
{default, 1, 2, 3}, split_every in {default, 2, 3}, shuffle_method in {default, tasks, disk}.  The result is compared
as a MAP keyed by group (or by index label for row-shaped results) unless the order is promised (sort=True; cumsum /
cumprod / cumcount), then as a sequence.  code -> spec: seeded random calls on larger frames are recorded and TLC
decides every record (GroupByTrace.tla).  pandas is only the reference *guard*."""
from __future__ import annotations

import warnings

from ..core import TLA, MachineryError
from ..frameobs import CallTimeout, time_limit
from ..divisions import parts_collection
from ..frames import dd, is_shim_error, split_rows
from ..par import pmap
from .. import tlc as T
from .C37 import NA, UNKNOWN, _plain, label_int, val_rat

META = {
    "title": "Groupby results equal pandas groupby",
    "design_ref": "DESIGN.md §4.4 C38",
    "technique": "TLA+ reference semantics of pandas groupby (groups, per-group folds, row-shaped per-group operations; exact "
                 "rationals); TLC enumerates keys x dropna x sort x observed x operations over seeded frame fills and all row "
                 "partitionings and checks the partition-wise decomposition of the reference; replay into dask + TLC validation "
                 "of recorded calls",
    "level_text": "Small-scope: for seeded fills of frames with <= 7 rows, 1-2 key columns over {0,1,NA} (or one categorical key with "
                  "an unused category) and 1-2 value columns over {0,1,2,NA}, TLC computes sum prod count min max mean var std first "
                  "last size nunique idxmin idxmax (method form on the frame and on one column; agg with single / list / dict "
                  "specifications) and cumsum cumprod cumcount shift ffill bfill transform('sum'), for dropna in {T,F}, sort in "
                  "{default,True,False}, observed in {T,F}; dask is replayed on all row partitionings with <= 3 parts (empty "
                  "partitions included; quick: a seeded sample) x split_out {default,1,2,3} x split_every {default,2,3} x "
                  "shuffle_method {default,tasks,disk}; for the order-free operations also on PRE-PARTITIONED sources: the frame hash-shuffled "
                  "on columns K' that are a subset of / equal to / a superset of / overlapping / disjoint from the grouping keys, or being the "
                  "result of a first split_out aggregation by finer keys. Results are compared as a map keyed by group unless sort=True "
                  "(a group split over output partitions shows as a duplicated key: clause Groups). Random larger "
                  "frames are decided by TLC from recorded calls.",
    "level_note": "Trusted: TLC, the TLA+ reference (cross-checked against pandas on every case; a disagreement is a machinery error), "
                  "harness.frames.from_parts, the projection of results (keys, columns, values), Fraction conversion of floats with "
                  "tolerance 2^-40*n*max(1,|x|). Fills are seeded samples. Not decided: cov/corr, value_counts, median, apply / "
                  "transform with user functions, head/tail, series and index grouping keys, named aggregation, result dtypes and names.",
}

SO_VARIANTS = ["default", 1, 2, 3]
SE_VARIANTS = ["default", 2, 3]
SM_VARIANTS = ["default", "tasks", "disk"]
ORDERED_XF = ("cumsum", "cumprod", "cumcount")
ORDER_FREE = ("sum", "prod", "count", "min", "max", "mean", "var", "std", "size", "nunique")
SHUFFLING_XF = ("shift", "ffill", "bfill", "tsum")


# ----------------------------------------------------------------------------- case -> pandas
def pandas_frame(case):
    import numpy as np
    import pandas as pd
    rows = case["rows"]
    data = {}
    for c in frame_columns(case):
        cells = [r[c] for r in rows]
        kind = case["kinds"].get(c, "f")
        if c in case["keys"] and case["cats"]:
            data[c] = pd.Categorical([np.nan if v == NA else v for v in cells], categories=list(case["cats"]))
        elif kind == "f" or NA in cells:
            data[c] = np.array([np.nan if v == NA else float(v) for v in cells], dtype="f8")
        else:
            data[c] = np.array(cells, dtype="i8")
    return pd.DataFrame(data, index=pd.Index([r["idx"] for r in rows], dtype="i8"))


NO_PRE = {"how": "none", "on": []}


def pre_of(case):
    return case.get("pre") or NO_PRE


def frame_columns(case):
    keylike = set(case["keys"]) | {c for c in pre_of(case)["on"] if c in ("k", "j")}
    return [c for c in ("k", "j") if c in keylike] + list(case["vcols"])


def pre_relation(case):
    """How the columns K' of the pre-stage relate to the grouping keys K."""
    pre = pre_of(case)
    if pre["how"] == "none":
        return "none"
    if pre["how"] == "agg":
        return "agg-by-finer-keys"
    k, kp = set(case["keys"]), set(pre["on"])
    return ("equal" if kp == k else "subset" if kp < k else "superset" if kp > k else "overlap" if kp & k else "disjoint")


def dask_kwargs(variant, names=("split_out", "split_every", "shuffle_method")):
    kw = {}
    if variant is None:
        return kw
    for name, key in (("split_out", "so"), ("split_every", "se"), ("shuffle_method", "sm")):
        if name in names and variant.get(key, "default") != "default":
            kw[name] = variant[key]
    return kw


def agg_spec(case):
    funcs = case["funcs"]
    form = case["form"]
    if form == "single":
        return funcs[0]["f"]
    if form == "list":
        out = []
        for fn in funcs:
            if fn["f"] not in out:
                out.append(fn["f"])
        return out
    spec = {}
    for fn in funcs:
        spec.setdefault(fn["c"], []).append(fn["f"])
    return {c: (fs[0] if len(fs) == 1 else fs) for c, fs in spec.items()}


def apply_op(x, case, variant, is_dask):
    """The call under test (x = dask collection) or the pandas reference call (x = pandas frame)."""
    keys = list(case["keys"])
    by = keys if len(keys) > 1 else keys[0]
    gkw = {"dropna": case["dropna"]} if case.get("dexp", True) else {}       # not passed: pandas' default (True) is in force
    if case["sort"] == 1:
        gkw["sort"] = True
    elif case["sort"] == 2:
        gkw["sort"] = False
    if case["cats"]:
        gkw["observed"] = case["observed"]
    v = variant if is_dask else None
    pre = pre_of(case)
    if pre["how"] == "shuffle" and is_dask:
        x = x.shuffle(on=list(pre["on"]))                    # pandas: nothing to do - the rows are the same
    elif pre["how"] == "agg":                                 # first stage: the same function by the finer keys
        dn = {"dropna": case["dropna"]} if case.get("dexp", True) else {}
        so1 = {"split_out": variant["so1"]} if (is_dask and variant.get("so1", "default") != "default") else {}
        x = getattr(x.groupby(list(pre["on"]), **dn), case["funcs"][0]["f"])(**so1).reset_index()
    g = x.groupby(by, **gkw)
    if case["tgt"] == "series":
        g = g[case["vcols"][0]]
    elif pre["how"] == "agg":
        g = g[list(case["vcols"])]
    if case["fam"] == "agg":
        if case["form"] != "method":
            return g.agg(agg_spec(case), **dask_kwargs(v))
        fn = case["funcs"][0]
        f, p = fn["f"], fn["p"]
        kw = {}
        if f in ("sum", "prod") and p:
            kw["min_count"] = p
        if f in ("var", "std"):
            kw["ddof"] = p
        return getattr(g, f)(**kw, **dask_kwargs(v))
    op = case["op"]
    if op in ORDERED_XF:
        return getattr(g, op)()
    kw = dask_kwargs(v, names=("shuffle_method",))
    if op == "shift":
        return g.shift(case["p"], **kw)
    if op == "tsum":
        return g.transform("sum", **kw)
    return getattr(g, op)(**kw)


# ----------------------------------------------------------------------------- projection of a result
def key_tuple(k):
    if isinstance(k, tuple):
        return [label_int(v) for v in k]
    return [label_int(k)]


def project(case, res):
    """pandas / dask result -> {k, gk, cl, v, close} in the vocabulary of GroupBy.tla."""
    import pandas as pd
    nrows = len(case["rows"])
    vcols = list(case["vcols"])
    pos = {c: i for i, c in enumerate(vcols)}
    agg = case["fam"] == "agg"
    obs = {"raised": "", "k": "other", "gk": [], "cl": [], "v": [], "close": True}
    if not isinstance(res, (pd.Series, pd.DataFrame)):
        return obs
    close = True
    single_f = case["funcs"][0]["f"] if agg else case["op"]

    def value(v, f):
        nonlocal close
        r, ok = val_rat(v, nrows, f == "std")
        close = close and ok
        return r

    if isinstance(res, pd.Series):
        name = res.name
        if agg and single_f == "size" and case["form"] == "method":
            cl = [[-1, "size"]]
        elif not agg and case["op"] == "cumcount":
            cl = [[-1, "cumcount"]]
        else:
            cl = [[pos.get(name, UNKNOWN), single_f]]
        cols = [res]
    else:
        cl, cols = [], []
        for c in res.columns:
            if isinstance(c, tuple):
                cl.append([pos.get(c[0], UNKNOWN), str(c[1])])
            elif agg and case["form"] in ("list", "dict") and case["tgt"] == "series":
                cl.append([pos.get(vcols[0], UNKNOWN), str(c)])
            elif agg and case["form"] == "dict":          # {col: "f"} for every column: plain column names
                fs = [fn["f"] for fn in case["funcs"] if fn["c"] == c]
                cl.append([pos.get(c, UNKNOWN), fs[0] if len(fs) == 1 else "?"])
            else:
                cl.append([pos.get(c, UNKNOWN), single_f])
        cols = [res.iloc[:, j] for j in range(res.shape[1])]
    obs["k"] = "groups" if agg else "rows"
    obs["gk"] = [key_tuple(k) for k in res.index.tolist()]
    obs["cl"] = [{"c": c, "f": f} for c, f in cl]
    lists = [col.tolist() for col in cols]
    obs["v"] = [[value(lists[j][i], cl[j][1]) for j in range(len(cols))] for i in range(len(res))]
    obs["close"] = bool(close)
    return obs


# ----------------------------------------------------------------------------- verdicts (mirror of GroupBy!GVerdict)
def as_lists(x):
    return [as_lists(y) for y in x] if isinstance(x, (list, tuple)) else x


def judge(case, exp, obs):
    if "skip" in obs:
        return None
    if documented_limitation(case):
        return None
    if exp["err"]:
        return None if obs["raised"] else "ErrorExpected"       # pandas has no result; any exception is accepted
    if obs["raised"]:
        return "UnexpectedRaise"
    if obs["k"] != exp["k"]:
        return "Kind"
    if obs["cl"] != [dict(c) for c in exp["cl"]]:
        return "Columns"
    wgk = as_lists(exp["gk"])
    okeys = [tuple(k) for k in obs["gk"]]
    wkeys = [tuple(k) for k in wgk]
    if len(okeys) != len(wkeys) or set(okeys) != set(wkeys):
        return "Groups"
    wv = as_lists(exp["v"])
    where = {k: i for i, k in enumerate(wkeys)}
    if not obs["close"] or any(obs["v"][i] != wv[where[k]] for i, k in enumerate(okeys)):
        return "Content"
    if exp["ordered"] and okeys != wkeys:
        return "Order"
    return None


def documented_limitation(case):
    """GroupBy.shift / .transform document that 'the order of rows within each group may not be preserved' when the
    grouper does not align with the index: after its shuffle dask restores row order with sort_index(), so shift is
    only comparable with pandas when the index labels are increasing."""
    return case["fam"] == "xf" and case["op"] == "shift" and unsorted_index(case)


def guard(case, exp):
    """Compare the TLA+ expected result with pandas.  Returns None or a description of the disagreement.  pandas' own
    row order is stricter than what is demanded of dask: under sort=False groups appear in first-seen order, rows stay put."""
    try:
        with warnings.catch_warnings():
            warnings.simplefilter("ignore")
            r = apply_op(pandas_frame(case), case, None, False)
    except Exception as ex:  # noqa: BLE001
        return None if exp["err"] else "pandas raises %s: %s, spec has %r" % (type(ex).__name__, ex, exp)
    if exp["err"]:
        return "spec says pandas raises, pandas returns %r" % (r,)
    obs = project(case, r)
    cl = judge(case, exp, obs)
    if cl is None and case["fam"] == "agg" and case["sort"] != 2 and not case["cats"]:       # pandas sorts by default
        if [tuple(k) for k in obs["gk"]] != [tuple(k) for k in as_lists(exp["gk"])]:
            cl = "Order(default sort)"
    if cl is None and case["fam"] == "xf" and [tuple(k) for k in obs["gk"]] != [tuple(k) for k in as_lists(exp["gk"])]:
        cl = "Order(rows)"
    return None if cl is None else "%s: pandas %r spec %r" % (cl, obs, exp)


# ----------------------------------------------------------------------------- dask
def empty_obs(raised, msg, layout):
    return {"raised": raised, "msg": msg, "k": "", "gk": [], "cl": [], "v": [], "close": True, "layout": layout}


def run_dask(case, layout, variant):
    """Apply the case to a real dask collection with exactly the given partitioning; returns the observation."""
    try:
        with warnings.catch_warnings():
            warnings.simplefilter("ignore")
            with time_limit(60):
                pdf = pandas_frame(case)
                if variant["src"] == "pandas":
                    x = dd().from_pandas(pdf, npartitions=max(1, len(layout)), sort=False)
                    actual = [int(k) for k in x.map_partitions(len).compute(scheduler="sync")]
                else:
                    x = parts_collection(split_rows(pdf, layout), None, key=("C38", case["rows"], list(layout)))
                    actual = list(layout)
                try:
                    y = apply_op(x, case, variant, True)
                    if hasattr(y, "compute"):
                        y = y.compute(scheduler="sync")
                except NotImplementedError:
                    raise
                except Exception as ex:  # noqa: BLE001 - an exception of the operation is an observation
                    if is_shim_error(ex) or isinstance(ex, CallTimeout):
                        raise
                    return empty_obs(type(ex).__name__, str(ex)[:160], actual)
        obs = project(case, y)
        obs["layout"] = actual
        return obs
    except NotImplementedError as ex:
        return {"skip": "NotImplementedError: " + str(ex)[:60]}
    except CallTimeout as ex:
        return empty_obs("CallTimeout", str(ex)[:100], list(layout))
    except Exception as ex:  # noqa: BLE001
        if is_shim_error(ex):
            return {"skip": "pyarrow shim"}
        return empty_obs(type(ex).__name__, str(ex)[:160], list(layout))


def group_features(case, layout):
    """Structural features of (case, partitioning)."""
    rows, keys = case["rows"], case["keys"]
    feats = set()
    n = len(rows)
    if n and 0 in layout:
        feats.add("empty-partition")
    if any(r[k] == NA for r in rows for k in keys):
        feats.add("na-key")
    parts, p = [], 0
    for k in layout:
        parts.append(rows[p:p + k])
        p += k
    keyof = lambda r: tuple(r[k] for k in keys)       # noqa: E731
    spans = {}
    for b, part in enumerate(parts):
        for r in part:
            spans.setdefault(keyof(r), set()).add(b)
    if any(len(s) > 1 for s in spans.values()):
        feats.add("group-spans-partitions")
    cols = [fn["c"] for fn in case["funcs"] if fn["c"]] if case["fam"] == "agg" else list(case.get("cols", []))
    for b, part in enumerate(parts):
        for g in {keyof(r) for r in part}:
            for c in set(cols):
                cells = [r[c] for r in part if keyof(r) == g]
                if cells and all(v == NA for v in cells):
                    feats.add("group-allna-in-partition")
    return feats


def unsorted_index(case):
    idx = [r["idx"] for r in case["rows"]]
    return idx != sorted(idx)


def classify(case, layout, clause, variant):
    """Signature of a violation = its root-cause class: call site (function class / form), the grouping option or
    configuration that triggers it and the failing clause - never concrete numbers.  The input classes behind the
    recorded known findings come first (first match wins); anything else gets a coarse generic signature."""
    feats = group_features(case, layout)
    cat = bool(case["cats"])
    obs_false = cat and not case["observed"]
    nakey = "na-key" in feats
    so = variant.get("so", "default")
    multi_out = so not in ("default", 1)
    if case["fam"] == "agg":
        fs = {fn["f"] for fn in case["funcs"]}
        if (pre_relation(case) in ("equal", "subset") and multi_out and len(layout) == 1 and clause == "UnexpectedRaise"):
            return "agg:pre-partitioned:shuffle-skipped:single-partition-source:split_out>1:raises"
        if "nunique" in fs:
            if obs_false and clause == "Groups":
                return "agg:nunique:categorical:observed=False:unobserved-groups-missing"
            if not case["dropna"] and nakey and clause == "Groups":
                return "agg:nunique:dropna=False:na-key-groups-missing"
            if case["sort"] == 1 and clause == "Order":
                return "agg:nunique:sort=True:not-sorted"
        if obs_false and multi_out and clause == "Groups":
            return "agg:categorical:observed=False:split_out>1:groups-repeated-per-output-partition"
        if fs & {"mean", "var", "std"} and not case.get("dexp", True) and nakey and clause == "Groups":
            return "agg:mean-var-std:dropna-not-given:na-key-group-kept"
        if fs & {"first", "last"} and multi_out and clause == "Content":
            return "agg:first-last:split_out>1:row-order-lost"
        if fs & {"idxmin", "idxmax"} and clause == "Content" and "group-spans-partitions" in feats:
            return "agg:idxmin-idxmax:group-spans-partitions:first-partition-wins"
        if fs & {"idxmin", "idxmax"} and clause == "UnexpectedRaise" and "group-allna-in-partition" in feats:
            return "agg:idxmin-idxmax:group-allna-in-a-partition:raises"
        site = "+".join(sorted(fs)) if case["form"] == "method" else "agg-%s" % case["form"]
        opts = ["dropna=%s%s" % (case["dropna"], "" if case.get("dexp", True) else "(default)"),
                {0: "sort=None", 1: "sort=True", 2: "sort=False"}[case["sort"]]]
        if cat:
            opts.append("categorical:observed=%s" % case["observed"])
        opts.append("split_out>1" if multi_out else "split_out=1")
        if nakey:
            opts.append("na-key")
        if pre_relation(case) != "none":
            opts.append("pre-partitioned:" + pre_relation(case))
        return ":".join(["agg", site, case["tgt"], clause] + opts)
    op = case["op"]
    sm = variant.get("sm", "default")
    dropped_rows = case["dropna"] and nakey
    if op in ("ffill", "bfill", "tsum") and dropped_rows and clause in ("Groups", "UnexpectedRaise"):
        return "xf:fill-transform:dropna=True:na-key-rows:dropped-or-raises"
    if op == "tsum" and obs_false and clause == "Groups":
        return "xf:transform:categorical:observed=False:rows-repeated"
    if op in ("ffill", "bfill") and clause == "Content":
        return "xf:fill:row-order-lost-after-shuffle"
    if op in ("cumsum", "cumprod") and clause == "Content" and "group-allna-in-partition" in feats:
        return "xf:cumsum-cumprod:group-allna-in-earlier-partition:nan-carried"
    opts = ["dropna=%s%s" % (case["dropna"], "" if case.get("dexp", True) else "(default)")]
    if cat:
        opts.append("categorical:observed=%s" % case["observed"])
    if nakey:
        opts.append("na-key")
    if pre_relation(case) != "none":
        opts.append("pre-partitioned:" + pre_relation(case))
    return ":".join(["xf", op, case["tgt"], clause] + opts)


def _guard_one(c):
    return guard(c["c"], c["e"])


def guard_all(cases):
    """Reference guard over EVERY enumerated case (not only the replayed sample): the TLA+ reference and pandas must agree
    before anything is judged; a disagreement is a machinery error whatever the seed-dependent sample holds."""
    for c, g in zip(cases, pmap(_guard_one, cases, chunk=64)):
        if g is not None:
            raise MachineryError("TLA+ reference disagrees with pandas on %r: %s" % (c["c"], g))


def _work(item):
    case, exp, layout, variants = item
    g = guard(case, exp)
    if g is not None:
        return [("GUARD", None, g)]
    res = []
    for v in variants:
        obs = run_dask(case, layout, v)
        if "skip" in obs:
            res.append(("SKIP", v, obs["skip"]))
            continue
        if documented_limitation(case):
            res.append(("SKIP", v, "documented: GroupBy.shift restores row order by sort_index (needs increasing index labels)"))
            continue
        cl = judge(case, exp, obs)
        res.append((cl, v, obs if cl else None))
    return res


# ----------------------------------------------------------------------------- fills / TLC constants
def gen_fill(rng, n, nkeys, nvals, cat=False, na_key_p=0.2, na_val_p=0.25, key_vals=(0, 1), val_vals=(0, 1, 2)):
    keys = ["k", "j"][:nkeys]
    vcols = ["a", "b"][:nvals]
    rows = []
    for i in range(n):
        r = {"rid": i, "idx": i}
        for k in keys:
            r[k] = NA if rng.random() < na_key_p else rng.choice(key_vals)
        for c in vcols:
            r[c] = NA if rng.random() < na_val_p else rng.choice(val_vals)
        rows.append(r)
    kinds = {}
    for c in keys + vcols:
        kinds[c] = "f" if any(r[c] == NA for r in rows) or rng.random() < 0.5 else "i"
    cats = sorted(set(key_vals) | {max(key_vals) + 1}) if cat else []
    return {"rows": rows, "keys": keys, "vcols": vcols, "cats": cats, "kinds": kinds}


def shuffle_idx(rng, fill):
    """Unique but unsorted index labels (row-shaped results are identified by them)."""
    labels = list(range(len(fill["rows"])))
    rng.shuffle(labels)
    for r, lab in zip(fill["rows"], labels):
        r["idx"] = lab
    return fill


def make_fills(ctx):
    rng = ctx.rng
    if ctx.quick:
        plan = [(0, 1, 1, False), (1, 1, 2, False), (3, 1, 2, False), (4, 2, 1, False), (5, 1, 2, True), (5, 1, 1, False),
                (6, 2, 2, False), (6, 1, 2, False), (7, 1, 2, False), (7, 2, 1, False), (7, 1, 1, True)]
    else:
        plan = []
        for n in range(0, 8):
            plan += [(n, 1, 2, False), (n, 1, 1, False)]
            if n >= 2:
                plan += [(n, 2, 2, False), (n, 1, 2, True), (n, 2, 1, False)]
            if n >= 5:
                plan += [(n, 1, 2, False), (n, 2, 2, False)]
    fills, seen = [], set()
    for n, nk, nv, cat in plan:
        f = gen_fill(rng, n, nk, nv, cat=cat, na_key_p=rng.choice([0.0, 0.2, 0.3]), na_val_p=rng.choice([0.15, 0.3, 0.5]))
        if rng.random() < 0.5:
            shuffle_idx(rng, f)
        key = T.tla_value(f)
        if key not in seen:
            seen.add(key)
            fills.append(f)
    return fills


INVARIANTS = ["GroupsOK", "TableShape", "AggDecomposes", "VarFromSums", "PreSane", "XfSane", "XfRaisesIff"]
FILL_FIELDS = ("rows", "keys", "vcols", "cats")
FILL_ID_FIELDS = ("rows", "vcols", "cats")            # (a two-stage case is grouped by fewer keys than its fill has)


def fill_key(obj):
    import json
    return json.dumps([obj[k] for k in FILL_ID_FIELDS], sort_keys=True)


def enumerate_cases(ctx, fills, label="design+cases", maxparts=3, designparts=3, mincounts="{0, 2}", ddofs="{0, 1}"):
    tla_fills = "{" + ", ".join(T.tla_value({k: f[k] for k in FILL_FIELDS}) for f in fills) + "}"
    consts = {"Fills": TLA(tla_fills), "MaxParts": maxparts, "DesignParts": designparts, "MinCounts": TLA(mincounts), "Ddofs": TLA(ddofs)}
    spec, cfg = ctx.model(ctx.spec("frame", "GroupByMC.tla"), consts, invariants=INVARIANTS)
    out, r = ctx.tlc_cases(spec, cfg, label=label, timeout=3000)
    kinds = {fill_key(f): f["kinds"] for f in fills}
    layouts, cases = {}, []
    for c in out:
        if not c:
            continue
        if c["c"]["fam"] == "layouts":
            layouts[c["c"]["n"]] = sorted(list(x) for x in c["e"])
        else:
            c["c"]["kinds"] = kinds[fill_key(c["c"])]
            cases.append(c)
    return cases, layouts, r


def variants_of(case, rng, k=1):
    out = []
    for _ in range(k):
        v = {"src": "pandas" if rng.random() < 0.15 else "parts"}
        if pre_of(case)["how"] != "none" and case["fam"] == "agg":         # pre-partitioned source: mostly split_out > 1
            v["so"] = rng.choice(SO_VARIANTS + [2, 3, 2, 3])
            v["se"] = rng.choice(SE_VARIANTS)
            v["sm"] = rng.choice(SM_VARIANTS) if v["so"] not in ("default", 1) else "default"
            if pre_of(case)["how"] == "agg":
                v["so1"] = rng.choice([2, 3, 2, "default"])
        elif case["fam"] == "agg":
            v["so"] = rng.choice(SO_VARIANTS)
            v["se"] = rng.choice(SE_VARIANTS)
            v["sm"] = rng.choice(SM_VARIANTS) if v["so"] not in ("default", 1) else "default"
        elif case["op"] in SHUFFLING_XF:
            v["sm"] = rng.choice(SM_VARIANTS)
        out.append(v)
    return out


def replay_cases(ctx, items, on_violation=None):
    nviol = 0
    results = pmap(_work, items, chunk=16)
    for (case, exp, layout, _v), res in zip(items, results):
        for cl, variant, detail in res:
            if cl == "GUARD":
                raise MachineryError("TLA+ reference disagrees with pandas on %r: %s" % (case, detail))
            if cl == "SKIP":
                ctx.skip(detail)
                continue
            nontrivial = len(case["rows"]) >= 2 and len(layout) >= 2 and not exp["err"] and len(exp["gk"]) >= 1
            ctx.count((case, layout, variant), nontrivial)
            if cl:
                nviol += 1
                layout = (detail or {}).get("layout", layout)
                sig = classify(case, layout, cl, variant)
                if on_violation:
                    on_violation(sig, cl, case, layout, variant)
                else:
                    ctx.violation(sig, "%s: dask disagrees with the reference on groupby %s [%s]"
                                  % (cl, case.get("op") or "/".join(sorted({fn["f"] for fn in case["funcs"]})),
                                     (detail or {}).get("msg", "") or "value differs"),
                                  {"case": case, "layout": layout, "expected": exp, "variant": variant, "observed": detail})
    return nviol


def pair_items(ctx, cases, layouts, cap, pre_quota=900):
    counts = [len(layouts[len(c["c"]["rows"])]) for c in cases]
    total = sum(counts)
    sampled = total > cap
    picks = sorted(ctx.rng.sample(range(total), cap)) if sampled else range(total)
    items, ci, base = [], 0, 0
    for p in picks:
        while p >= base + counts[ci]:
            base += counts[ci]
            ci += 1
        c = cases[ci]
        lay = layouts[len(c["c"]["rows"])][p - base]
        items.append((c["c"], c["e"], lay, variants_of(c["c"], ctx.rng)))
    if sampled:          # stratum: the pre-partitioned sources (a small part of the universe) are replayed whatever the sample holds
        pre_cases = [c for c in cases if pre_of(c["c"])["how"] != "none"]
        if len(pre_cases) > pre_quota:
            pre_cases = ctx.rng.sample(pre_cases, pre_quota)
        for c in pre_cases:
            lays = [lay for lay in layouts[len(c["c"]["rows"])] if len(lay) >= 2] or layouts[len(c["c"]["rows"])]
            items.append((c["c"], c["e"], ctx.rng.choice(lays), variants_of(c["c"], ctx.rng)))
    return items, total, sampled


# ----------------------------------------------------------------------------- code -> spec
def random_layout(rng, n, maxparts=5):
    m = rng.randint(1, maxparts)
    cuts = sorted(rng.randint(0, n) for _ in range(m - 1))
    pts = [0] + cuts + [n]
    return [b - a for a, b in zip(pts, pts[1:])]


def random_case(rng):
    n = rng.randint(6, 12)
    nk = rng.choice([1, 1, 2])
    cat = nk == 1 and rng.random() < 0.2
    f = gen_fill(rng, n, nk, rng.choice([1, 2]), cat=cat, na_key_p=rng.choice([0.0, 0.15, 0.3]), na_val_p=rng.choice([0.1, 0.3]),
                 key_vals=(0, 1, 2), val_vals=(0, 1, 2, 3))
    if rng.random() < 0.4:
        shuffle_idx(rng, f)
    dn = rng.choice([(True, True), (True, False), (False, True)])
    case = dict(f, dropna=dn[0], dexp=dn[1], sort=rng.choice([0, 1, 2]), observed=(rng.random() < 0.6) if cat else True)
    vcols = f["vcols"]
    if rng.random() < 0.72:
        form = rng.choice(["method"] * 4 + ["single", "list", "dict"])
        tgt = rng.choice(["frame", "series"])
        cols = vcols if tgt == "frame" else vcols[:1]
        if form == "method":
            fn = rng.choice(["sum", "prod", "count", "min", "max", "mean", "var", "std", "first", "last", "size", "idxmin", "idxmax"]
                            + (["nunique"] if tgt == "series" else []))
            p = rng.choice([0, 0, 2]) if fn in ("sum", "prod") else rng.choice([0, 1, 1, 2]) if fn in ("var", "std") else 0
            funcs = [{"c": "", "f": "size", "p": 0}] if fn == "size" else [{"c": c, "f": fn, "p": p} for c in cols]
        elif form == "single":
            fn = rng.choice(["sum", "max", "count", "mean", "first", "min", "last"])
            funcs = [{"c": c, "f": fn, "p": 0} for c in cols]
        elif form == "list":
            fl = rng.choice([["sum", "count"], ["min", "mean", "max"], ["first", "last"], ["var", "size"], ["std", "prod"], ["mean", "std"]])
            funcs = [{"c": c, "f": fn, "p": 1 if fn in ("var", "std") else 0} for c in cols for fn in fl]
        else:
            tgt = "frame"
            pool = ["sum", "min", "max", "mean", "count", "first", "last", "var", "std", "size"]
            funcs = []
            for c in (vcols if rng.random() < 0.7 else vcols[:1]):
                for fn in rng.sample(pool, rng.choice([1, 1, 2])):
                    funcs.append({"c": c, "f": fn, "p": 1 if fn in ("var", "std") else 0})
        if any(fn["f"] == "prod" for fn in funcs):
            for r in case["rows"]:
                for c in vcols:
                    if r[c] == 3:
                        r[c] = 1
        case.update(fam="agg", form=form, tgt=tgt, funcs=funcs)
    else:
        op, p = rng.choice([("cumsum", 0), ("cumprod", 0), ("cumcount", 0), ("shift", 1), ("shift", -1), ("ffill", 0), ("bfill", 0), ("tsum", 0)])
        tgt = rng.choice(["frame", "series"])
        if op == "cumprod":
            for r in case["rows"]:
                for c in vcols:
                    if r[c] == 3:
                        r[c] = 1
        case.update(fam="xf", op=op, p=p, tgt=tgt, cols=vcols if tgt == "frame" else vcols[:1], sort=0)
    case["pre"] = dict(NO_PRE)
    order_free = (case["fam"] == "agg" and all(fn["f"] in ORDER_FREE for fn in case["funcs"])) or (case["fam"] == "xf" and case["op"] == "tsum")
    if order_free and not cat and rng.random() < 0.6:
        keys, v0 = list(f["keys"]), vcols[0]
        ons = [keys, keys + [v0], [v0]] + ([[keys[0]], [keys[1]], [keys[0], v0]] if nk == 2 else [])
        case["pre"] = {"how": "shuffle", "on": rng.choice(ons)}
    case["layout"] = random_layout(rng, n)
    case["variant"] = variants_of(case, rng)[0]
    return case


AGG_FIELDS = ("fam", "form", "tgt", "funcs", "keys", "dropna", "dexp", "sort", "cats", "observed", "vcols", "rows", "pre")
XF_FIELDS = ("fam", "op", "p", "tgt", "cols", "keys", "dropna", "dexp", "sort", "cats", "observed", "vcols", "rows", "pre")


def _record(item):
    i, case = item
    if documented_limitation(case):
        return None
    obs = run_dask(case, case["layout"], case["variant"])
    if "skip" in obs:
        return None
    actual = obs.get("layout", case["layout"])
    obs = {k: v for k, v in obs.items() if k not in ("msg", "layout")}
    rec = {k: case[k] for k in (AGG_FIELDS if case["fam"] == "agg" else XF_FIELDS)}
    rec.update(id="r%d" % i, obs=obs, layout=actual, asked=case["layout"], kinds=case["kinds"],
               variant={k: str(v) for k, v in case["variant"].items()})
    return rec


def case_of_record(r):
    case = {k: r[k] for k in (AGG_FIELDS if r["fam"] == "agg" else XF_FIELDS)}
    case["kinds"] = r["kinds"]
    return case


def variant_of_record(r):
    return {k: (int(v) if v.lstrip("-").isdigit() else v) for k, v in r["variant"].items()}


def pandas_obs(case):
    try:
        with warnings.catch_warnings():
            warnings.simplefilter("ignore")
            r = apply_op(pandas_frame(case), case, None, False)
    except Exception as ex:  # noqa: BLE001 - pandas raising is part of the reference behaviour
        return {"raised": type(ex).__name__, "k": "", "gk": [], "cl": [], "v": [], "close": True}
    return project(case, r)


def guard_twin(rec):
    return dict(rec, id="g" + rec["id"], obs=pandas_obs(case_of_record(rec)))


def validate_records(ctx, recs, on_violation=None):
    spec, cfg = ctx.model(ctx.spec("frame", "GroupByTrace.tla"), {})
    nviol = 0
    for lo in range(0, len(recs), 3000):
        part = recs[lo:lo + 3000]
        twins = [guard_twin(r) for r in part]          # reference guard: what PANDAS returns for the same call, decided by the same run
        rej = ctx.tlc_validate(spec, part + twins, cfg, timeout=1800)
        ctx.traces -= len(twins)                       # (the twins are not traces of the implementation)
        bad = [t for t in twins if t["id"] in rej]
        if bad:
            raise MachineryError("TLA+ reference rejects what pandas returns for a recorded call: %r %s" % (bad[0], rej[bad[0]["id"]]))
        byid = {r["id"]: r for r in part}
        for r in part:
            ctx.count(("rec", {k: v for k, v in r.items() if k not in ("obs", "id")}), r["obs"]["raised"] == "" and len(r["layout"]) >= 2)
        for rid, clauses in rej.items():
            r = byid[rid]
            cl = clauses[0].strip("{}\" ").split('"')[0] or "Rejected"
            case = case_of_record(r)
            sig = classify(case, r["layout"], cl, variant_of_record(r))
            nviol += 1
            if on_violation:
                on_violation(sig, cl, case, r["layout"], r["variant"])
            else:
                ctx.violation(sig, "TLC rejects a recorded groupby call (%s)" % clauses[0], {"record": r, "clauses": clauses})
    return nviol


def setup_scratch(ctx):
    import dask
    dd()
    dask.config.set({"temporary-directory": ctx.scratch})      # disk shuffles write only under the scratch directory


def run(ctx):
    setup_scratch(ctx)
    fills = make_fills(ctx)
    cases, layouts, _ = enumerate_cases(ctx, fills, designparts=ctx.pick(2, 3), ddofs=ctx.pick("{0, 1}", "{0, 1, 2}"),
                                        mincounts=ctx.pick("{0, 2}", "{0, 1, 3}"))
    guard_all(cases)
    items, total_pairs, sampled = pair_items(ctx, cases, layouts, ctx.pick(2200, 24000), pre_quota=ctx.pick(700, 4000))
    replay_cases(ctx, items)
    nrec = ctx.pick(400, 4000)
    recs = [r for r in pmap(_record, [(i, random_case(ctx.rng)) for i in range(nrec)], chunk=16) if r is not None]
    validate_records(ctx, recs)
    seen = set()
    for it in items:
        tag = (it[0]["fam"], it[0].get("form"))
        if tag not in seen and len(it[0]["rows"]) >= 4 and len(ctx.samples) < 5:
            seen.add(tag)
            ctx.sample({"case": it[0], "layout": it[2], "expected": it[1]})
    ctx.exhaustive = not sampled
    ctx.rule = ("cases = TLC-enumerated (frame fill, keys, dropna, sort, observed, operation) x every row partitioning with <= 3 parts "
                "(empty partitions included) x one seeded (split_out, split_every, shuffle_method, source) configuration each, plus "
                "recorded random calls; non-trivial = at least two rows, at least two partitions, at least one group and pandas does "
                "not raise; distinct by (case, partitioning, configuration)")
    ctx.extra["cases_enumerated_by_tlc"] = len(cases)
    ctx.extra["case_x_partitioning_pairs"] = total_pairs
    ctx.extra["pairs_replayed"] = len(items)
    ctx.extra["frame_fills"] = len(fills)
    ctx.assumptions = ["pandas per-partition kernels are correct", "TLC evaluates the reference semantics correctly",
                       "harness.frames.from_parts builds exactly the given partitions",
                       "frame fills are seeded samples; index labels are unique; bounds as listed",
                       "float results compared within 2^-40*n*max(1,|x|) of the exact rational; dtypes and names not compared"]


def replay(ctx, obj):
    setup_scratch(ctx)
    c = obj["case"]
    if "record" in c:
        r = c["record"]
        case = case_of_record(r)
        case.update(layout=r.get("asked", r["layout"]), variant=variant_of_record(r))
        rec = _record((int(r["id"][1:]), case))
        spec, cfg = ctx.model(ctx.spec("frame", "GroupByTrace.tla"), {})
        rej = ctx.tlc_validate(spec, [rec], cfg)
        print("observed:", rec["obs"], "rejected:", rej)
        return bool(rej)
    case, exp, layout, variant = c["case"], c["expected"], c["layout"], c["variant"]
    obs = run_dask(case, layout, variant)
    cl = judge(case, exp, obs)
    print("case:", case, "\nlayout:", layout, "variant:", variant, "\nexpected:", exp, "\nobserved:", obs, "\nclause:", cl)
    return cl is not None


# ----------------------------------------------------------------------------- selftest
def selftest(ctx):
    """Binding demonstration: in-memory mutants of the anchored dask functions must be reported on a small case set (and
    the unmutated code must not be, beyond the known findings); corrupted recorded fields must be rejected by the trace spec."""
    import copy
    from ..divisions import mutate, patched_attr as patched
    setup_scratch(ctx)
    import dask.dataframe.dask_expr._groupby as G
    import dask.dataframe.dask_expr._reductions as R
    import dask.dataframe.groupby as legacy
    from dask.utils import M
    rng = ctx.rng
    fills = [gen_fill(rng, 6, 1, 2, na_key_p=0.2, na_val_p=0.2), gen_fill(rng, 7, 2, 1, na_key_p=0.15, na_val_p=0.2),
             gen_fill(rng, 5, 1, 1, na_key_p=0.0, na_val_p=0.3)]
    for f in fills:          # every group spans several rows, every key value occurs
        for i, r in enumerate(f["rows"]):
            if r["k"] != NA:
                r["k"] = i % 2
    cases, layouts, _ = enumerate_cases(ctx, fills, label="selftest cases", designparts=2)
    known = set(ctx.known)

    def items_for(pred, limit=50):
        pairs = [(c, lay) for c in cases if pred(c["c"]) and c["c"]["dexp"] and not c["e"]["err"]
                 for lay in layouts[len(c["c"]["rows"])] if len(lay) == 3 and 0 not in lay]
        pairs = rng.sample(pairs, min(limit, len(pairs)))
        return [(c["c"], c["e"], lay, [{"src": "parts", "so": (3 if pre_of(c["c"])["how"] != "none" else "default"), "se": se, "sm": "default"}
                                       for se in ("default", 2)]) for c, lay in pairs]

    def new_violations(items):
        found = []
        replay_cases(ctx, items, on_violation=lambda sig, cl, case, lay, v: found.append((sig, cl)))
        return [f for f in found if f[0] not in known]

    def method(*names):
        return lambda c: c["fam"] == "agg" and c["form"] == "method" and c["funcs"][0]["f"] in names

    mutants = [
        ("ApplyConcatApply.need_to_shuffle: 'already hash-partitioned on a SUBSET of the keys' tested as an overlap (>= became &): the "
         "shuffle is skipped for sources partitioned on MORE columns and groups are split over the output partitions",
         [R.ApplyConcatApply], "need_to_shuffle", mutate(vars(R.ApplyConcatApply)["need_to_shuffle"], "set(split_by) >= (set(cols)", "set(split_by) & (set(cols)"),
         lambda c: c["fam"] == "agg" and pre_relation(c) in ("superset", "overlap") and c["funcs"][0]["f"] in ("sum", "count", "size", "max")),
        ("Count.groupby_aggregate: partial counts combined with count instead of sum (wrong operand)",
         [G.Count], "groupby_aggregate", M.count, method("count")),
        ("_var_agg: ddof dropped from the divisor (div = n)",
         [G.Var], "reduction_aggregate", staticmethod(mutate(legacy._var_agg, "div = n - ddof", "div = n")),
         lambda c: method("var", "std")(c) and c["funcs"][0]["p"] == 1),
        ("_apply_chunk: dropna not passed to the per-partition groupby (dropped keyword)",
         [G], "_apply_chunk", mutate(legacy._apply_chunk, "g = _groupby_raise_unaligned(df, by=by, **observed, **dropna)",
                                     "g = _groupby_raise_unaligned(df, by=by, **observed)"),
         lambda c: method("sum", "max", "size", "first")(c) and not c["dropna"]),
        ("_cumcount_aggregate: off by one when carrying the count into the next partition (+ 1 dropped)",
         [G.GroupByCumcount], "aggregate", staticmethod(mutate(legacy._cumcount_aggregate, "a.add(b, fill_value=fill_value) + 1", "a.add(b, fill_value=fill_value)")),
         lambda c: c["fam"] == "xf" and c["op"] == "cumcount"),
        ("_cum_agg_aligned: groups absent from the earlier partitions start from 0 instead of the neutral element",
         [G], "_cum_agg_aligned", mutate(legacy._cum_agg_aligned, "fill_value=initial", "fill_value=0"),
         lambda c: c["fam"] == "xf" and c["op"] == "cumprod"),
        ("_mean_agg: sums divided by the sums (count columns taken from the first half)",
         [G.Mean], "reduction_aggregate", staticmethod(mutate(G._mean_agg, "c = result[result.columns[len(result.columns) // 2 :]]",
                                                              "c = result[result.columns[: len(result.columns) // 2]]")),
         method("mean")),
    ]
    ok = True
    for what, targets, attr, mut, pred in mutants:
        items = items_for(pred)
        base = new_violations(items)
        with patched(targets, attr, mut):
            got = new_violations(items)
        good = not base and len(got) > 0 and len(items) > 0
        ok = ok and good
        print("selftest C38 mutant [%s]: %s (%d evaluations of %d cases flagged, e.g. %s; unmutated: %d)"
              % (what, "DETECTED" if good else "MISSED", len(got), len(items), got[0][0] if got else "-", len(base)))
    # (ii) corrupted recorded fields are rejected by the trace specification
    recs, i = [], 0
    while len(recs) < 32 and i < 600:
        case = random_case(rng)
        i += 1
        if 0 in case["layout"] or case["cats"] or not case["dexp"] or case["variant"].get("so", "default") not in ("default", 1):
            continue
        if case["fam"] == "agg" and {fn["f"] for fn in case["funcs"]} & {"idxmin", "idxmax", "nunique", "first", "last"}:
            continue
        if case["fam"] == "xf" and case["op"] not in ("cumcount", "shift", "cumsum"):
            continue
        r = _record((i, case))
        if r is not None and r["obs"]["raised"] == "" and len(r["obs"]["gk"]) >= 2 and r["obs"]["close"]:
            recs.append(r)
    corrupt = []
    for j, r in enumerate(recs):
        c = copy.deepcopy(r)
        o = c["obs"]
        kind = j % 4
        if kind == 0:          # one value of the recorded table changed
            cell = o["v"][-1][-1]
            o["v"][-1][-1] = [cell[0] + 1, max(1, cell[1])]
            c["want"] = "Content"
        elif kind == 1:        # a group / row of the result was lost
            o["gk"], o["v"] = o["gk"][:-1], o["v"][:-1]
            c["want"] = "Groups"
        elif kind == 2:        # a result column was relabelled
            o["cl"][0]["f"] = o["cl"][0]["f"] + "x"
            c["want"] = "Columns"
        else:                  # two keys swapped their rows (values attached to the wrong group)
            o["gk"][0], o["gk"][-1] = o["gk"][-1], o["gk"][0]
            c["want"] = "Content" if o["v"][0] != o["v"][-1] else ""
        c["id"] = "x" + r["id"]
        corrupt.append(c)
    corrupt = [c for c in corrupt if c["want"]]
    spec, cfg = ctx.model(ctx.spec("frame", "GroupByTrace.tla"), {})
    rej = ctx.tlc_validate(spec, recs + corrupt, cfg)
    rej0 = {k: v for k, v in rej.items() if not k.startswith("x")}
    byid = {r["id"]: r for r in recs}
    known_rej = {k for k in rej0 if classify(case_of_record(byid[k]), byid[k]["layout"], rej0[k][0].strip('{}" ').split('"')[0],
                                             variant_of_record(byid[k])) in known}
    clean = [r for r in recs if r["id"] not in rej0]
    corrupt = [c for c in corrupt if c["id"][1:] not in rej0]
    missed = [c["id"] for c in corrupt if c["id"] not in rej or c["want"] not in rej[c["id"]][0]]
    good = bool(clean) and not missed and not (set(rej0) - known_rej)
    ok = ok and good
    print("selftest C38 trace: %d recorded calls accepted (%d rejected before corruption, %d of them known findings); %d corrupted copies "
          "(value / lost group / relabelled column / rows attached to the wrong key) -> %d rejected with the expected clause: %s"
          % (len(clean), len(rej0), len(known_rej), len(corrupt), len(corrupt) - len(missed), "DETECTED" if good else "MISSED %r" % missed[:3]))
    print("C38 selftest: %s" % ("ok" if ok else "FAILED"))
    return 0 if ok else 1
