"""C46 - window, cumulative and shift operations are seamless across partitions.

spec -> code: TLC enumerates (specs/frame/WindowsMC.tla) lanes of <= 7 rows over {0, 1, 2, NA} (every lane, plus
every cyclic value pattern carrying one or two NaN runs) x the operations of six families - rolling(window,
min_periods, center).{sum,min,max,count,mean} with fixed windows, rolling("<w>D", min_periods) over a DatetimeIndex with
gaps, cumsum/cumprod/cummin/cummax(skipna), shift(k), diff(k),
ffill/bfill(limit), map_overlap(before, after) with a neighbour-identifying stencil - together with the rows the
TLA+ reference semantics of specs/frame/Windows.tla demands on the UNPARTITIONED lane (exact rationals), and ALL
partitionings of n rows into <= 4 consecutive partitions (empty ones included) with the divisions that describe
them.  The design check proves the reference local (reach = before / after rows), decomposable over every cut
and consistent with independent characterisations.  Every selected (case, partitioning) is run on a real dask
collection built with EXACTLY those partitions and divisions, every partition is computed through its own key,
and the concatenated rows must be the reference rows.
code -> spec: seeded random calls on larger frames (<= 11 rows, <= 5 partitions, wider windows) are recorded and
TLC decides every record (WindowsTrace.tla).  pandas is only the reference *guard*: a disagreement between the
TLA+ reference and pandas is a machinery error, never a violation.

Floats: a computed cell is replaced by the rational with a denominator <= 1000 next to it when it lies within
1e-9 * max(1, |x|) of it (pandas' rolling mean / sum are online algorithms with rounding residue); equality of
exact rationals then decides; anything else is logged as [1, 0], which equals no reference cell."""
from __future__ import annotations

import copy
import functools
import math
import warnings
from fractions import Fraction

from ..core import MachineryError
from ..divisions import parts_collection
from ..frameobs import CallTimeout, partitions_of, time_limit
from ..frames import dd, is_shim_error, split_rows
from ..par import pmap

META = {
    "title": "Window, cumulative and shift operations are seamless across partitions",
    "design_ref": "DESIGN.md §4.4 C46",
    "technique": "TLA+ reference semantics of pandas rolling / cumulative / shift / diff / fill / map_overlap on the unpartitioned "
                 "lane (exact rationals); TLC enumerates lanes x operations and all partitionings with truthful divisions and "
                 "proves the reference local and decomposable over every cut; replay into dask partition by partition + TLC "
                 "validation of recorded calls",
    "level_text": "Small-scope: lanes of <= 7 rows (quick 6) over {0,1,2,NA} - all of them and all cyclic patterns with one or two "
                  "NaN runs - x rolling(window 1..4, min_periods None/0..window, center).{sum,min,max,count,mean}, time-based "
                  "rolling('1D'..'5D', min_periods None/0..2) over a DatetimeIndex with gaps of 1..3 days, "
                  "cumsum/cumprod/cummin/cummax(skipna), shift and diff(periods -3..3), ffill/bfill(limit None/1..3), "
                  "map_overlap(before, after in 0..3) with a stencil whose value spells out which neighbours it read, on a Series "
                  "and on a two-column frame (int and float columns); a seeded stratified sample of that universe is exported by "
                  "TLC with the demanded rows and replayed on partitionings drawn from ALL <= 4-part partitionings (empty "
                  "partitions included) with known divisions; each partition is computed through its own key. Random larger "
                  "frames (<= 11 rows, <= 5 partitions, windows <= 6) are decided by TLC from recorded calls.",
    "level_note": "Trusted: TLC, the TLA+ reference (cross-checked against pandas on every case; a disagreement is a machinery "
                  "error, not a violation), harness.divisions.parts_collection to build the partitions, the projection of "
                  "results (index, cells as rationals with tolerance 1e-9, dtype class of non-empty partitions). The universe is "
                  "sampled (stratified, seeded), not exhausted. Integer windows wider than a neighbouring partition, and "
                  "ffill/bfill without limit over an all-NaN partition, are documented limitations of dask (NotImplementedError / "
                  "ValueError: skipped and counted). Time-based windows only with closed='right' and distinct timestamps; "
                  "var/std/median/apply, pct_change (absent in this version), groupby-rolling, time-based map_overlap and "
                  "unknown divisions are outside this check.",
}

NA = 99
FAMS = ["roll", "troll", "cum", "shift", "diff", "fill", "mapov"]
INVARIANTS = ["ShapeOK", "Local", "OverlapDecomposes", "CumDecomposes", "FillCarries", "FillMirror", "DiffIsSubShift",
              "ShiftMoves", "RollRelations", "TimeWindows", "StencilDecodes", "LayoutsTruthful"]
CASE_KEYS = ("fam", "op", "a", "b", "c", "s", "t", "vk", "u", "tgt")
NAN, OTHER = [0, 0], [1, 0]


# ----------------------------------------------------------------------------- case -> pandas / dask
def index_label(case, day):
    """The index label that stands for integer label `day`: itself, or a day of 2020 for the time-based windows."""
    import pandas as pd
    if case["fam"] == "troll":
        return pd.Timestamp("2020-01-01") + pd.Timedelta(days=int(day))
    return int(day)


def label_at(case, pos):
    """Label of row position pos (0-based); pos = n stands for 'one past the last label'."""
    t = case["t"]
    return index_label(case, t[pos] if pos < len(t) else t[-1] + 1)


def pandas_frame(case):
    import numpy as np
    import pandas as pd
    s, u = case["s"], case["u"]
    n = len(s)
    if case["vk"] == "i":
        v = np.array(s, dtype="i8")
    else:
        v = np.array([np.nan if c == NA else float(c) for c in s], dtype="f8")
    if case["fam"] == "troll":
        index = pd.DatetimeIndex([index_label(case, d) for d in case["t"]])
    else:
        index = pd.Index(np.array(case["t"]), dtype="i8")
    return pd.DataFrame({"rid": np.arange(n, dtype="i8"), "v": v, "u": np.array(u, dtype="i8")}, index=index)


def dask_frame(case, lay, divs):
    """divs are row POSITIONS (what WindowsMC!DivsOf exports): mapped to the labels of the case."""
    pdf = pandas_frame(case)
    return parts_collection(split_rows(pdf, lay), tuple(label_at(case, p) for p in divs),
                            key=("C46", case["fam"], case["s"], case["t"], case["u"], case["vk"], list(lay), list(divs)))


def stencil(df, bf=0, af=0, base=8):
    """The neighbour-identifying function of Windows!Stencil: digit q of the value of a row (base `base`) is
    rid + 1 of the row at offset q - bf in the frame the function was handed, 0 if there is no such row."""
    rid = df["rid"]
    out = rid * 0
    for q, off in enumerate(range(-bf, af + 1)):
        out = out + (rid.shift(-off, fill_value=-1) + 1) * base ** q
    return out.astype("int64").rename("st")


def apply_op(case, df, is_dask):
    """The call under test (df = dask frame) or the pandas reference call (df = pandas frame)."""
    fam, op, a, b, c = case["fam"], case["op"], case["a"], case["b"], case["c"]
    if fam == "mapov":
        fn = functools.partial(stencil, bf=a, af=b, base=len(case["s"]) + 1)
        if not is_dask:
            return fn(df)
        if case["tgt"] == "series":
            return df.map_overlap(fn, a, b, meta=("st", "i8"))
        return df.map_overlap(fn, a, b)                      # meta inferred by dask
    x = df["v"] if case["tgt"] == "series" else df[["v", "u"]]
    if fam == "roll":
        return getattr(x.rolling(a, min_periods=None if b == NA else b, center=bool(c)), op)()
    if fam == "troll":
        return getattr(x.rolling("%dD" % a, min_periods=None if b == NA else b), op)()
    if fam == "cum":
        return getattr(x, op)(skipna=bool(a))
    if fam == "shift":
        return x.shift(a)
    if fam == "diff":
        return x.diff(a)
    if fam == "fill":
        return getattr(x, op)(limit=None if a == NA else a)
    raise MachineryError("unknown family %r" % fam)


# ----------------------------------------------------------------------------- projection
def to_rat(x):
    try:
        x = float(x)
    except (TypeError, ValueError):
        return OTHER
    if math.isnan(x):
        return NAN
    if math.isinf(x) or abs(x) > 2 ** 30:
        return OTHER
    f = Fraction(x).limit_denominator(1000)
    if abs(float(f) - x) <= 1e-9 * max(1.0, abs(x)):
        return [f.numerator, f.denominator]
    return OTHER


def kind_of(dtypes):
    """dtype class of a result column from the dtypes of its NON-EMPTY partitions."""
    ks = set()
    for dt in dtypes:
        k = getattr(dt, "kind", "O")
        ks.add("i" if k in "iu" else "f" if k == "f" else "b" if k == "b" else "o")
    if not ks:
        return "i"              # nothing but empty partitions: nothing to say
    if ks <= {"i"}:
        return "i"
    if ks <= {"i", "f"}:
        return "f"
    return "o"


def int_label(v):
    import pandas as pd
    if isinstance(v, pd.Timestamp):                       # time-based windows: day number since 2020-01-01
        d = v - pd.Timestamp("2020-01-01")
        return int(d.days) if d == pd.Timedelta(days=d.days) else -1
    try:
        if float(v) == int(v):
            return int(v)
    except (TypeError, ValueError, OverflowError):
        pass
    return -1


def project(parts, case):
    """Computed partitions (pandas objects, partition order) -> observation of Windows!Verdict."""
    import pandas as pd
    frame = case["tgt"] == "frame" and case["fam"] != "mapov"
    idx, v, u, vd, ud = [], [], [], [], []
    for p in parts:
        if frame:
            if not isinstance(p, pd.DataFrame) or list(p.columns) != ["v", "u"]:
                return {"raised": "", "idx": [-1], "v": [], "vk": "o", "u": [], "uk": "o", "nparts": len(parts),
                        "shape": "partition is %s with columns %s" % (type(p).__name__, list(getattr(p, "columns", [])))}
            cv, cu = p["v"], p["u"]
        else:
            if not isinstance(p, pd.Series):
                return {"raised": "", "idx": [-1], "v": [], "vk": "o", "u": [], "uk": "-", "nparts": len(parts),
                        "shape": "partition is %s" % type(p).__name__}
            cv, cu = p, None
        idx += [int_label(x) for x in p.index.tolist()]
        v += [to_rat(x) for x in cv.tolist()]
        if len(p):
            vd.append(cv.dtype)
        if cu is not None:
            u += [to_rat(x) for x in cu.tolist()]
            if len(p):
                ud.append(cu.dtype)
    return {"raised": "", "idx": idx, "v": v, "vk": kind_of(vd), "u": u, "uk": kind_of(ud) if frame else "-", "nparts": len(parts)}


def expected_obs(case, exp):
    """The exported Expected(c) in the shape of an observation (frame target of mapov = a Series)."""
    frame = case["tgt"] == "frame" and case["fam"] != "mapov"
    return {"idx": list(exp["idx"]), "v": [list(x) for x in exp["v"]], "vk": exp["vk"],
            "u": [list(x) for x in exp["u"]] if frame else [], "uk": exp["uk"] if frame else "-"}


def pandas_reference(case):
    with warnings.catch_warnings():
        warnings.simplefilter("ignore")
        res = apply_op(case, pandas_frame(case), False)
    o = project([res], case)
    return {k: o[k] for k in ("idx", "v", "vk", "u", "uk")}


LIMITATIONS = [            # (family, exception type, message fragment): documented limitations of dask, skipped and counted
    ("fill", "ValueError", "All NaN partition encountered in `fillna`"),
]


def run_dask(case, lay, divs, limit=60):
    """-> observation, or {"skip": reason}."""
    try:
        with time_limit(limit), warnings.catch_warnings():
            warnings.simplefilter("ignore")
            coll = apply_op(case, dask_frame(case, lay, divs), True)
            declared = int(coll.npartitions)
            obs = project(partitions_of(coll), case)
            obs["declared"] = declared
            return obs
    except NotImplementedError as ex:
        return {"skip": "NotImplementedError: " + str(ex)[:70]}
    except CallTimeout:
        return {"raised": "CallTimeout", "idx": [], "v": [], "vk": "-", "u": [], "uk": "-", "msg": "no result in time"}
    except Exception as ex:  # noqa: BLE001 - every other exception is an observation
        if is_shim_error(ex):
            return {"skip": "pyarrow shim"}
        for fam, tp, frag in LIMITATIONS:
            if case["fam"] == fam and type(ex).__name__ == tp and frag in str(ex):
                return {"skip": "%s: %s" % (tp, frag)}
        return {"raised": type(ex).__name__, "idx": [], "v": [], "vk": "-", "u": [], "uk": "-", "msg": str(ex)[:200]}


def kind_ok(want, got):
    return got == want or (want == "f" and got == "i")


def judge(case, exp, obs):
    """Python mirror of Windows!Verdict -> list of failing clauses."""
    e = expected_obs(case, exp)
    if obs["raised"]:
        return ["Raise"]
    out = []
    if obs["idx"] != e["idx"]:
        out.append("Rows")
    if obs["v"] != e["v"]:
        out.append("Vals")
    if not kind_ok(e["vk"], obs["vk"]):
        out.append("Kind")
    if case["tgt"] == "frame" and case["fam"] != "mapov":
        if obs["u"] != e["u"]:
            out.append("ValsU")
        if not kind_ok(e["uk"], obs["uk"]):
            out.append("KindU")
    return out


# ----------------------------------------------------------------------------- reach, layouts
def reach(case):
    """(before, after) rows a partition needs from its neighbours; None = unbounded (cumulatives, fills without limit)."""
    fam, a, b, c = case["fam"], case["a"], case["b"], case["c"]
    if fam == "roll":
        return (a // 2, a - a // 2 - 1) if c else (a - 1, 0)
    if fam == "troll":
        return None                     # bounded in time, not in rows: dask looks back over as many partitions as needed
    if fam in ("shift", "diff"):
        return (max(0, a), max(0, -a))
    if fam == "fill":
        if a == NA:
            return None
        return (a, 0) if case["op"] == "ffill" else (0, a)
    if fam == "mapov":
        return (a, b)
    return None


def supported(case, lay):
    """dask documents: the partitions must hold at least `before` (all but the last) / `after` (all but the first) rows."""
    r = reach(case)
    if r is None:
        return True
    bf, af = r
    return all(x >= bf for x in lay[:-1]) and all(x >= af for x in lay[1:])


def pick_layouts(case, layouts, rng, k):
    """k partitionings for a case: mostly ones dask supports for the operation's reach, with >= 2 partitions."""
    n = len(case["s"])
    multi = [L for L in layouts[n] if len(L["lay"]) >= 2]
    sup = [L for L in multi if supported(case, L["lay"])]
    nonempty = [L for L in sup if 0 not in L["lay"]]
    out = []
    for i in range(k):
        r = rng.random()
        pool = nonempty if (r < 0.6 and nonempty) else sup if (r < 0.9 and sup) else multi
        if not pool:
            pool = layouts[n]
        out.append(rng.choice(pool))
    uniq = []
    for L in out:
        if L not in uniq:
            uniq.append(L)
    return uniq


# ----------------------------------------------------------------------------- classification
def classify(case, lay, clauses, obs):
    """Signature of a violation = operation class, target and the structural feature of the input that selects the
    code path - never concrete numbers, never the way it shows (wrong cells or an exception: one root cause shows
    both ways).  First matching feature wins."""
    fam, op, tgt = case["fam"], case["op"], case["tgt"]
    s = case["s"]
    parts, pos = [], 0
    for m in lay:
        parts.append(s[pos:pos + m])
        pos += m
    dtype_only = not obs.get("raised") and set(clauses) <= {"Kind", "KindU"}
    if fam == "cum":
        grp = "cumminmax" if op in ("cummin", "cummax") else "cumsumprod"
        if dtype_only:
            feat = "int-to-float"
        elif 0 in lay:
            feat = "empty-partition"
        elif case["a"] == 0 and NA in s:
            feat = "skipna-false"
        elif any(p and all(c == NA for c in p) for p in parts[:-1]):
            feat = "all-na-partition"
        elif NA in s:
            feat = "na"
        else:
            feat = "plain"
        return "cum:%s:%s:%s" % (grp, tgt, feat)
    r = reach(case)
    if dtype_only:
        feat = "dtype"
    elif r is not None and not supported(case, lay):
        feat = "partition-smaller-than-reach"
    elif 0 in lay:
        feat = "empty-partition"
    else:
        feat = "plain"
    if fam == "roll":
        return "roll:%s:%s:%s" % ("center" if case["c"] else "trailing", tgt, feat)
    if fam == "troll":
        return "roll:time-based:%s:%s" % (tgt, feat)
    if fam in ("shift", "diff"):
        return "%s:%s:%s:%s" % (fam, "forward" if case["a"] > 0 else "backward" if case["a"] < 0 else "zero", tgt, feat)
    if fam == "fill":
        return "fill:%s:%s:%s:%s" % (op, "nolimit" if case["a"] == NA else "limit", tgt, feat)
    return "mapov:%s:%s" % ("meta-given" if tgt == "series" else "meta-inferred", feat)


# ----------------------------------------------------------------------------- the case loop
def _work(item):
    case, exp, lays = item
    try:
        ref = pandas_reference(case)
    except Exception as ex:  # noqa: BLE001
        return [("GUARD", None, "pandas raised %s: %s" % (type(ex).__name__, ex))]
    want = expected_obs(case, exp)
    if ref != want:
        return [("GUARD", None, {"pandas": ref, "spec": want})]
    res = []
    for L in lays:
        obs = run_dask(case, L["lay"], L["divs"])
        if "skip" in obs:
            res.append(("SKIP", L, obs["skip"]))
            continue
        cl = judge(case, exp, obs)
        res.append((cl, L, obs if cl else None))
    return res


def nontrivial(case, lay):
    return sum(1 for x in lay if x > 0) >= 2


def check_cases(ctx, items, on_violation=None, count=True):
    """items: [(case, expected, [layout records])].  Runs dask, judges, reports.  Returns number of evaluations."""
    nev = 0
    results = pmap(_work, items, chunk=16)
    for (case, exp, _l), res in zip(items, results):
        for cl, L, detail in res:
            if cl == "GUARD":
                raise MachineryError("TLA+ reference disagrees with pandas on %r: %r" % (case, detail))
            if cl == "SKIP":
                if count:
                    ctx.skip(detail)
                continue
            nev += 1
            if count:
                ctx.count((case, L["lay"]), nontrivial(case, L["lay"]))
            if cl:
                sig = classify(case, L["lay"], cl, detail)
                what = "%s: dask disagrees with the reference on %s.%s (partitions %s)" % ("+".join(cl), case["fam"], case["op"], L["lay"])
                rep = {"case": case, "expected": exp, "layout": L, "clauses": cl, "observed": detail}
                if on_violation is not None:
                    on_violation(sig, cl, case, L)
                else:
                    ctx.violation(sig, what, rep)
    return nev


# ----------------------------------------------------------------------------- TLC enumeration
def quotas(ctx, maxn, scale):
    base = {"roll": 800, "troll": 300, "cum": 500, "shift": 200, "diff": 200, "fill": 350, "mapov": 250}
    wn = {1: 0.02, 2: 0.04, 3: 0.08, 4: 0.16, 5: 0.3, 6: 0.4, 7: 0.45}
    if maxn >= 7:
        wn = {1: 0.01, 2: 0.03, 3: 0.06, 4: 0.12, 5: 0.2, 6: 0.28, 7: 0.3}
    return {uv: {f: {n: max(1, int(scale * base[f] * wn[n] * (0.7 if uv == "all" else 0.3))) for n in range(1, maxn + 1)} for f in FAMS}
            for uv in ("all", "runs")}


def enumerate_cases(ctx, maxn, scale, label="design+cases", bounds=None):
    b = dict(MaxW=4, MaxP=3, MaxLim=3, MaxOv=3, MaxParts=4)
    b.update(bounds or {})
    consts = dict(b, MaxN=maxn, Quota=quotas(ctx, maxn, scale), Salt=ctx.rng.randrange(1, 99991), Slices=4)
    spec, cfg = ctx.model(ctx.spec("frame", "WindowsMC.tla"), consts, invariants=INVARIANTS)
    exported, _ = ctx.tlc_cases(spec, cfg, label=label, timeout=2400)
    layouts = {c["c"]["n"]: c["e"] for c in exported if c["c"]["fam"] == "layouts"}
    cases = [c for c in exported if c["c"]["fam"] != "layouts"]
    cases.sort(key=lambda c: repr(sorted(c["c"].items())))          # TLC's dump order depends on the worker interleaving
    return cases, layouts


# ----------------------------------------------------------------------------- code -> spec
def weak_comp(rng, n, m):
    cuts = sorted(rng.randint(0, n) for _ in range(m - 1))
    return [b - a for a, b in zip([0] + cuts, cuts + [n])]


def divs_of(n, lay):
    out, pos = [], 0
    for m in lay:
        out.append(pos)
        pos += m
    out.append(n - 1 if lay[-1] > 0 else n)
    return out


def random_case(rng):
    n = rng.randint(7, 11)
    s, i = [], 0
    while len(s) < n:
        if rng.random() < 0.25:
            s += [NA] * rng.randint(1, 4)
        else:
            s.append(rng.randint(0, 3))
    s = s[:n]
    fam = rng.choice(["roll", "roll", "troll", "cum", "cum", "shift", "diff", "fill", "fill", "mapov"])
    a = b = c = 0
    t = list(range(n))
    if fam == "troll":
        op = rng.choice(["sum", "min", "max", "count", "mean"])
        a = rng.randint(1, 7)
        b = rng.choice([NA, NA, 0, 1, 2, 3])
        t = [0]
        for _ in range(n - 1):
            t.append(t[-1] + rng.randint(1, 4))
    elif fam == "roll":
        op = rng.choice(["sum", "min", "max", "count", "mean"])
        a = rng.randint(1, 6)
        b = rng.choice([NA, NA] + list(range(0, a + 1)))
        c = rng.randint(0, 1)
    elif fam == "cum":
        op = rng.choice(["cumsum", "cumprod", "cummin", "cummax"])
        a = rng.randint(0, 1)
    elif fam in ("shift", "diff"):
        op = fam
        a = rng.randint(-5, 5)
    elif fam == "fill":
        op = rng.choice(["ffill", "bfill"])
        a = rng.choice([NA, 1, 2, 3, 4])
    else:
        op = "stencil"
        a, b = rng.randint(0, 3), rng.randint(0, 2)
    case = {"fam": fam, "op": op, "a": a, "b": b, "c": c, "s": s, "t": t, "vk": "f" if (NA in s or rng.random() < 0.3) else "i",
            "u": [rng.randint(0, 3) for _ in range(n)], "tgt": rng.choice(["series", "frame"])}
    lay = None
    for _ in range(40):
        lay = weak_comp(rng, n, rng.randint(2, 5))
        if supported(case, lay) and (0 not in lay or rng.random() < 0.3):
            break
    return case, {"lay": lay, "divs": divs_of(n, lay)}


def _record(item):
    i, (case, L) = item
    obs = run_dask(case, L["lay"], L["divs"])
    if "skip" in obs:
        return {"skip": obs["skip"]}
    o = {k: obs[k] for k in ("raised", "idx", "v", "vk", "u", "uk")}
    return dict(case, id="r%d" % i, lay=L["lay"], divs=L["divs"], obs=o, msg=obs.get("msg", ""))


def clauses_of(text):
    return [c for c in ("Raise", "Rows", "ValsU", "Vals", "KindU", "Kind") if '"%s"' % c in text]


def validate_records(ctx, recs, label="trace-validation"):
    """-> {id: clauses} for rejected records (one TLC run)."""
    spec, cfg = ctx.model(ctx.spec("frame", "WindowsTrace.tla"), {})
    rej = ctx.tlc_validate(spec, [{k: v for k, v in r.items() if k != "msg"} for r in recs], cfg, label=label, timeout=2400)
    return {rid: clauses_of(" ".join(texts)) or ["Rejected"] for rid, texts in rej.items()}


# ----------------------------------------------------------------------------- run
def run(ctx):
    dd()
    rng = ctx.rng
    maxn = ctx.pick(6, 7)
    cases, layouts = enumerate_cases(ctx, maxn, ctx.pick(1.0, 12.0))
    ctx.extra["cases_enumerated_by_tlc"] = len(cases)
    ctx.extra["layouts_enumerated_by_tlc"] = {str(n): len(v) for n, v in sorted(layouts.items())}
    k = ctx.pick(2, 3)
    items = [(c["c"], c["e"], pick_layouts(c["c"], layouts, rng, k)) for c in cases]
    nev = check_cases(ctx, items)
    ctx.extra["spec_to_code_evaluations"] = nev
    for fam in ("roll", "troll", "cum", "fill", "mapov"):
        ex = next((it for it in items if it[0]["fam"] == fam and len(it[0]["s"]) >= 5), None)
        if ex:
            ctx.sample({"case": ex[0], "expected_rows": ex[1]["v"], "partitionings": [L["lay"] for L in ex[2]]})
    # code -> spec
    nrec = ctx.pick(500, 12000)
    pairs = [random_case(rng) for _ in range(nrec)]
    recs = []
    for r in pmap(_record, list(enumerate(pairs)), chunk=16):
        if "skip" in r:
            ctx.skip(r["skip"])
        else:
            recs.append(r)
    byid = {r["id"]: r for r in recs}
    for lo in range(0, len(recs), 6000):
        part = recs[lo:lo + 6000]
        rej = validate_records(ctx, part)
        for r in part:
            ctx.count(("rec", {k: r[k] for k in CASE_KEYS + ("lay",)}), nontrivial(r, r["lay"]))
        for rid, cl in rej.items():
            r = byid[rid]
            case = {k: r[k] for k in CASE_KEYS}
            ctx.violation(classify(case, r["lay"], cl, r["obs"]),
                          "TLC rejects a recorded %s.%s call (%s, partitions %s)" % (r["fam"], r["op"], "+".join(cl), r["lay"]),
                          {"record": r, "clauses": cl})
    if recs:
        ctx.sample({"recorded_call": {k: recs[0][k] for k in ("fam", "op", "a", "b", "c", "s", "tgt", "lay", "divs")}, "observed": recs[0]["obs"]})
    if sum(ctx.skipped.values()) > (nev + len(recs)):
        raise MachineryError("more cases skipped than judged: %r" % ctx.skipped)
    ctx.exhaustive = False
    ctx.rule = ("cases = TLC-exported (lane, operation, target, dtype class) with the demanded rows x partitionings drawn from the "
                "TLC-exported set of all <= 4-part partitionings with truthful divisions, plus recorded random calls on larger "
                "frames; non-trivial = at least two non-empty partitions; distinct by (case, partitioning)")
    ctx.assumptions = ["pandas kernels applied per partition are correct", "TLC evaluates the reference semantics correctly",
                       "parts_collection builds exactly the given partitions and divisions",
                       "float cells within 1e-9 of a rational with denominator <= 1000 are that rational"]


# ----------------------------------------------------------------------------- replay
def replay(ctx, obj):
    dd()
    c = obj["case"]
    if "record" in c:
        r = c["record"]
        case = {k: r[k] for k in CASE_KEYS}
        rec = _record((int(r["id"][1:]), (case, {"lay": r["lay"], "divs": r["divs"]})))
        if "skip" in rec:
            print("skipped:", rec["skip"])
            return False
        rej = validate_records(ctx, [rec], label="replay")
        print("record:", {k: rec[k] for k in ("fam", "op", "a", "b", "c", "s", "tgt", "lay")}, "\nobserved:", rec["obs"], rec["msg"], "\nrejected:", rej)
        return bool(rej)
    case, exp, L = c["case"], c["expected"], c["layout"]
    ref = pandas_reference(case)
    if ref != expected_obs(case, exp):
        raise MachineryError("TLA+ reference disagrees with pandas: %r vs %r" % (ref, expected_obs(case, exp)))
    obs = run_dask(case, L["lay"], L["divs"])
    if "skip" in obs:
        print("skipped:", obs["skip"])
        return False
    cl = judge(case, exp, obs)
    print("case:", case, "\npartitions:", L, "\nexpected:", expected_obs(case, exp), "\nobserved:", obs, "\nclauses:", cl)
    return bool(cl)


# ----------------------------------------------------------------------------- selftest
def selftest(ctx):
    """Binding demonstration: in-memory mutants of the anchored dask functions must be reported on a small case set (and the
    unmutated code must not be, beyond the known findings); corrupted recorded fields must be rejected by the trace spec."""
    from ..divisions import mutate, patched_attr as patched
    dd()
    import dask.dataframe.dask_expr._cumulative as cum
    import dask.dataframe.dask_expr._expr as ex
    import dask.dataframe.dask_expr._rolling as rol
    import dask.dataframe.rolling as legacy
    rng = ctx.rng
    cases, layouts = enumerate_cases(ctx, 5, 0.25, label="selftest cases")
    known = set(ctx.known)

    def items_for(pred, limit=50):
        sel = [c for c in cases if pred(c["c"]) and len(c["c"]["s"]) >= 4]
        sel = rng.sample(sel, min(limit, len(sel)))
        out = []
        for c in sel:
            n = len(c["c"]["s"])
            pool = [L for L in layouts[n] if len(L["lay"]) >= 2 and 0 not in L["lay"] and supported(c["c"], L["lay"])]
            if pool:
                out.append((c["c"], c["e"], rng.sample(pool, min(2, len(pool)))))
        return out

    def new_violations(items):
        found = []
        check_cases(ctx, items, on_violation=lambda sig, cl, case, L: found.append(sig), count=False)
        return [s for s in found if s not in known]

    mutants = [
        ("RollingReduction._lower: trailing window shares window - 2 rows instead of window - 1 (boundary off by one)",
         [rol.RollingReduction], "_lower", mutate(vars(rol.RollingReduction)["_lower"], "before = self.window - 1", "before = max(self.window - 2, 0)"),
         lambda c: c["fam"] == "roll" and c["c"] == 0 and c["a"] >= 2),
        ("RollingReduction._lower: centered window split the wrong way round (before / after swapped)",
         [rol.RollingReduction], "_lower", mutate(vars(rol.RollingReduction)["_lower"], "before = self.window // 2\n        after = self.window - before - 1",
                                                  "after = self.window // 2\n        before = self.window - after - 1"),
         lambda c: c["fam"] == "roll" and c["c"] == 1 and c["a"] in (2, 4)),
        ("CumulativeFinalize._layer: carry of partition i taken from partition i - 1 only (accumulation branch dropped)",
         [cum.CumulativeFinalize], "_layer", mutate(vars(cum.CumulativeFinalize)["_layer"], "if i == 1:", "if i >= 1:"),
         lambda c: c["fam"] == "cum" and c["op"] in ("cumsum", "cumprod") and NA not in c["s"]),
        ("TakeLast.operation: last row taken without forward fill (a trailing NaN loses the carry)",
         [cum.TakeLast], "operation", staticmethod(mutate(vars(cum.TakeLast)["operation"].__func__, "a = a.ffill()", "a = a")),
         lambda c: c["fam"] == "cum" and c["a"] == 1 and NA in c["s"] and c["op"] in ("cumsum", "cumprod")),
        ("Shift.before: one row too few shared with the previous partition",
         [ex.Shift], "before", property(lambda self: max(0, self.periods - 1))),
        ("overlap_chunk: trailing `after` rows trimmed one short (iloc[before:-after] -> iloc[before:-after + 1 or None])",
         [ex], "overlap_chunk", mutate(legacy.overlap_chunk, "return out.iloc[before:-after]", "return out.iloc[before:(-after + 1) or None]")),
        ("FFill.before: limit - 1 rows shared instead of limit",
         [ex.FFill], "before", property(lambda self: 1 if self.limit is None else max(self.limit - 1, 0))),
        ("_tail_timedelta: look-back measured from the LAST row of the partition instead of the first (wrong operand)",
         [ex], "_tail_timedelta", mutate(ex._tail_timedelta, "prev.index > (current.index.min() - before)", "prev.index > (current.index.max() - before)")),
    ]
    preds = {4: lambda c: c["fam"] == "shift" and c["a"] > 0,
             5: lambda c: (c["fam"] in ("shift", "diff") and c["a"] < 0) or (c["fam"] == "mapov" and c["b"] > 0) or (c["fam"] == "roll" and c["c"] == 1 and c["a"] >= 3),
             6: lambda c: c["fam"] == "fill" and c["op"] == "ffill" and c["a"] not in (NA,),
             7: lambda c: c["fam"] == "troll" and c["op"] in ("sum", "count", "max") and c["a"] >= 2}
    ok = True
    for i, m in enumerate(mutants):
        what, targets, attr, mut = m[:4]
        pred = m[4] if len(m) > 4 else preds[i]
        items = items_for(pred)
        base = new_violations(items)
        with patched(targets, attr, mut):
            got = new_violations(items)
        good = not base and len(got) > 0
        ok = ok and good
        print("selftest C46 mutant [%s]: %s (%d of %d evaluations flagged, e.g. %s; unmutated code: %d)"
              % (what, "DETECTED" if good else "MISSED", len(got), sum(len(it[2]) for it in items), got[0] if got else "-", len(base)))
    # (ii) corrupted recorded fields are rejected by the trace specification
    recs, i = [], 0
    while len(recs) < 40 and i < 600:
        case, L = random_case(rng)
        i += 1
        if 0 in L["lay"]:
            continue
        r = _record((i, (case, L)))
        if "skip" not in r and r["obs"]["raised"] == "" and not clauses_known(ctx, case, L, r):
            recs.append(r)
    corrupt = []
    for j, r in enumerate(recs):
        c = copy.deepcopy(r)
        o = c["obs"]
        kind = j % 4
        if kind == 0:                       # one cell of the recorded result changed
            cell = o["v"][len(o["v"]) // 2]
            o["v"][len(o["v"]) // 2] = [1, 1] if cell == NAN else [cell[0] + cell[1], cell[1]]
            c["want"] = "Vals"
        elif kind == 1:                     # a row dropped
            o["idx"], o["v"] = o["idx"][:-1], o["v"][:-1]
            c["want"] = "Rows"
        elif kind == 2:                     # two neighbouring rows swapped (labels and cells)
            o["idx"][0], o["idx"][1] = o["idx"][1], o["idx"][0]
            c["want"] = "Rows"
        else:                               # result reported as another dtype class
            o["vk"] = "o"
            c["want"] = "Kind"
        c["id"] = "x%d" % j
        corrupt.append(c)
    rej = validate_records(ctx, [{k: v for k, v in r.items() if k != "want"} for r in recs + corrupt], label="selftest records")
    genuine_rejected = [r["id"] for r in recs if r["id"] in rej]
    print("selftest C46 trace: %d genuine records, rejected: %d -> %s" % (len(recs), len(genuine_rejected), "ok" if not genuine_rejected else "UNEXPECTED"))
    ok = ok and not genuine_rejected and len(recs) >= 10
    for name in ("Vals", "Rows", "Kind"):
        mine = [c for c in corrupt if c["want"] == name]
        hit = [c for c in mine if name in rej.get(c["id"], [])]
        print("selftest C46 corrupted record [%s clause]: %d of %d rejected -> %s" % (name, len(hit), len(mine), "REJECTED" if mine and len(hit) == len(mine) else "MISSED"))
        ok = ok and bool(mine) and len(hit) == len(mine)
    print("selftest C46: %s" % ("all binding demonstrations hold" if ok else "FAILED"))
    return 0 if ok else 1


def clauses_known(ctx, case, L, rec):
    """True if the unmutated code already violates the property on this record for a recorded known finding
    (such records cannot serve as 'genuine' records of the trace selftest)."""
    exp = None
    try:
        ref = pandas_reference(case)
    except Exception:  # noqa: BLE001
        return True
    o = rec["obs"]
    frame = case["tgt"] == "frame" and case["fam"] != "mapov"
    same = o["idx"] == ref["idx"] and o["v"] == ref["v"] and kind_ok(ref["vk"], o["vk"]) and \
        (not frame or (o["u"] == ref["u"] and kind_ok(ref["uk"], o["uk"])))
    del exp
    return not same
