"""C03 - Intermediate results are never released early and never leaked.  See harness/schedrun.py (shared by C01-C04) and specs/sched/LocalScheduler*.tla."""
from .. import schedrun as R

META = dict(R.META_COMMON, title="Intermediate results are never released early and never leaked", level_text="TLC model-checks NoEarlyRelease/HeldWhileNeeded/NoLeak on all interleavings; replay compares cache keys, released and waiting_data after every callback with the model; real pool traces validated by TLC with the same predicates evaluated at every step.")


def run(ctx):
    R.run_property(ctx, "C03")


def replay(ctx, obj):
    return R.replay_case(ctx, "C03", obj)


def selftest(ctx):
    return R.selftest_property(ctx, "C03")
