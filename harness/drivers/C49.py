"""C49 - bag sampling returns valid samples reproducibly.

specs/bag/BagSample.tla states which results are samples at all (sample: a sub-multiset of the
population with min(k, n) elements; choices: k elements of the population; random_sample: a
subsequence) and the determinism registry (one result per (population, partitioning, prob,
random_state), whatever the scheduler and however often it is recomputed).  BagSampleMC.tla
enumerates every population over {0..3} up to a length bound x k in 0..8 and all partitionings
(design check: the contracts are satisfiable and closed under partition-wise sampling);
BagSampleRegMC.tla model-checks the registry as a state machine.  Every real call - each
enumerated case under seeded partitionings / split_every / global random seeds, random larger
bags, and the run groups of the registry on the sync, threaded and multiprocessing schedulers -
is recorded and decided by TLC (BagSampleTrace.tla)."""
from __future__ import annotations

import itertools
import random
from fractions import Fraction

from ..core import TLA, MachineryError
from ..par import pmap

META = {
    "title": "Bag sampling returns valid samples reproducibly",
    "design_ref": "DESIGN.md §4.5 C49",
    "technique": "TLA+ contracts of sample / choices / random_sample and a determinism registry; TLC enumerates all small "
                 "populations x k and all partitionings, model-checks the registry state machine; every real call and every "
                 "registry run group is validated by TLC",
    "level_text": "Small-scope: TLC enumerates every population over {0,1,2,3} of length <= 4 (thorough 6; duplicates included) x "
                  "{sample, choices} x k in 0..8 and every partitioning into <= 4 partitions (empty ones included), proving the "
                  "contracts satisfiable and closed under partition-wise sampling; the registry is model-checked as a state machine "
                  "(with a deliberately broken twin that must violate reproducibility). dask is run on a seeded selection of (case, "
                  "partitioning, split_every in {None,2,3}, global random seed) plus all populations of length <= 1 x all "
                  "partitionings x all k, on random larger bags, and random_sample(prob, random_state) is run per registry key on the "
                  "sync and threaded schedulers, recomputed and rebuilt (and on the multiprocessing scheduler for a subset); TLC "
                  "decides every record.",
    "level_note": "Trusted: TLC, the projection of results to lists of ints, Python's random module. Nothing is decided about "
                  "probabilities (uniformity of the samples). For sample(k > n) the statement says 'all of b' while the code base "
                  "documents ValueError('Sample larger than population') (pinned test, same as random.sample): both outcomes are "
                  "accepted, nothing else. sample/choices draw from the global `random` module, so their reproducibility is not "
                  "promised and not demanded; the registry covers random_sample with an int or random.Random state.",
}

SES = [None, 2, 3]


def split_by(s, layout):
    out, pos = [], 0
    for n in layout:
        out.append(list(s[pos:pos + n]))
        pos += n
    return out


_CNT = itertools.count()


def mkbag(parts, how="graph"):
    import dask.bag as db
    name = "pop%d" % next(_CNT)
    if how == "graph":
        return db.Bag({(name, i): list(p) for i, p in enumerate(parts)}, name, len(parts))
    from dask import delayed
    return db.from_delayed([delayed(list(p), name="%s-%d" % (name, i), traverse=False) for i, p in enumerate(parts)])


def _plain(v):
    v = list(v)
    if not all(type(x) is int for x in v):
        raise TypeError("non-int element in %r" % (v,))
    return v


def observe(call):
    """call: {kind, parts, k | prob, se, seed, ctor}.  Returns obs = {raised, exc, v[, msg]}."""
    import dask.bag.random as BR
    kind = call["kind"]
    try:
        b = mkbag(call["parts"], call.get("ctor", "graph"))
        if kind in ("sample", "choices"):
            random.seed(call["seed"])
            r = getattr(BR, kind)(b, k=call["k"], split_every=call["se"])
        else:
            r = b.random_sample(float(Fraction(*call["prob"])), call["seed"])
        v = _plain(r.compute(scheduler="sync"))
        return {"raised": False, "exc": "", "v": v}
    except NotImplementedError as ex:
        return {"skip": "NotImplementedError: " + str(ex)[:60]}
    except BaseException as ex:  # noqa: BLE001 - also StopIteration etc.: every exception is an observation
        if isinstance(ex, (KeyboardInterrupt, SystemExit, MachineryError)):
            raise
        return {"raised": True, "exc": type(ex).__name__, "v": [], "msg": "%s: %s" % (type(ex).__name__, str(ex)[:120])}


# ---------------------------------------------------------------- Python twin of the contracts (guards the TLC verdict)

def _subbag(a, b):
    return all(a.count(x) <= b.count(x) for x in a)


def _subseq(a, b):
    it = iter(b)
    return all(any(x == y for y in it) for x in a)


def py_bad(rec):
    pop = [x for p in rec["parts"] for x in p]
    kind = rec["kind"]
    if kind == "registry":
        runs = rec["runs"]
        bad = set()
        if not all(r["raised"] == runs[0]["raised"] and r["v"] == runs[0]["v"] for r in runs):
            bad.add("NotReproducible")
        if not all((not r["raised"]) and _subseq(r["v"], pop) for r in runs):
            bad.add("RunInvalid")
        return bad
    obs, bad = rec["obs"], set()
    if kind == "sample":
        k = rec["k"]
        if k <= len(pop):
            if obs["raised"]:
                return {"Raised"}
            if len(obs["v"]) != k:
                bad.add("Size")
            if not _subbag(obs["v"], pop):
                bad.add("NotSubBag")
        elif obs["raised"]:
            if obs["exc"] != "ValueError":
                bad.add("BigWrongError")
        elif sorted(obs["v"]) != sorted(pop):
            bad.add("BigNotAll")
    elif kind == "choices":
        k = rec["k"]
        if not pop:
            if not (obs["raised"] or (k == 0 and obs["v"] == [])):
                bad.add("FromEmpty")
        elif obs["raised"]:
            bad.add("Raised")
        else:
            if len(obs["v"]) != k:
                bad.add("Size")
            if not all(x in pop for x in obs["v"]):
                bad.add("NotInPop")
    else:
        num, den = rec["prob"]
        if obs["raised"]:
            return {"Raised"}
        if not _subseq(obs["v"], pop):
            bad.add("NotSubseq")
        if num == 0 and obs["v"]:
            bad.add("Prob0Keeps")
        if num == den and obs["v"] != pop:
            bad.add("Prob1Drops")
    return bad


def classify(rec, clauses):
    """operation : class of k relative to the population : first failing clause"""
    kind = rec["kind"]
    pop = [x for p in rec["parts"] for x in p]
    clause = sorted(clauses)[0]
    if kind in ("sample", "choices"):
        k = rec["k"]
        kc = "k=0" if k == 0 else ("k<=n" if k <= len(pop) else "k>n")
        if not pop and k > 0:
            kc += "+empty-population"
        return "%s:%s:%s" % (kind, kc, clause)
    if kind == "random_sample":
        return "random_sample:%s" % clause
    return "registry:%s:%s" % (clause, "+".join(sorted({r["how"].split("#")[0] for r in rec["runs"]})))


# ---------------------------------------------------------------- registry run groups

def _registry_runs_local(key):
    """all in-process runs for one registry key: sync twice (recompute), rebuilt call, threads, Random instance"""
    import dask
    parts, prob, state, ctor = key["parts"], float(Fraction(*key["prob"])), key["state"], key.get("ctor", "graph")
    runs = []

    def run(how, fn):
        try:
            runs.append({"how": how, "raised": False, "v": _plain(fn())})
        except BaseException as ex:  # noqa: BLE001
            if isinstance(ex, (KeyboardInterrupt, SystemExit)):
                raise
            runs.append({"how": how, "raised": True, "v": [], "msg": "%s: %s" % (type(ex).__name__, str(ex)[:100])})
    b = mkbag(parts, ctor)
    rs = b.random_sample(prob, state)
    run("sync", lambda: rs.compute(scheduler="sync"))
    run("sync#recompute", lambda: rs.compute(scheduler="sync"))
    run("sync#rebuilt", lambda: mkbag(parts, ctor).random_sample(prob, state).compute(scheduler="sync"))
    run("threads", lambda: rs.compute(scheduler="threads", num_workers=3))
    run("threads#rebuilt", lambda: mkbag(parts, "delayed" if ctor == "graph" else "graph").random_sample(prob, state)
        .compute(scheduler="threads", num_workers=2))
    run("sync#Random-instance", lambda: b.random_sample(prob, random.Random(state)).compute(scheduler="sync"))
    run("sync#Random-instance-again", lambda: b.random_sample(prob, random.Random(state)).compute(scheduler="sync"))
    run("sync#persisted", lambda: dask.persist(rs, scheduler="sync")[0].compute(scheduler="sync"))
    return runs


def _registry_work(key):
    return key, _registry_runs_local(key)


def registry_process_runs(keys):
    """the multiprocessing scheduler, in the parent process after all forking (pmap children are daemonic)"""
    import multiprocessing as mp
    from concurrent.futures import ProcessPoolExecutor
    out = {}
    if not keys:
        return out
    with ProcessPoolExecutor(2, mp_context=mp.get_context("spawn")) as pool:
        for i, key in keys:
            parts, prob, state = key["parts"], float(Fraction(*key["prob"])), key["state"]
            try:
                v = mkbag(parts, key.get("ctor", "graph")).random_sample(prob, state).compute(scheduler="processes", pool=pool)
                out[i] = {"how": "processes", "raised": False, "v": _plain(v)}
            except Exception as ex:  # noqa: BLE001
                out[i] = {"how": "processes", "raised": True, "v": [], "msg": "%s: %s" % (type(ex).__name__, str(ex)[:100])}
    return out


# ---------------------------------------------------------------- core loop

def _work(call):
    return call, observe(call)


def export_cases(ctx, maxlen, label):
    consts = {"MaxLen": maxlen, "Vals": TLA("0..3"), "MaxParts": 4, "DesignParts": 3, "Ks": TLA("0..8"), "DesignLen": min(maxlen, 4)}
    spec, cfg = ctx.model(ctx.spec("bag", "BagSampleMC.tla"), consts,
                          invariants=["Satisfiable", "MergePossible", "MergeSound", "ChoicesSound", "SubseqExact", "SubseqSound"])
    cases, _ = ctx.tlc_cases(spec, cfg, label=label, timeout=2400)
    layouts, cs = {}, []
    for c in cases:
        if c["c"]["fam"] == "layouts":
            layouts[c["c"]["n"]] = sorted(c["e"])
        else:
            cs.append((c["c"]["pop"], c["c"]["op"], c["c"]["k"], c["e"]))
    cs.sort(key=lambda x: (x[1], x[2], x[0]))
    return layouts, cs


def registry_model_check(ctx):
    """the registry state machine: the faithful model is reproducible, the shared-stream twin is not"""
    consts = {"Pops": TLA("<< <<1, 2, 1>>, <<0, 3>>, <<2>> >>"), "Scheds": TLA('{"sync", "threads", "processes"}'), "MaxDraws": 4}
    invs = ["Reproducible", "RegistryFaithful", "ResultsAreSubsequences"]
    spec, cfg = ctx.model(ctx.spec("bag", "BagSampleRegMC.tla"), dict(consts, SharedStream=False), init="RInit", next_="RNext",
                          invariants=invs)
    r = ctx.tlc(spec, cfg, label="registry-state-machine")
    spec, cfg = ctx.model(ctx.spec("bag", "BagSampleRegMC.tla"), dict(consts, SharedStream=True), init="RInit", next_="RNext",
                          invariants=invs)
    r2 = ctx.tlc(spec, cfg, label="registry-broken-twin(must violate)", allow_violation=True, count=False)
    if "Reproducible" not in r2.violated:
        raise MachineryError("the shared-stream twin of the registry does not violate Reproducible: the invariant is vacuous")
    return r.distinct


def plan_calls(rng, layouts, cs, exhaustive_len, nsample, nrandom):
    calls = []
    big = []
    for pop, op, k, e in cs:
        if len(pop) <= exhaustive_len:
            for lay in layouts[len(pop)]:
                calls.append({"kind": op, "parts": split_by(pop, lay), "k": k, "se": rng.choice(SES), "seed": rng.randint(0, 4),
                              "ctor": rng.choice(["graph", "delayed"]), "contract": e})
        else:
            big.append((pop, op, k, e))
    for _ in range(nsample):
        pop, op, k, e = rng.choice(big)
        calls.append({"kind": op, "parts": split_by(pop, rng.choice(layouts[len(pop)])), "k": k, "se": rng.choice(SES),
                      "seed": rng.randint(0, 4), "ctor": rng.choice(["graph", "delayed"]), "contract": e})
    for _ in range(nrandom):            # larger bags: more partitions than split_every, k around the partition sizes
        n = rng.randint(0, 30)
        pop = [rng.randint(0, 9) for _ in range(n)]
        nparts = rng.randint(1, 10)
        cuts = sorted(rng.randint(0, n) for _ in range(nparts - 1))
        lay = [b - a for a, b in zip([0] + cuts, cuts + [n])]
        kind = rng.choice(["sample", "choices", "random_sample"])
        c = {"kind": kind, "parts": split_by(pop, lay), "se": rng.choice(SES + [8]), "seed": rng.randint(0, 10 ** 6),
             "ctor": rng.choice(["graph", "delayed"])}
        if kind == "random_sample":
            c["prob"] = rng.choice([[0, 1], [1, 1], [1, 2], [1, 4], [3, 4], [1, 8]])
        else:
            c["k"] = rng.choice([0, 1, 2, 3, 5, 8, n, n + 1, max(0, n - 1)])
        calls.append(c)
    return calls


def plan_registry(rng, layouts, cs, nkeys):
    pops = sorted({tuple(p) for p, _, _, _ in cs if len(p) >= 2})
    keys = []
    for i in range(nkeys):
        if i % 3 == 2:
            n = rng.randint(4, 24)
            pop = [rng.randint(0, 9) for _ in range(n)]
            nparts = rng.randint(1, 8)
            cuts = sorted(rng.randint(0, n) for _ in range(nparts - 1))
            lay = [b - a for a, b in zip([0] + cuts, cuts + [n])]
        else:
            pop = list(rng.choice(pops))
            lay = rng.choice(layouts[len(pop)])
        keys.append({"parts": split_by(pop, lay), "prob": rng.choice([[1, 2], [1, 4], [3, 4], [1, 2], [0, 1], [1, 1]]),
                     "state": rng.randint(0, 4), "ctor": rng.choice(["graph", "delayed"])})
    return keys


def collect(ctx, rng, layouts, cs, exhaustive_len, nsample, nrandom, nkeys, nproc_keys, parallel=True, prefix=""):
    """run dask and record: returns (records, owner)"""
    calls = plan_calls(rng, layouts, cs, exhaustive_len, nsample, nrandom)
    results = pmap(_work, calls, chunk=100) if parallel else [_work(c) for c in calls]
    recs, owner = [], {}
    for call, obs in results:
        if "skip" in obs:
            ctx.skip(obs["skip"])
            continue
        rec = {"id": "%sr%d" % (prefix, len(recs)), "kind": call["kind"], "parts": call["parts"],
               "obs": {"raised": obs["raised"], "exc": obs["exc"], "v": obs["v"]}}
        if call["kind"] == "random_sample":
            rec["prob"] = call["prob"]
        else:
            rec["k"] = call["k"]
        n = sum(len(p) for p in call["parts"])
        ctx.count(("call", call["kind"], call["parts"], call.get("k"), call.get("prob"), call["se"], call["seed"]),
                  n >= 2 and len(call["parts"]) >= 2)
        owner[rec["id"]] = (call, obs)
        recs.append(rec)
    # registry run groups (threads: always inside forked children)
    keys = plan_registry(rng, layouts, cs, nkeys)
    groups = pmap(_registry_work, keys, chunk=20, always=parallel) if parallel else [_registry_work(k) for k in keys]
    proc = registry_process_runs(list(enumerate(keys))[:nproc_keys]) if nproc_keys else {}
    for i, (key, runs) in enumerate(groups):
        if i in proc:
            runs = runs + [proc[i]]
        rec = {"id": "%sg%d" % (prefix, i), "kind": "registry", "parts": key["parts"], "prob": key["prob"], "state": key["state"],
               "runs": [{"how": r["how"], "raised": r["raised"], "v": r["v"]} for r in runs]}
        n = sum(len(p) for p in key["parts"])
        ctx.count(("registry", key["parts"], key["prob"], key["state"]), n >= 2 and 0 < key["prob"][0] < key["prob"][1], n=len(runs))
        owner[rec["id"]] = (key, runs)
        recs.append(rec)
    return recs, owner


def decide(ctx, recs, owner, report):
    """TLC decides every record (cross-checked by the Python twin); report(signature, what, replay, record id)"""
    tspec, tcfg = ctx.model(ctx.spec("bag", "BagSampleTrace.tla"), {})
    nviol = 0
    for lo in range(0, len(recs), 10000):
        part = recs[lo:lo + 10000]
        rej = ctx.tlc_validate(tspec, part, tcfg, timeout=1800)
        for rec in part:
            tl = set()
            for c in rej.get(rec["id"], []):
                tl |= {x.strip().strip('"') for x in c.strip("{}").split(",") if x.strip()}
            py = py_bad(rec)
            if tl != py:
                raise MachineryError("TLC and the Python twin disagree on %r: TLC %r, Python %r" % (rec, sorted(tl), sorted(py)))
            e = owner[rec["id"]][0].get("contract") if rec["kind"] in ("sample", "choices") else None
            if e is not None and not tl:
                # the case exported by BagSampleMC and the verdict of BagSampleTrace must tell the same story
                o = rec["obs"]
                if (o["raised"] and not e["mayraise"]) or (not o["raised"] and (e["mustraise"] or len(o["v"]) != e["len"])):
                    raise MachineryError("accepted record contradicts the exported contract %r: %r" % (e, rec))
            if tl:
                nviol += 1
                what = "TLC rejects a recorded %s call: %s" % (rec["kind"], ", ".join(sorted(tl)))
                src = owner[rec["id"]]
                report(classify(rec, tl), what, {"record": rec, "call": src[0], "detail": src[1]}, rec["id"])
    return nviol, len(recs)


def core(ctx, rng, layouts, cs, report, **kw):
    recs, owner = collect(ctx, rng, layouts, cs, **kw)
    return decide(ctx, recs, owner, lambda sig, what, rep, rid: report(sig, what, rep))


def run(ctx):
    rng = ctx.rng
    nreg = registry_model_check(ctx)
    layouts, cs = export_cases(ctx, ctx.pick(4, 6), "design+cases")
    _, nrec = core(ctx, rng, layouts, cs, ctx.violation, exhaustive_len=1, nsample=ctx.pick(4000, 80000),
                   nrandom=ctx.pick(1000, 15000), nkeys=ctx.pick(150, 2500), nproc_keys=ctx.pick(6, 60))
    for pop, op, k, e in cs[:: max(1, len(cs) // 4)][:4]:
        ctx.sample({"population": pop, "operation": op, "k": k, "contract": e})
    ctx.exhaustive = False
    ctx.rule = ("case = (population, operation, k) enumerated by TLC x partitioning (all with <= 4 parts) x split_every x global "
                "random seed, random larger bags, and registry keys (population, partitioning, prob, random_state) each run on "
                "sync / threads (/ processes), recomputed, rebuilt and persisted; non-trivial = at least 2 elements in at least 2 "
                "partitions (registry: 0 < prob < 1)")
    ctx.extra["cases_enumerated_by_tlc"] = len(cs)
    ctx.extra["registry_state_machine_states"] = nreg
    ctx.extra["records_decided_by_tlc"] = nrec
    ctx.assumptions = ["TLC evaluates the contracts correctly (cross-checked against a Python twin on every record)",
                       "probabilities / uniformity of the samples are not decided",
                       "sample(k > n): ValueError and the whole bag are both accepted"]


def replay(ctx, obj):
    c = obj["case"]
    rec = c["record"]
    if rec["kind"] == "registry":
        key = c["call"]
        runs = _registry_runs_local(key)
        new = {"id": "g0", "kind": "registry", "parts": key["parts"], "prob": key["prob"], "state": key["state"],
               "runs": [{"how": r["how"], "raised": r["raised"], "v": r["v"]} for r in runs]}
    else:
        call = c["call"]
        obs = observe(call)
        new = dict(rec, id="r0", obs={"raised": obs["raised"], "exc": obs["exc"], "v": obs["v"]})
        print("call:", {k: v for k, v in call.items() if k != "contract"}, "\nobserved:", obs)
    tspec, tcfg = ctx.model(ctx.spec("bag", "BagSampleTrace.tla"), {})
    rej = ctx.tlc_validate(tspec, [new], tcfg)
    print("record:", new, "\nTLC:", rej)
    return bool(rej)


def selftest(ctx):
    import contextlib

    import dask.bag.core as BC
    import dask.bag.random as BR

    from ..mutate import source_mutant
    ok = True
    layouts, cs = export_cases(ctx, 3, "selftest-cases")
    trials, allrecs, allowner = [], [], {}

    def trial(name, cm, expect=True):
        # records of every mutant are collected first and decided by ONE TLC run
        tag = "m%d-" % len(trials)
        with cm:
            recs, owner = collect(ctx, random.Random(5), layouts, cs, exhaustive_len=0, nsample=400, nrandom=150, nkeys=40,
                                  nproc_keys=0, parallel=False, prefix=tag)
        trials.append((tag, name, expect))
        allrecs.extend(recs)
        allowner.update(owner)

    trial("(none: unchanged tree, only known findings may appear)", contextlib.nullcontext(), expect=False)
    trial("_sample_reduce: replace flag inverted (draws with replacement)", source_mutant(
        BR, "_sample_reduce", "sample_func = rnd.choices if replace else", "sample_func = rnd.choices if not replace else"))
    trial("_weighted_sampling_without_replacement: nlargest(k + 1)", source_mutant(
        BR, "_weighted_sampling_without_replacement", "heapq.nlargest(k, elt)", "heapq.nlargest(k + 1, elt)"))
    trial("_sample_with_replacement_map_partitions: reservoir of k - 1", source_mutant(
        BR, "_sample_with_replacement_map_partitions", "[e for _ in range(k)], 1", "[e for _ in range(k - 1)] + [0], 1"))
    trial("random_state_data_python: ignores random_state", source_mutant(
        BC, "random_state_data_python", "np_rng = np.random.default_rng(random_state)", "np_rng = np.random.default_rng()"))
    trial("random_sample: per-partition state not installed", source_mutant(
        BC, "random_sample", "random_state.setstate(state_data)", "pass"))
    trial("benign: _sample_reduce weights every reservoir equally", source_mutant(
        BR, "_sample_reduce", "p_i = n_i / (k_i * n)", "p_i = 1.0"), expect=False)
    found = {}
    decide(ctx, allrecs, allowner, lambda sig, what, rep, rid: found.setdefault(rid.split("-")[0] + "-", []).append(sig))
    for tag, name, expect in trials:
        new = [f for f in found.get(tag, []) if f not in ctx.known]
        good = (len(new) > 0) == expect
        ok &= good
        print("mutant %-58s %s (%d violations) %s" % (name, ("DETECTED" if new else "no alarm") + ("" if good else "  <-- WRONG"),
                                                     len(new), sorted(set(new))[:3]))
    tspec, tcfg = ctx.model(ctx.spec("bag", "BagSampleTrace.tla"), {})
    parts = [[1, 2], [], [2, 3]]
    recs = [
        {"id": "ok-sample", "kind": "sample", "parts": parts, "k": 3, "obs": {"raised": False, "exc": "", "v": [2, 2, 1]}},
        {"id": "dup-sample", "kind": "sample", "parts": parts, "k": 3, "obs": {"raised": False, "exc": "", "v": [1, 1, 2]}},
        {"id": "short-sample", "kind": "sample", "parts": parts, "k": 3, "obs": {"raised": False, "exc": "", "v": [1, 2]}},
        {"id": "ok-choices", "kind": "choices", "parts": parts, "k": 2, "obs": {"raised": False, "exc": "", "v": [3, 3]}},
        {"id": "alien-choices", "kind": "choices", "parts": parts, "k": 2, "obs": {"raised": False, "exc": "", "v": [3, 4]}},
        {"id": "ok-rs", "kind": "random_sample", "parts": parts, "prob": [1, 2], "obs": {"raised": False, "exc": "", "v": [1, 3]}},
        {"id": "swapped-rs", "kind": "random_sample", "parts": parts, "prob": [1, 2], "obs": {"raised": False, "exc": "", "v": [3, 1]}},
        {"id": "ok-reg", "kind": "registry", "parts": parts, "prob": [1, 2], "state": 1,
         "runs": [{"how": "sync", "raised": False, "v": [1, 3]}, {"how": "threads", "raised": False, "v": [1, 3]}]},
        {"id": "diverging-reg", "kind": "registry", "parts": parts, "prob": [1, 2], "state": 1,
         "runs": [{"how": "sync", "raised": False, "v": [1, 3]}, {"how": "threads", "raised": False, "v": [1, 2]}]},
    ]
    rej = ctx.tlc_validate(tspec, recs, tcfg)
    good = set(rej) == {"dup-sample", "short-sample", "alien-choices", "swapped-rs", "diverging-reg"}
    print("trace spec: corrupted records rejected, faithful ones accepted: %s %s" % ("OK" if good else "WRONG", sorted(rej)))
    ok &= good
    return 0 if ok else 1
