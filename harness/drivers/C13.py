"""C13 - collections computed together give the same values as computed alone.

specs/graph/KeySpace.tla: the registry of task keys (key -> value it denotes when its collection is
computed alone), the property  results[i] = alone[colls[i]]  for a dask.compute(c1, ..., cn) call,
and a small model of what dask.compute does with a tuple (merge the graphs, regroup the operands by
kind, hand results back).  KeySpaceMC.tla checks the model on all small tuples (the positional
hand-back satisfies the property on clash-free tuples, the regrouping hand-back of the code as found
does not) and enumerates the test plans: input family (near-identical inputs from the collision
families of C12) x program (array / delayed / bag / dataframe pipelines) x tuple pattern over the
slots A, B, A2 (equal-token rebuild), Xa/Xb/Xd/Xf (fillers of every kind) - so collection kinds are
interleaved in every way.  Each plan is executed on real collections: every collection is computed
alone (value and every task key of its graph fingerprinted), then the tuple through dask.compute;
TLC decides every recorded call (KeySpaceTrace.tla).

Sibling pairs (KeySpaceMC SibOps, harness/siblings.py): TLC also enumerates [operation, base shape, EVERY chunking incl.
all-unit chunks, two values a # b of the operation's ONE varied argument] over ~110 array / bag / delayed / dataframe
operations; both siblings are built from the same base, each computed alone must equal the eager NumPy / Python / pandas
reference (otherwise the case is another property's), then dask.compute(A, B), dask.compute(B, A) and one consumer task
of both must give the alone values, and the names must differ whenever the values differ (KeySpace!SiblingBad)."""
from __future__ import annotations

import json
import operator

from .. import tokvals as TV
from ..core import MachineryError
from ..par import pmap
from ..sidebyside import in_parallel

META = {
    "title": "Collections computed together give the same values as computed alone",
    "design_ref": "DESIGN.md §4.2 C13",
    "technique": "TLA+ key registry + model of dask.compute on a tuple; TLC enumerates input-family x program x tuple-pattern plans "
                 "(kinds interleaved in every way, equal-token repeats); recorded dask.compute calls validated by TLC",
    "level_text": "TLC checks the compute model on all tuples of <= 3 single-task collections over 2 keys / 2 values / 2 kinds and "
                  "enumerates 9.7k (quick: 500 sampled) / 71k (thorough: 6000 sampled) plans: 10 input families (9 near-identical pairs and one plainly different pair) "
                  "(same bytes in another layout / dtype, equal content in another layout, memmaps, strings split differently, equal "
                  "dicts in another order, frames with permuted same-dtype columns / other block structure, Index dtypes) x array / "
                  "delayed / bag / dataframe programs x every tuple pattern of length 2-3 (thorough 2-4) over 7 slots. Each "
                  "collection is computed alone (value + every task key), then the tuple via dask.compute (sync scheduler, "
                  "optimize_graph on and off); TLC decides each recorded call. Sibling pairs: ~110 operations (setitem value / index / "
                  "slice / mask, stack / concatenate axis, getitem, reductions axis / keepdims / dtype / ddof, map_blocks function / "
                  "closure / args / kwargs, elementwise operands, where operands, astype, transpose, reshape, roll, pad, clip, flip, "
                  "repeat, tile, take, isin, ...; bag map / filter / fold / reduction / topk / pluck / map_partitions / starmap / "
                  "accumulate / foldby / groupby; delayed args / kwargs / function / closure / nested args / nout / value / getitem / "
                  "attr / method / operator; dataframe column / constant / loc / clip / shift / astype / rename / ...) x every chunking "
                  "of bases (4,), (2,2), (2,3) [thorough + (5,), (3,2)] x every unordered pair of argument values: 2.2k cases quick "
                  "(all run), thorough all.",
    "level_note": "Trusted: TLC; the fingerprint of a value (type, dtype, shape / index / name, content); the pyarrow shim for "
                  "dask.dataframe. Key clashes are reported only as the cause of a wrong result, never alone. Programs are short "
                  "pipelines (<= 3 operations); the generators of C19-C48 are not reused. Only the synchronous scheduler.",
}


# ---------------------------------------------------------------- inputs (abstract records of specs/graph/Tokens.tla)
def _nd(dt, shape, lay, cells):
    return {"k": "nd", "dt": dt, "shape": shape, "lay": lay, "cells": cells}


def _S(s):
    return {"k": "str", "s": s}


def _I(i):
    return {"k": "int", "i": i}


RI = lambda n: {"k": "ri", "i": n, "nm": "~"}
P1, P2 = [0, 1, 2, 3, 4, 5], [0, 2, 4, 1, 3, 5]
FAMILIES = {
    "nd-layout": (_nd("i8", [2, 3], "C", P1), _nd("i8", [2, 3], "F", P2)),
    "nd-dtype": (_nd("i8", [2, 3], "C", P1), _nd("u8", [2, 3], "C", P1)),
    "nd-differ": (_nd("i8", [2, 3], "C", P1), _nd("i8", [2, 3], "C", P2)),
    "nd-equal": (_nd("i8", [2, 3], "C", P2), _nd("i8", [2, 3], "F", P2)),
    "mm-dtype": ({"k": "mm", "dt": "i8", "shape": [6], "cells": P1}, {"k": "mm", "dt": "u8", "shape": [6], "cells": P1}),
    "oa-join": ({"k": "oa", "shape": [2], "xs": [_S("a-b"), _S("c")]}, {"k": "oa", "shape": [2], "xs": [_S("a"), _S("b-c")]}),
    "dict-order": ({"k": "dict", "kv": [[_I(1), _S("x")], [_S("1"), _S("y")]]}, {"k": "dict", "kv": [[_S("1"), _S("y")], [_I(1), _S("x")]]}),
    "df-permuted": ({"k": "df", "lay": "2d", "ix": RI(1), "cols": [{"nm": "a", "dt": "i8", "cells": [1]}, {"nm": "b", "dt": "i8", "cells": [2]},
                                                                  {"nm": "c", "dt": "f8", "cells": [9]}]},
                    {"k": "df", "lay": "2d", "ix": RI(1), "cols": [{"nm": "a", "dt": "i8", "cells": [1]}, {"nm": "b", "dt": "f8", "cells": [9]},
                                                                  {"nm": "c", "dt": "i8", "cells": [2]}]}),
    "df-blocks": ({"k": "df", "lay": "colwise", "ix": RI(2), "cols": [{"nm": "a", "dt": "i8", "cells": [1, 2]}, {"nm": "b", "dt": "i8", "cells": [3, 4]}]},
                  {"k": "df", "lay": "dict", "ix": RI(2), "cols": [{"nm": "a", "dt": "i8", "cells": [1, 2]}, {"nm": "b", "dt": "i8", "cells": [3, 4]}]}),
    "ix-dtype": ({"k": "ser", "nm": "~", "dt": "i8", "cells": [1, 2], "ix": {"k": "ix", "nm": "~", "dt": "Int64", "cells": [0, 1]}},
                 {"k": "ser", "nm": "~", "dt": "i8", "cells": [1, 2], "ix": {"k": "ix", "nm": "~", "dt": "i8", "cells": [0, 1]}}),
}


# ---------------------------------------------------------------- fingerprints
def fingerprint(v):
    """Canonical text of a computed value: type, dtype, shape / index / names, content."""
    import numpy as np
    import pandas as pd
    if isinstance(v, np.ndarray):
        return "nd|%s|%s|%r" % (v.dtype.str if v.dtype != object else "O", list(v.shape), v.tolist())
    if isinstance(v, np.generic):
        return "np|%s|%r" % (v.dtype.str, v.item())
    if isinstance(v, pd.Series):
        return "ser|%s|%r|%s|%s|%r|%r" % (v.dtype, v.name, type(v.index).__name__, v.index.dtype, v.index.tolist(), v.tolist())
    if isinstance(v, pd.DataFrame):
        return "df|%r|%r|%s|%s|%r|%r" % (list(v.columns), [str(t) for t in v.dtypes], type(v.index).__name__, v.index.dtype,
                                        v.index.tolist(), v.values.tolist())
    if isinstance(v, pd.Index):
        return "ix|%s|%s|%r|%r" % (type(v).__name__, v.dtype, v.name, v.tolist())
    if isinstance(v, (list, tuple)):
        return "%s[%s]" % (type(v).__name__, ",".join(fingerprint(x) for x in v))
    if isinstance(v, dict):
        return "dict{%s}" % ",".join(sorted("%s:%s" % (fingerprint(a), fingerprint(b)) for a, b in v.items()))
    return "%s|%r" % (type(v).__name__, v)


def show(obj):
    return fingerprint(obj)


def _upper(block):
    import numpy as np
    out = np.empty(block.shape, dtype=object)
    for i, s in enumerate(block.ravel()):
        out.ravel()[i] = s.upper()
    return out


# ---------------------------------------------------------------- programs
def make_collection(prog, obj):
    import numpy as np
    import pandas as pd
    import dask.array as da
    import dask.bag as db
    from dask import delayed
    if prog.startswith("array"):
        x = da.from_array(obj, chunks=1 if obj.dtype == object else 2)
        if prog == "array+1":
            x = x + 1
        elif prog == "array.sum":
            x = x.sum(axis=0)
        elif prog == "array.map":
            x = x.map_blocks(_upper, dtype=object)
        return x, "array"
    if prog == "delayed.pure":
        return delayed(show, pure=True)(obj), "delayed"
    if prog == "delayed.value":
        return delayed(obj, pure=True), "delayed"
    if prog == "bag":
        seq = list(obj.items()) if isinstance(obj, dict) else list(obj)
        return db.from_sequence(seq, npartitions=2).map(show), "bag"
    if prog.startswith("frame"):
        from ..frames import dd
        ddm = dd()
        if isinstance(obj, np.ndarray):
            obj = pd.Series(list(obj))
        x = ddm.from_pandas(obj, npartitions=1 if len(obj) < 2 else 2, sort=False)
        if prog == "frame+1":
            x = x + 1
        elif prog == "frame.series.map":
            x = x.str.upper()
        return x, "frame"
    raise ValueError(prog)


def make_filler(slot):
    import numpy as np
    import pandas as pd
    import dask.array as da
    import dask.bag as db
    from dask import delayed
    if slot == "Xa":
        return da.from_array(np.arange(3) + 100, chunks=2) * 2, "array"
    if slot == "Xb":
        return db.from_sequence([7, 8, 9], npartitions=2).sum(), "bag"
    if slot == "Xd":
        return delayed(operator.add)(1000, 1), "delayed"
    if slot == "Xf":
        from ..frames import dd
        return dd().from_pandas(pd.Series([5, 6, 7], name="z"), npartitions=2) * 3, "frame"
    raise ValueError(slot)


def observe_alone(coll):
    """-> (fingerprint of the value, [(key text, fingerprint)]) ; every task key evaluated on its own."""
    import dask
    from dask.local import get_sync
    (val,) = dask.compute(coll, scheduler="sync")
    graph = dict(coll.__dask_graph__())
    keys = []
    for k in sorted(graph, key=str):
        keys.append((str(k), fingerprint(get_sync(graph, k))))
    return fingerprint(val), keys


def run_plan(plan):
    """Execute one plan; returns a record with TEXT fingerprints (interned by the caller) or a skip / error."""
    import warnings

    import dask
    from ..frames import is_shim_error
    fam, prog, pat, optimize = plan["fam"], plan["prog"], plan["pat"], plan.get("opt", True)
    da_, db_ = FAMILIES[fam]
    slots, colls = {}, []
    try:
        with warnings.catch_warnings():
            warnings.simplefilter("ignore")
            for s in pat:
                if s not in slots:
                    if s in ("A", "B", "A2"):
                        c, kind = make_collection(prog, TV.build(db_ if s == "B" else da_))
                    else:
                        c, kind = make_filler(s)
                    try:
                        alone, keys = observe_alone(c)
                    except NotImplementedError as ex:
                        return {"skip": "NotImplementedError alone: %s" % str(ex)[:60]}
                    slots[s] = (c, kind, alone, keys)
                colls.append(slots[s])
            rec = {"colls": [{"slot": s, "kind": k, "alone": a, "keys": ks} for s, (c, k, a, ks) in zip(pat, colls)], "raised": "", "res": []}
            try:
                res = dask.compute(*[c[0] for c in colls], scheduler="sync", optimize_graph=optimize)
                rec["res"] = [fingerprint(r) for r in res]
            except NotImplementedError as ex:
                return {"skip": "NotImplementedError together: %s" % str(ex)[:60]}
            except Exception as ex:  # noqa: BLE001 - an exception from dask.compute is an observation
                if is_shim_error(ex):
                    return {"error": "pyarrow shim: %s" % ex}
                rec["raised"] = "%s: %s" % (type(ex).__name__, str(ex)[:120])
            return rec
    except Exception as ex:  # noqa: BLE001 - building / computing alone failed: not a verdict about computing together
        if is_shim_error(ex):
            return {"error": "pyarrow shim: %s" % ex}
        return {"skip": "alone failed: %s: %s" % (type(ex).__name__, str(ex)[:80])}


def to_record(i, plan, rec):
    """Intern fingerprints, keys and collections of one record to small integers."""
    fp, kid, cid = {}, {}, {}
    f = lambda t: fp.setdefault(t, len(fp) + 1)
    colls = []
    for c in rec["colls"]:
        colls.append({"id": cid.setdefault(c["slot"], len(cid) + 1), "kind": c["kind"], "alone": f(c["alone"]),
                      "keys": [{"key": kid.setdefault(k, len(kid) + 1), "val": f(v)} for k, v in c["keys"]]})
    return {"id": "p%d" % i, "kind": "tuple", "colls": colls, "res": [f(r) for r in rec["res"]], "raised": bool(rec["raised"])}


def classify(plan, clauses, rec):
    if "Raised" in clauses:
        return "Raised:%s:%s" % (rec["raised"].split(":")[0], plan["fam"])
    if "ClashExplains" in clauses:                   # every wrong result is a clashing sibling's value
        return "Together:key-clash:%s" % plan["fam"]
    if "Interleaved" in clauses:
        return "Together:interleaved-kinds"
    if "KeyClash" in clauses:
        return "Together:key-clash:%s" % plan["fam"]
    kinds = {c["kind"] for c in rec["colls"]}
    return "Together:other:%s:%s:%s" % (plan["fam"], plan["prog"], "mixed-kinds" if len(kinds) > 1 else "one-kind")


def parse_clauses(text):
    return [x for x in text.strip("{} ").replace('"', "").split(", ") if x]


def execute(ctx, plans, count=True):
    """Run plans, let TLC decide the records; returns the list of (plan, clauses, rec) rejected."""
    import os
    TV.use_tmp(os.path.join(ctx.scratch, "mm"))
    results = pmap(run_plan, plans, chunk=8)
    records, byid = [], {}
    for i, (plan, rec) in enumerate(zip(plans, results)):
        if "error" in rec:
            raise MachineryError(rec["error"])
        if "skip" in rec:
            ctx.skip(rec["skip"])
            continue
        r = to_record(i, plan, rec)
        records.append(r)
        byid[r["id"]] = (plan, rec)
        if count:
            ctx.count(("plan", plan), len({c["slot"] for c in rec["colls"]}) > 1)
    spec, cfg = ctx.model(ctx.spec("graph", "KeySpaceTrace.tla"), {"Impl": "positional"})
    bad = []
    for lo in range(0, len(records), 3000):
        rej = ctx.tlc_validate(spec, records[lo:lo + 3000], cfg, timeout=1800)
        for rid, texts in rej.items():
            plan, rec = byid[rid]
            bad.append((plan, [c for t in texts for c in parse_clauses(t)], rec))
    return bad, len(records)


# ---------------------------------------------------------------- sibling pairs
def _name_of(c):
    for attr in ("_name", "key", "name"):
        v = getattr(c, attr, None)
        if isinstance(v, (str, tuple)):
            return str(v)
    return "?%s" % type(c).__name__


def fp_pair(p, q):
    return (fingerprint(p), fingerprint(q))


def run_sibling(case):
    """Execute one sibling case; returns text fingerprints / names, or a skip."""
    import warnings

    import dask
    from dask import delayed

    from ..frames import is_shim_error
    from ..siblings import OPS, make_base
    op = OPS[case["op"]]
    with warnings.catch_warnings():
        warnings.simplefilter("ignore")
        try:
            L, x, E, ex = make_base(case)
        except Exception as e:  # noqa: BLE001
            return {"error": "sibling base %r: %s: %s" % (case, type(e).__name__, e)}
        try:
            ref = [op(E, ex, case["a"]), op(E, ex, case["b"])]
        except Exception as e:  # noqa: BLE001 - the eager library rejects the argument: nothing to compare
            return {"skip": "reference raises %s (%s)" % (type(e).__name__, case["op"])}
        try:
            A, B = op(L, x, case["a"]), op(L, x, case["b"])
            alone = [dask.compute(A, scheduler="sync")[0], dask.compute(B, scheduler="sync")[0]]
        except NotImplementedError as e:
            return {"skip": "NotImplementedError (%s): %s" % (case["op"], str(e)[:50])}
        except Exception as e:  # noqa: BLE001 - a single collection that fails is another property's business
            if is_shim_error(e):
                return {"error": "pyarrow shim: %s" % e}
            return {"skip": "collection alone raises %s (%s)" % (type(e).__name__, case["op"])}
        afp = [fingerprint(v) for v in alone]
        for v, r in zip(afp, ref):
            if r is not None and v != fingerprint(r):
                return {"skip": "alone differs from the eager reference - not C13's (%s)" % case["op"]}
        rec = {"names": [_name_of(A), _name_of(B)], "alone": afp, "tog": [], "togrev": [], "derived": "", "want": "", "raised": ""}
        try:
            rec["tog"] = [fingerprint(v) for v in dask.compute(A, B, scheduler="sync")]
            rec["togrev"] = [fingerprint(v) for v in dask.compute(B, A, scheduler="sync")]
        except Exception as e:  # noqa: BLE001 - an exception from dask.compute is an observation
            rec["raised"] = "%s: %s" % (type(e).__name__, str(e)[:120])
            return rec
        try:
            D = delayed(fp_pair)(A, B)                  # ONE collection that consumes both siblings
        except Exception:  # noqa: BLE001 - cannot be wrapped: the consumer clause is not observed
            return rec
        try:
            rec["derived"] = fingerprint(tuple(D.compute(scheduler="sync")))
            rec["want"] = fingerprint(tuple(afp))
        except Exception as e:  # noqa: BLE001
            rec["raised"] = "consumer: %s: %s" % (type(e).__name__, str(e)[:120])
        return rec


def sibling_record(i, rec):
    fp, nm = {"": 0}, {}
    f = lambda t: fp.setdefault(t, len(fp))
    return {"id": "s%d" % i, "kind": "sibling", "names": [nm.setdefault(n, len(nm) + 1) for n in rec["names"]],
            "alone": [f(t) for t in rec["alone"]], "tog": [f(t) for t in rec["tog"]], "togrev": [f(t) for t in rec["togrev"]],
            "derived": f(rec["derived"]), "want": f(rec["want"]), "raised": bool(rec["raised"])}


def classify_sibling(case, clauses, rec):
    if "Raised" in clauses:
        return "Sibling:raised:%s" % case["op"]
    return "Sibling:%s" % case["op"]


def execute_siblings(ctx, cases, count=True):
    results = pmap(run_sibling, cases, chunk=16)
    records, byid, ndiffer = [], {}, 0
    for i, (case, rec) in enumerate(zip(cases, results)):
        if "error" in rec:
            raise MachineryError(rec["error"])
        if "skip" in rec:
            ctx.skip(rec["skip"])
            continue
        r = sibling_record(i, rec)
        records.append(r)
        byid[r["id"]] = (case, rec)
        differ = rec["alone"][0] != rec["alone"][1]
        ndiffer += differ
        if count:
            ctx.count(("sibling", case), differ)
    spec, cfg = ctx.model(ctx.spec("graph", "KeySpaceTrace.tla"), {"Impl": "positional"})
    bad = []
    for lo in range(0, len(records), 4000):
        rej = ctx.tlc_validate(spec, records[lo:lo + 4000], cfg, timeout=1800)
        for rid, texts in rej.items():
            case, rec = byid[rid]
            bad.append((case, [c for t in texts for c in parse_clauses(t)], rec))
    return bad, len(records), ndiffer


def report_siblings(ctx, bad):
    for case, clauses, rec in bad:
        what = ("siblings %s(%s) / (%s) on a %s base %s chunks %s: names %s, alone %s, together %s / reversed %s, consumer ok=%s%s [%s]"
                % (case["op"], case["a"], case["b"], case["ckind"], case["shape"], case["chunks"],
                   "EQUAL" if rec["names"][0] == rec["names"][1] else "differ", [t[:40] for t in rec["alone"]],
                   [t[:40] for t in rec["tog"]], [t[:40] for t in rec["togrev"]], rec["derived"] == rec["want"],
                   (" raised " + rec["raised"]) if rec["raised"] else "", ",".join(clauses)))
        ctx.violation(classify_sibling(case, clauses, rec), what, {"sibling": case, "clauses": clauses})


def model_jobs(ctx, maxplan, sibshapes):
    """-> callables (models written here, in the calling thread): three design checks and the plan enumeration."""
    from ..core import TLA
    consts = {"NKeys": 2, "NVals": 2, "MaxTuple": 3, "MaxPlan": 2, "SibShapes": TLA("{}")}
    mc = ctx.spec("graph", "KeySpaceMC.tla")
    s1, c1 = ctx.model(mc, dict(consts, Impl="positional"), init="DInit", next_="DNext",
                       invariants=["TogetherEqualsAlone", "BlameIsRight", "SameNameIsWrong"])
    s2, c2 = ctx.model(mc, dict(consts, Impl="grouped"), init="DInit", next_="DNext", invariants=["TogetherEqualsAlone"])
    s3, c3 = ctx.model(mc, dict(consts, Impl="grouped"), init="DInit", next_="DNext", invariants=["GroupedWrongOnlyIfInterleaved", "BlameIsRight"])
    s4, c4 = ctx.model(mc, {"Impl": "positional", "NKeys": 1, "NVals": 1, "MaxTuple": 1, "MaxPlan": maxplan, "SibShapes": TLA("{}")},
                       init="PInit", next_="PNext")
    s5, c5 = ctx.model(mc, {"Impl": "positional", "NKeys": 1, "NVals": 1, "MaxTuple": 1, "MaxPlan": 2, "SibShapes": TLA(sibshapes)},
                       init="SInit", next_="SNext", invariants=["ArgsDiffer"])

    def must_fail():
        r = ctx.tlc(s2, c2, label="design(Impl=grouped) must fail", allow_violation=True, count=False, timeout=900)
        if "TogetherEqualsAlone" not in r.violated:
            raise MachineryError("vacuity: TLC no longer finds the regrouping counterexample in the compute model")

    def plans():
        out, _ = ctx.tlc_cases(s4, c4, label="plans", timeout=1800)
        out.sort(key=lambda p: json.dumps(p, sort_keys=True))
        return out
    def siblings():
        out, _ = ctx.tlc_cases(s5, c5, label="sibling cases", timeout=1800)
        out.sort(key=lambda p: json.dumps(p, sort_keys=True))
        return out
    return [lambda: ctx.tlc(s1, c1, label="design(Impl=positional)", timeout=900), must_fail,
            lambda: ctx.tlc(s3, c3, label="design(Impl=grouped): wrong only if interleaved", timeout=900), plans, siblings]


def report(ctx, bad):
    for plan, clauses, rec in bad:
        what = ("dask.compute(%s) over family %s, program %s: results %s, alone %s%s"
                % (", ".join(plan["pat"]), plan["fam"], plan["prog"], [r[:40] for r in rec["res"]], [c["alone"][:40] for c in rec["colls"]],
                   (" raised " + rec["raised"]) if rec["raised"] else ""))
        ctx.violation(classify(plan, clauses, rec), what, {"plan": plan, "clauses": clauses})


def run(ctx):
    sibshapes = ctx.pick("{<<4>>, <<2, 2>>, <<2, 3>>}", "{<<4>>, <<5>>, <<2, 2>>, <<2, 3>>, <<3, 2>>}")
    jobs = in_parallel(model_jobs(ctx, ctx.pick(3, 4), sibshapes))
    plans, sibs = jobs[3], jobs[4]
    total = len(plans)
    cap = ctx.pick(500, 6000)
    if len(plans) > cap:
        # every (family, program) keeps its share; patterns sampled
        ctx.exhaustive = False
        by = {}
        for p in plans:
            by.setdefault((p["fam"], p["prog"]), []).append(p)
        share = max(1, cap // len(by))
        plans = [p for k in sorted(by) for p in ctx.rng.sample(by[k], min(share, len(by[k])))]
    else:
        ctx.exhaustive = True
    for i, p in enumerate(plans):
        p["opt"] = i % 4 != 3
    bad, nrec = execute(ctx, plans)
    report(ctx, bad)
    nsib = len(sibs)
    scap = ctx.pick(2600, 10 ** 9)
    if len(sibs) > scap:
        ctx.exhaustive = False
        by = {}
        for c in sibs:
            by.setdefault(c["op"], []).append(c)
        share = max(4, scap // len(by))
        sibs = [c for k in sorted(by) for c in ctx.rng.sample(by[k], min(share, len(by[k])))]
    sbad, nsrec, ndiffer = execute_siblings(ctx, sibs)
    report_siblings(ctx, sbad)
    ctx.sample({"sibling": sibs[len(sibs) // 2]})
    for p in plans[:: max(1, len(plans) // 4)][:4]:
        ctx.sample({"plan": p})
    ctx.rule = ("a case = one plan (input family, program, tuple pattern, optimize_graph) executed as dask.compute on real "
                "collections; non-trivial = the tuple holds at least two different collections")
    ctx.extra.update({"plans_enumerated_by_tlc": total, "records_validated": nrec, "sibling_cases_enumerated_by_tlc": nsib,
                      "sibling_records_validated": nsrec, "sibling_pairs_with_different_results": ndiffer})
    ctx.assumptions = ["the fingerprint separates observably different results", "synchronous scheduler"]


def replay(ctx, obj):
    if "sibling" in obj["case"]:
        bad, _, _ = execute_siblings(ctx, [obj["case"]["sibling"]], count=False)
        for case, clauses, rec in bad:
            print("sibling:", case, "\nclauses:", clauses, "\nobserved:", rec)
        return bool(bad)
    plan = obj["case"]["plan"]
    bad, _ = execute(ctx, [plan], count=False)
    for p, clauses, rec in bad:
        print("plan:", p, "\nclauses:", clauses, "\nresults:", rec["res"], "\nalone:", [c["alone"] for c in rec["colls"]], rec["raised"])
    return bool(bad)


# ---------------------------------------------------------------- self-test
SELFTEST_PLANS = [
    {"fam": "nd-dtype", "prog": "array+1", "pat": ["A", "B"]},
    {"fam": "nd-differ", "prog": "array+1", "pat": ["A", "B"]},
    {"fam": "nd-differ", "prog": "array.sum", "pat": ["B", "A", "Xa"]},
    {"fam": "nd-dtype", "prog": "array", "pat": ["A", "B", "A2"]},
    {"fam": "nd-dtype", "prog": "delayed.pure", "pat": ["B", "A"]},
    {"fam": "nd-equal", "prog": "array+1", "pat": ["A", "Xa", "B"]},
    {"fam": "nd-dtype", "prog": "array+1", "pat": ["Xa", "A", "Xa"]},
    {"fam": "dict-order", "prog": "bag", "pat": ["A", "Xb"]},
    {"fam": "nd-dtype", "prog": "delayed.pure", "pat": ["Xd", "A", "B"]},
    {"fam": "df-blocks", "prog": "frame+1", "pat": ["A", "Xf"]},
]


MUTANTS = {   # name -> (module, function, old text, new text): one dropped operand / wrong operand each
    "from_array-name-ignores-data": ("dask.array.core", "from_array",
                                     "token = tokenize(x, chunks, lock, asarray, fancy, getitem, inline_array)",
                                     "token = tokenize(chunks, lock, asarray, fancy, getitem, inline_array)"),
    "elemwise-name-ignores-args": ("dask.array.core", "elemwise",
                                   "tokenize(op, dtype, *args, where)", "tokenize(op, dtype, where)"),
    "delayed-name-ignores-args": ("dask.delayed", "call_function",
                                  "tokenize(func_token, *args, pure=pure, **kwargs)", "tokenize(func_token, pure=pure, **kwargs)"),
    "compute-hands-back-reversed": ("dask.base", "compute", "return repack(results)", "return repack(results[::-1])"),
    # the sibling class: an operation's name leaves out the one argument that differs
    "concatenate-name-ignores-axis": ("dask.array.core", "concatenate", 'name = "concatenate-" + tokenize(names, axis)',
                                      'name = "concatenate-" + tokenize(names)'),
    "bag-map-name-ignores-kwargs": ("dask.bag.core", "bag_map", 'tokenize(func, "map", *args, **kwargs)', 'tokenize(func, "map", *args)'),
    "broadcast_to-name-ignores-shape": ("dask.array.core", "broadcast_to", '"broadcast_to-" + tokenize(x, shape, chunks)',
                                        '"broadcast_to-" + tokenize(x, tuple(len(c) for c in chunks))'),
}
SIBLING_MUTANTS = {"elemwise-name-ignores-args", "concatenate-name-ignores-axis", "bag-map-name-ignores-kwargs", "broadcast_to-name-ignores-shape"}
SELFTEST_SIBLINGS = [
    {"op": "array.concatenate.axis", "ckind": "array", "shape": [2, 2], "chunks": [[1, 1], [1, 1]], "a": "0", "b": "1"},
    {"op": "array.concatenate.axis", "ckind": "array", "shape": [2, 2], "chunks": [[2], [1, 1]], "a": "0", "b": "1"},
    {"op": "array.elemwise.add", "ckind": "array", "shape": [4], "chunks": [[2, 2]], "a": "1", "b": "2"},
    {"op": "array.broadcast_to.shape", "ckind": "array", "shape": [4], "chunks": [[1, 1, 1, 1]], "a": "2", "b": "3"},
    {"op": "array.stack.axis", "ckind": "array", "shape": [2, 2], "chunks": [[1, 1], [1, 1]], "a": "0", "b": "2"},
    {"op": "array.setitem.value", "ckind": "array", "shape": [2, 3], "chunks": [[1, 1], [3]], "a": "-1", "b": "-2"},
    {"op": "bag.map.kwargs", "ckind": "bag", "shape": [6], "chunks": [[3, 3]], "a": "1", "b": "2"},
    {"op": "bag.map.args", "ckind": "bag", "shape": [6], "chunks": [[1, 1, 1, 1, 1, 1]], "a": "1", "b": "2"},
    {"op": "delayed.call.kwargs", "ckind": "delayed", "shape": [1], "chunks": [[1]], "a": "1", "b": "2"},
    {"op": "frame.add.const", "ckind": "frame", "shape": [4], "chunks": [[2, 2]], "a": "1", "b": "2"},
]


def _with_mutant(args):
    """Runs in a forked child: the mutant is installed there only."""
    import contextlib
    import importlib
    import sys

    from ..mutate import source_mutant
    name, plans = args
    cm = contextlib.nullcontext()
    if name:
        mod, fn, old, new = MUTANTS[name]
        importlib.import_module(mod)
        cm = source_mutant(sys.modules[mod], fn, old, new)
    with cm as mutated:
        import dask
        import dask.array
        if name == "compute-hands-back-reversed":      # re-exported names must point at the mutant too
            dask.compute = mutated
        if name == "from_array-name-ignores-data":
            dask.array.from_array = mutated
        if name == "concatenate-name-ignores-axis":
            dask.array.concatenate = mutated
        if name == "broadcast_to-name-ignores-shape":
            dask.array.broadcast_to = mutated
        return [run_plan(p) for p in plans], [run_sibling(c) for c in SELFTEST_SIBLINGS]


def selftest(ctx):
    ok = True
    import os
    TV.use_tmp(os.path.join(ctx.scratch, "mm"))
    names = [None] + list(MUTANTS)
    outs = pmap(_with_mutant, [(n, SELFTEST_PLANS) for n in names], procs=len(names), chunk=1, always=True)
    spec, cfg = ctx.model(ctx.spec("graph", "KeySpaceTrace.tla"), {"Impl": "positional"})
    records, owner = [], {}
    for j, (nm, (res, sres)) in enumerate(zip(names, outs)):
        for i, (plan, rec) in enumerate(zip(SELFTEST_PLANS, res)):
            if "error" in rec or "skip" in rec:
                raise MachineryError("selftest plan not executable: %r" % rec)
            r = to_record(j * 1000 + i, plan, rec)
            records.append(r)
            owner[r["id"]] = (nm, plan, rec)
        for i, (case, rec) in enumerate(zip(SELFTEST_SIBLINGS, sres)):
            if "error" in rec or "skip" in rec:
                raise MachineryError("selftest sibling case not executable: %r %r" % (case, rec))
            r = sibling_record(j * 1000 + i, rec)
            records.append(r)
            owner[r["id"]] = (nm, case, rec)
    rej = ctx.tlc_validate(spec, records, cfg, timeout=600)
    sigs = {}
    for rid, texts in rej.items():
        nm, plan, rec = owner[rid]
        cl = [c for t in texts for c in parse_clauses(t)]
        sigs.setdefault(nm, set()).add(classify_sibling(plan, cl, rec) if rid.startswith("s") else classify(plan, cl, rec))
    base = sigs.get(None, set())
    print("unmutated tree on the self-test plans: rejected signatures %s" % sorted(base))
    for nm in names[1:]:
        new = sorted(sigs.get(nm, set()) - base)
        hit = bool(new) and (nm not in SIBLING_MUTANTS or any(x.startswith("Sibling:") for x in new))
        print("mutant %s: %s (new signatures: %s)" % (nm, "DETECTED" if hit else "MISSED", new[:4]))
        ok &= hit
    # (ii) a corrupted recorded field is rejected, the untouched record accepted
    clean = [dict(r) for r in records if owner[r["id"]][0] is None and r["id"] not in rej and r["kind"] == "tuple"][:3]
    good = ctx.tlc_validate(spec, clean, cfg)
    clean[0] = dict(clean[0], res=list(clean[0]["res"][:-1]) + [clean[0]["res"][-1] + 50])
    bad = ctx.tlc_validate(spec, clean, cfg)
    print("untouched records: %s; record with a corrupted result field: %s" % ("accepted" if not good else "REJECTED", "REJECTED" if bad else "accepted"))
    ok &= (not good) and bool(bad)
    return 0 if ok else 1
