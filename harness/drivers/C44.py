"""C44 - repartitioning preserves rows, order and requested layout.

spec -> code: specs/frame/DivisionsMC.tla enumerates (source frame, source partitioning with empty
partitions, declared divisions, request) for repartition(npartitions | divisions, force |
partition_size) and from_pandas(npartitions | chunksize, sort), and TLC checks on every case that the
contract of specs/frame/Divisions.tla is satisfiable (reference outcome), bites (dropped row / wrong
count rejected) and that the sources meet the precondition.  The cases are replayed on real dask
collections built with EXACTLY that partitioning (harness.frames.from_parts); every output partition
is computed through its own key and compute() of the whole is compared with them; the recorded
observation is decided by TLC (DivisionsTrace.tla).  code -> spec: seeded larger frames with
int / float / str / datetime indexes are recorded and decided the same way."""
from __future__ import annotations

from ..core import MachineryError
from ..divisions import KINDS, Verdicts, dd, frame_of, guarded, label_of, observe_as_ranks, parallel_tlc_cases, source_of
from ..frameobs import observe
from ..par import pmap

META = {
    "title": "Repartitioning preserves rows, order and requested layout",
    "design_ref": "DESIGN.md §4.4 C44",
    "technique": "TLA+ contract (Pattern B) of repartition / from_pandas over partitioned frames; TLC enumerates sources x "
                 "partitionings x requests and checks the contract's satisfiability; replay on real collections with exactly "
                 "those partitions, every partition computed separately; recorded observations decided by TLC",
    "level_text": "Small-scope: TLC enumerates every sorted/unsorted label sequence (quick <= 3-4 rows over 2-3 labels, thorough <= 6 rows over 3 labels), "
                  "every source partitioning with <= 3 (4) parts incl. empty ones, every truthful declared division vector or unknown "
                  "divisions, every npartitions 1..6, every requested division vector over the label range +-1 (legal or not, force "
                  "on/off), partition sizes, from_pandas(npartitions|chunksize 1..6, sort on/off); a seeded sample of the enumerated "
                  "cases (all degenerate-division cases included) is replayed on dask, plus seeded larger frames with "
                  "float/str/datetime indexes; TLC decides every recorded observation: same row ids in the same order, labels "
                  "kept, exactly n partitions / exactly the requested divisions, metadata = computed partitions, divisions truthful, "
                  "compute() = concatenation of partitions.",
    "level_note": "Trusted: TLC, harness.frames.from_parts (from_delayed) to build sources, the label->integer projection, pandas "
                  "per-partition kernels. Sampled, not exhaustive, on the dask side (dataframe ops cost ~15 ms). partition_size is "
                  "checked for row preservation only; freq-based repartition and null labels are outside the check.",
}

CLAUSES = ["BadSource", "Raised", "IllegalAccepted", "SameRows", "LabelsKept", "Sorted", "ExactN", "DeclaredN", "ExactDivs", "Meta", "Truthful", "WholeOK"]
JUDGED = ("op", "idx", "layout", "sdivs", "arg", "obs")
ROW_CLAUSES = {"SameRows", "LabelsKept", "Sorted", "Truthful"}


# ----------------------------------------------------------------------------- one case on real dask
def derive(src, pre, case, kind):
    """The lazy step a DERIVED source goes through before the judged repartition (family "nd")."""
    ddm = dd()
    if pre == "head":
        return src.head(2, compute=False)
    if pre == "tail":
        return src.tail(2, compute=False)
    if pre == "filter":
        return src[src.rid % 3 != 1]
    if pre == "proj":
        return src[["rid"]]
    if pre == "loc":
        return src.loc[label_of(min(case["idx"]), kind):]
    if pre == "setidx":
        return src.reset_index().set_index("index")
    if pre == "concat":
        return ddm.concat([src, src[src.rid < 0]])
    raise MachineryError("unknown derivation %r" % pre)


def _truthful(divs, parts):
    if not divs:
        return True
    if len(divs) != len(parts) + 1 or any(a > b for a, b in zip(divs, divs[1:])):
        return False
    for i, p in enumerate(parts):
        for r in p:
            if not (divs[i] <= r["idx"] and (r["idx"] <= divs[i + 1] if i == len(parts) - 1 else r["idx"] < divs[i + 1])):
                return False
    return True


def apply_derived(case):
    """Family "nd": source -> lazy step -> repartition(npartitions=n).  The derived collection is observed first and
    becomes the source of the record (its rows renumbered 0.. in order); a derived collection that cannot be built,
    is not truthful or whose metadata disagrees with its partitions is another property's business: skipped."""
    arg = case["arg"]

    def go():
        src = source_of(case["idx"], case["layout"], case["sdivs"], "int")
        try:
            y0 = derive(src, arg["pre"], case, "int")
            o0 = observe(y0, whole_too=False)
        except NotImplementedError:
            raise
        except Exception as ex:  # noqa: BLE001
            from ..frames import is_shim_error
            if is_shim_error(ex):
                raise
            return {"skip": "derived source (%s) raised %s" % (arg["pre"], type(ex).__name__)}
        rids = [r["rid"] for p in o0["parts"] for r in p]
        if len(set(rids)) != len(rids) or o0["nparts"] != len(o0["parts"]) or not _truthful(o0["divs"], o0["parts"]):
            return {"skip": "derived source (%s) is itself inconsistent" % arg["pre"]}
        return o0, observe(y0.repartition(npartitions=arg["n"]), whole_too=True)

    res = guarded(go)
    if isinstance(res, dict):
        if "skip" in res:
            return res
        res.pop("msg", None)
        # the repartition itself raised: the source of the record is rebuilt without the judged step
        o0 = guarded(lambda: observe(derive(source_of(case["idx"], case["layout"], case["sdivs"], "int"), arg["pre"], case, "int"),
                                     whole_too=False))
        if "skip" in o0 or o0.get("raised"):
            return {"skip": "derived source (%s) raised" % arg["pre"]}
        obs = res
    else:
        o0, obs = res
    order = {r["rid"]: i for i, r in enumerate(r for p in o0["parts"] for r in p)}
    obs = dict(obs, parts=[[{"rid": order.get(r["rid"], -1), "idx": r["idx"]} for r in p] for p in obs["parts"]])
    return {"op": "repart", "kind": "int", "fam": "nd", "idx": [r["idx"] for p in o0["parts"] for r in p],
            "layout": [len(p) for p in o0["parts"]], "sdivs": list(o0["divs"]), "arg": dict(arg), "obs": obs, "case": case}


def apply_case(case, kind):
    """Build the source, apply the request, observe.  Returns a record (op, idx, layout, sdivs, arg, obs)
    with all labels as integers, or {"skip": reason}."""
    ddm = dd()
    fam, arg = case["fam"], case["arg"]
    if arg.get("pre"):
        return apply_derived(case)
    known = set(case["idx"]) | set(case.get("sdivs", [])) | set(arg.get("d", []))

    def go():
        if fam == "fp":
            kw = {"npartitions": arg["v"]} if arg["mode"] == "n" else {"chunksize": arg["v"]}
            y = ddm.from_pandas(frame_of(case["idx"], kind), sort=bool(arg["sort"]), **kw)
        else:
            src = source_of(case["idx"], case["layout"], case["sdivs"], kind)
            if arg["k"] == "n":
                y = src.repartition(npartitions=arg["n"])
            elif arg["k"] == "d":
                y = src.repartition(divisions=[label_of(r, kind) for r in arg["d"]], force=bool(arg["force"]))
            else:
                y = src.repartition(partition_size=int(arg["bytes"]))
        return observe_as_ranks(y, kind, sorted(known), whole_too=True)

    res = guarded(go)
    if isinstance(res, dict):                    # skip or raised
        if "skip" in res:
            return res
        obs, remap = res, (lambda r: r)
        obs.pop("msg", None)
    else:
        obs, remap = res
    rec = {"op": "from_pandas" if fam == "fp" else "repart", "kind": kind, "fam": fam,
           "idx": [remap(r) for r in case["idx"]], "arg": dict(arg), "obs": obs, "case": case}
    if fam != "fp":
        rec["layout"] = list(case["layout"])
        rec["sdivs"] = [remap(r) for r in case["sdivs"]]
    if "d" in arg:
        rec["arg"]["d"] = [remap(r) for r in arg["d"]]
    return rec


def _work(item):
    case, kind = item
    return apply_case(case, kind)


# ----------------------------------------------------------------------------- classification
def classify(rec, clauses):
    """Input class / call site of a violation: operation, direction of the request relative to the source,
    whether the source's divisions are known, index dtype class, and what kind of promise is broken (rows /
    raised / metadata inconsistent with the computed partitions / only the partition count)."""
    case, arg = rec["case"], rec["arg"]
    cs = set(clauses)
    group = ("rows" if ROW_CLAUSES & cs else "raised" if "Raised" in cs else "illegal-accepted" if "IllegalAccepted" in cs
             else "count" if cs <= {"ExactN", "DeclaredN"}       # metadata consistent, only the number differs from the request
             else "metadata")                                    # declared npartitions/divisions != what is computed, compute() fails
    if rec["op"] == "from_pandas":
        srt = "sorted-input" if list(case["idx"]) == sorted(case["idx"]) else "unsorted-input"
        return "from_pandas:%s:sort=%s:%s:%s" % ("npartitions" if arg["mode"] == "n" else "chunksize", bool(arg["sort"]), srt, group)
    sdivs, layout = rec.get("sdivs", case["sdivs"]), rec.get("layout", case["layout"])     # family "nd": the derived source
    known = "known-divs" if sdivs else "unknown-divs"
    nsrc = len(layout)
    if arg["k"] == "n":
        direction = "more" if arg["n"] > nsrc else "fewer" if arg["n"] < nsrc else "same"
        # the code path: known numeric/datetime divisions are interpolated when the count grows, otherwise partitions
        # are split evenly / concatenated
        path = ("interpolated" if rec["kind"] != "str" else "split") if (direction == "more" and sdivs) else \
               {"more": "split", "fewer": "concat", "same": "identity"}[direction]
        if arg.get("pre") and not (group == "count" and path == "interpolated"):
            # a lazy step sits under the repartition: optimizer rewrites of that pair are the call site (a pure count
            # deviation on interpolated divisions is the documented approximation whatever the source went through)
            return "repartition:npartitions:after-%s:%s:%s:%s" % (arg["pre"], direction, known, group)
        return "repartition:npartitions:%s:%s:%s:%s" % (direction, known, path, group)
    if arg["k"] == "d":
        return "repartition:divisions:force=%s:%s:%s" % (bool(arg["force"]), known, group)
    return "repartition:partition_size:%s:%s" % (known, group)


# ----------------------------------------------------------------------------- case generation
def bounds(ctx):
    B = lambda rows, labels, parts, maxn, maxd, urows: dict(rows=rows, labels=labels, parts=parts, maxn=maxn, maxd=maxd, urows=urows)  # noqa: E731
    if ctx.quick:
        return {"n": B(3, 3, 3, 6, 2, 0), "nd": B(3, 2, 2, 4, 2, 0), "d": B(2, 2, 2, 3, 2, 0), "size": B(3, 2, 2, 3, 2, 0), "fp": B(4, 3, 1, 5, 2, 3)}
    return {"n": B(6, 3, 4, 6, 2, 4), "nd": B(4, 3, 3, 5, 2, 3), "d": B(3, 3, 3, 3, 2, 0), "size": B(4, 3, 3, 3, 2, 3), "fp": B(6, 3, 1, 6, 2, 6)}


def enumerate_cases(ctx, bnds, label="design+cases"):
    """One TLC run per family, run concurrently (TLC generates initial states on one thread)."""
    jobs = []
    for fam in sorted(bnds):
        spec, cfg = ctx.model(ctx.spec("frame", "DivisionsMC.tla"), {"Fams": {fam}, "Bounds": {fam: bnds[fam]}},
                              invariants=["SourcesOK", "RefMeetsContract", "ContractBites", "IllegalMayRaise"])
        jobs.append((fam, spec, cfg))
    return [c for cases in parallel_tlc_cases(ctx, [("%s:%s" % (label, fam), spec, cfg) for fam, spec, cfg in jobs]) for c in cases]


def degenerate(c):
    """Sources whose known divisions are degenerate (one distinct label) or that have a single row."""
    return c["fam"] in ("n", "d") and bool(c.get("sdivs")) and len(set(c["idx"])) == 1


def weak_comp(rng, n, m):
    cuts = sorted(rng.randint(0, n) for _ in range(m - 1))
    pts = [0] + cuts + [n]
    return [b - a for a, b in zip(pts, pts[1:])]


def truthful_divs(rng, idx, layout):
    """A random truthful division vector (strictly increasing, last may repeat) for a sorted source, or None
    when equal labels straddle a partition boundary."""
    parts, pos = [], 0
    for k in layout:
        parts.append(idx[pos:pos + k])
        pos += k
    lo, hi = idx[0] - rng.randint(0, 1), idx[-1] + rng.randint(0, 1)
    divs = [lo]
    for i in range(1, len(parts)):
        prev = max((p[-1] for p in parts[:i] if p), default=None)    # greatest label before boundary i
        nxt = min((p[0] for p in parts[i:] if p), default=None)      # smallest label after it
        low = max(divs[-1] + 1, prev + 1 if prev is not None else divs[-1] + 1)
        high = nxt if nxt is not None else low + 1
        if low > high:
            return None
        divs.append(rng.randint(low, min(high, low + 2)))
    divs.append(max(hi, divs[-1]))
    return divs


def random_cases(rng, n):
    """code -> spec: larger frames (up to 24 rows, up to 9 labels, up to 6 source partitions)."""
    out = []
    while len(out) < n:
        rows = rng.randint(5, 24)
        nl = rng.randint(1, 9)
        idx = [rng.randrange(nl) for _ in range(rows)]
        fam = rng.choice(["n", "n", "d", "size", "fp"])
        if fam == "fp":
            if rng.random() < 0.5:
                idx.sort()
            out.append({"fam": "fp", "idx": idx, "arg": {"k": "fp", "mode": rng.choice(["n", "c"]), "v": rng.randint(1, 9),
                                                         "sort": rng.random() < 0.6}})
            continue
        layout = weak_comp(rng, rows, rng.randint(1, 6))
        sdivs = []
        if fam == "d" or rng.random() < 0.6:
            idx.sort()
            sdivs = truthful_divs(rng, idx, layout)
            if sdivs is None:
                if fam == "d":
                    continue
                sdivs = []
        if fam == "n":
            arg = {"k": "n", "n": rng.randint(1, 9)}
            if rng.random() < 0.35:
                fam, arg["pre"] = "nd", rng.choice(["head", "tail", "filter", "proj", "loc", "concat"])
        elif fam == "size":
            arg = {"k": "size", "bytes": rng.choice([8, 16, 40, 100, 160, 1000])}
        else:
            lo, hi = sdivs[0], sdivs[-1]
            force = rng.random() < 0.4
            if force:
                lo, hi = lo - rng.randint(0, 2), hi + rng.randint(0, 2)
            inner = sorted(set(rng.randint(lo, hi) for _ in range(rng.randint(0, 5))) - {lo})
            d = [lo] + inner + ([hi] if (not inner or inner[-1] < hi or rng.random() < 0.5) else [])
            if len(d) < 2:
                d.append(hi)
            if rng.random() < 0.1:
                d[-1] = d[-1] - 1 if rng.random() < 0.5 else d[-1]          # sometimes not covering: illegal
            arg = {"k": "d", "d": d, "force": force}
        out.append({"fam": fam, "idx": idx, "layout": layout, "sdivs": sdivs, "arg": arg})
    return out


# ----------------------------------------------------------------------------- run
def check_cases(ctx, items, label):
    """items: [(case, kind)] -> ([(rec, clauses, mult)], records, skips).  Shared by run() and selftest()."""
    recs, skips = [], []
    for r in pmap(_work, items, chunk=16):
        if "skip" in r:
            skips.append(r["skip"])
        else:
            recs.append(r)
    pool = Verdicts(JUDGED, CLAUSES)
    pool.add(recs)
    return pool.decide(ctx, label), recs, skips


def nontrivial(rec):
    return len(rec["idx"]) >= 2 and rec["obs"]["raised"] == ""


def run(ctx):
    dd()
    rng = ctx.rng
    cases = enumerate_cases(ctx, bounds(ctx))
    ctx.extra["cases_enumerated_by_tlc"] = len(cases)
    byfam = {}
    for c in cases:
        byfam.setdefault(c["c"]["fam"], []).append(c["c"])
    quota = ctx.pick({"n": 1300, "nd": 900, "d": 1000, "size": 150, "fp": 600}, {"n": 14000, "nd": 9000, "d": 9000, "size": 2000, "fp": 6000})
    items = []
    for fam in sorted(byfam):
        pool = byfam[fam]
        must = [c for c in pool if degenerate(c)]
        rest = [c for c in pool if not degenerate(c)]
        must = must if len(must) <= quota[fam] // 3 else rng.sample(must, quota[fam] // 3)
        pick = must + rng.sample(rest, min(len(rest), quota[fam] - len(must)))
        ctx.extra["replayed_%s" % fam] = "%d of %d" % (len(pick), len(pool))
        items += [(c, "int") for c in pick]
    nrand = ctx.pick(450, 6000)
    items += [(c, rng.choice(KINDS)) for c in random_cases(rng, nrand)]
    bad, recs, skips = check_cases(ctx, items, "contract:recorded-observations")
    for s in skips:
        ctx.skip(s)
    if len(skips) > len(items) // 2:
        raise MachineryError("more than half of the cases were skipped: %r" % sorted(set(skips))[:3])
    for r in recs:
        ctx.count((r["kind"], r["case"]), nontrivial(r))
    for rec, clauses, mult in bad:
        if "BadSource" in clauses:
            raise MachineryError("the harness built a source that breaks the precondition: %r" % (rec["case"],))
        for _ in range(mult):
            ctx.violation(classify(rec, clauses), "%s: clauses %s fail (observed nparts=%s divs=%s, %d partitions computed%s)"
                          % (rec["op"], clauses, rec["obs"]["nparts"], rec["obs"]["divs"], len(rec["obs"]["parts"]),
                             ", compute() raised " + rec["obs"]["wholeraised"] if rec["obs"].get("wholeraised") else ""),
                          {"case": rec["case"], "kind": rec["kind"], "clauses": clauses, "observed": rec["obs"]})
    for fam in ("n", "nd", "d", "fp"):
        ex = next((r for r in recs if r["fam"] == fam and nontrivial(r)), None)
        if ex:
            ctx.sample({"case": ex["case"], "kind": ex["kind"], "observed": ex["obs"]})
    ctx.exhaustive = False
    ctx.rule = ("cases = TLC-enumerated (label sequence, source partitioning, declared divisions, request) tuples - a seeded sample "
                "per family with every degenerate-division source included - plus seeded larger frames over four index dtypes; "
                "non-trivial = at least two rows and the operation returned; distinct by (case, index dtype)")
    ctx.assumptions = ["TLC evaluates the contract correctly", "from_parts builds exactly the given partitions",
                       "the label -> integer projection preserves order and equality", "pandas per-partition kernels are correct"]


# ----------------------------------------------------------------------------- replay
def replay(ctx, obj):
    dd()
    c = obj["case"]
    bad, recs, skips = check_cases(ctx, [(c["case"], c.get("kind", "int"))], "replay")
    for r in recs:
        print("case:", r["case"], "kind:", r["kind"], "\nobserved:", r["obs"])
    print("skipped:", skips, "rejected clauses:", [cl for _, cl, _ in bad])
    return bool(bad)


# ----------------------------------------------------------------------------- selftest
def selftest(ctx):
    """Binding demonstration with ONE TLC run: the same small case set is executed on the unmutated code and
    under each in-memory mutant; all records (tagged) plus corrupted copies of a genuine record go to TLC."""
    from ..divisions import mutate, patched_attr as patched
    dd()
    import dask.dataframe.dask_expr._repartition as rp
    import dask.dataframe.dask_expr.io.io as exio
    import dask.dataframe.methods as methods
    rng = ctx.rng
    items = [(c, "int") for c in random_cases(rng, 120)]
    for idx in ([0], [0, 1], [1, 0, 1], [0, 0, 1, 2], [2, 1, 0, 1, 2]):
        for layout in ([len(idx)], [1, len(idx) - 1], [0, len(idx), 0], [1] * len(idx)):
            for n in (1, 2, 3, 5):
                items.append(({"fam": "n", "idx": idx, "layout": layout, "sdivs": [], "arg": {"k": "n", "n": n}}, "int"))
        for mode in ("n", "c"):
            for v in (1, 2, 3):
                items.append(({"fam": "fp", "idx": idx, "arg": {"k": "fp", "mode": mode, "v": v, "sort": False}}, "int"))
    tagged = []

    def collect(tag):
        for r in pmap(_work, items, chunk=16):
            if "skip" not in r:
                tagged.append(dict(r, tag=tag))

    collect("baseline")
    mutants = [
        ("RepartitionToFewer: one boundary too few (range(n_new_partitions + 1) -> range(n_new_partitions))", rp.RepartitionToFewer,
         "_compute_partition_boundaries",
         mutate(vars(rp.RepartitionToFewer)["_compute_partition_boundaries"], "range(n_new_partitions + 1)", "range(n_new_partitions)")),
        ("RepartitionToMore: remainder splits dropped (nsplits[-1] += mod removed)", rp.RepartitionToMore, "_nsplits",
         mutate(vars(rp.RepartitionToMore)["_nsplits"], "nsplits[-1] += mod", "pass")),
        ("boundary_slice: right-open slice keeps one row too many (iloc[:right_index + 1])", methods, "boundary_slice",
         mutate(methods.boundary_slice, "result = result.iloc[:right_index]", "result = result.iloc[: right_index + 1]")),
        ("FromPandas: last location of an unsorted frame off by one (len(data) - 1)", exio.FromPandas, "_divisions_and_locations",
         mutate(vars(exio.FromPandas)["_divisions_and_locations"],
                "locations = list(range(0, nrows, chunksize)) + [len(data)]", "locations = list(range(0, nrows, chunksize)) + [len(data) - 1]")),
    ]
    for name, target, attr, mut in mutants:
        with patched([target], attr, mut):
            collect(name)
    good = apply_case({"fam": "n", "idx": [0, 0, 1, 2], "layout": [1, 3], "sdivs": [], "arg": {"k": "n", "n": 3}}, "int")
    o = good["obs"]
    flat = [r for p in o["parts"] for r in p]
    flat[0], flat[-1] = flat[-1], flat[0]
    variants = {
        "genuine": good,
        "two rows swapped": dict(good, obs=dict(o, parts=[flat])),
        "last partition dropped (event lost)": dict(good, obs=dict(o, parts=o["parts"][:-1])),
        "declared npartitions off by one": dict(good, obs=dict(o, nparts=o["nparts"] + 1)),
        "a label changed": dict(good, obs=dict(o, parts=[[dict(r, idx=r["idx"] + 1) if r["rid"] == 0 else r for r in p] for p in o["parts"]])),
    }
    tagged += [dict(rec, tag="record:" + name) for name, rec in variants.items()]
    pool = Verdicts(JUDGED + ("tag",), CLAUSES)
    pool.add(tagged)
    bytag = {}
    for rec, clauses, mult in pool.decide(ctx, "selftest"):
        sig = classify(rec, clauses)
        if sig not in ctx.known:
            bytag.setdefault(rec["tag"], {}).setdefault(sig if not rec["tag"].startswith("record:") else str(clauses), 0)
            bytag[rec["tag"]][sig if not rec["tag"].startswith("record:") else str(clauses)] += mult
    ok = True
    base = bytag.get("baseline", {})
    print("selftest C44 baseline (unmutated code, %d cases): violations outside known findings %s -> %s"
          % (len(items), base, "ok" if not base else "UNEXPECTED"))
    ok &= not base
    for name, _t, _a, _m in mutants:
        got = bytag.get(name, {})
        print("selftest C44 mutant [%s]: violations %s -> %s" % (name, got, "DETECTED" if got else "MISSED"))
        ok &= bool(got)
    acc = "record:genuine" not in bytag
    print("selftest C44 trace: genuine record accepted -> %s" % ("ok" if acc else "UNEXPECTED %s" % bytag.get("record:genuine")))
    ok &= acc
    for name in list(variants)[1:]:
        got = bytag.get("record:" + name)
        print("selftest C44 corrupted record [%s]: %s" % (name, "REJECTED %s" % list(got) if got else "ACCEPTED (missed)"))
        ok &= bool(got)
    print("selftest C44: %s" % ("all binding demonstrations hold" if ok else "FAILED"))
    return 0 if ok else 1
