"""C02 - Each needed task runs exactly once and only after its dependencies finished.  See harness/schedrun.py (shared by C01-C04) and specs/sched/LocalScheduler*.tla."""
from .. import schedrun as R

META = dict(R.META_COMMON, title="Each needed task runs exactly once and only after its dependencies finished", level_text="TLC model-checks AtMostOnce/ExactlyNeeded/OnlyNeeded/DepsFirst on all interleavings; replay compares ready/running/waiting/finished after every callback and the execution log of the Herbrand functions; real pool traces (with exec events ordered under one lock) are validated by TLC.")


def run(ctx):
    R.run_property(ctx, "C02")


def replay(ctx, obj):
    return R.replay_case(ctx, "C02", obj)


def selftest(ctx):
    return R.selftest_property(ctx, "C02")
