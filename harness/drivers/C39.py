"""C39 - joins and concatenation equal pandas.

spec -> code: specs/frame/JoinsMC.tla enumerates merge cases (every pair of key sequences over {0,1,2,NA},
four key modes column/index, with the row set every join type must produce and the row sequence where an
order is promised), concat cases (axis 0 with differing column sets, axis 1), merge_asof cases and ALL row
partitionings; TLC checks the relational laws the lowering relies on.  Every case is crossed (seeded) with
partitionings of both operands incl. empty partitions, known / unknown divisions, broadcast, shuffle_method,
npartitions, suffixes, indicator, merge / join spelling, and run on real dask collections built with EXACTLY
those partitions; every output partition is computed through its own key.  Each output row names the input
rows it came from (lrid / rrid columns).  pandas is only the reference guard.
code -> spec: seeded larger frames are recorded and TLC (JoinsTrace.tla) decides every record; a sample of the
enumerated records goes the same way and must get the verdict the replay judge gave."""
from __future__ import annotations

import re
import warnings

import numpy as np
import pandas as pd

from ..core import MachineryError
from ..divisions import dd, mutate, parts_collection, patched_attr
from ..frameobs import CallTimeout, partitions_of, time_limit
from ..frames import is_shim_error, split_rows
from ..par import pmap
from ..rowids import ABSENT, NA, NO_PRE, SCALE, apply_pre, cell, make_divs, pre_relation, split, strategy_of, truthful, unlabel

META = {
    "title": "Joins and concatenation equal pandas",
    "design_ref": "DESIGN.md §4.4 C39",
    "technique": "TLA+ reference semantics of merge / join / concat / merge_asof as relational algebra over row ids (Pattern C); "
                 "TLC enumerates key sequences x join types x key modes and all row partitionings and checks the decomposition "
                 "laws of hash / broadcast joins; replay on real dask collections with exactly those partitions; recorded calls "
                 "decided by TLC",
    "level_text": "Small-scope: TLC enumerates every pair of key sequences over {0,1,2,NA} (quick: all pairs with <= 4 rows in total, "
                  "a salted 1/Mod hash sample up to 4+4 rows, every pair of sorted sequences for index joins; thorough: up to 5+5 rows) "
                  "for the modes column-column, column PAIR (two key columns), index-index, index-column, column-index, with the expected rows of inner / left / right / "
                  "outer / leftsemi, plus concat (axis 0: 2-3 frames, differing column sets, join outer/inner; axis 1), merge_asof "
                  "(direction, allow_exact_matches, tolerance, by) and ALL row partitionings with <= 3 parts incl. empty ones. A seeded "
                  "sample of (case, join type) is crossed with partitionings, known/unknown divisions, broadcast in {None, True, False}, "
                  "shuffle_method in {None, tasks, disk}, npartitions, suffixes, indicator, merge/join spelling and replayed on dask; a family of "
                  "column joins runs on PRE-PARTITIONED operands (each operand fresh, or sent through shuffle(on=K') / an earlier hash join on K' / "
                  "groupby(K').first(split_out) / set_index first, K' equal to, a proper subset or superset of, overlapping or disjoint from the "
                  "join keys, equal and unequal partition counts), where the expected rows are those of the fresh operands; "
                  "judged: row multiset incl. indicator / key / value cells, row order where promised (index-aligned joins of sorted "
                  "operands with known divisions, concat axis 0 without interleaving, merge_asof), declared npartitions/divisions vs "
                  "computed partitions, truthful known divisions, compute() = concatenation of the partitions.",
    "level_note": "Trusted: TLC, the TLA+ reference (cross-checked against pandas on every replayed case and against pandas' own result "
                  "for every recorded random case; a disagreement is a machinery error), harness.divisions.parts_collection (from_delayed) "
                  "to build operands, the cell projection, the inert pyarrow shim, pandas per-partition kernels. The dask side is a seeded "
                  "sample of the enumerated space, not exhaustive. HashJoinP2P needs `distributed` (absent): the tasks / disk / broadcast / "
                  "partition-wise lowerings are what run. Keys of more than two columns, categorical / string keys and merges of more than two frames "
                  "(JoinRecursive) are outside the check; index-with-column joins are judged on rids and value cells only.",
}

CLAUSES = ["BadCase", "Raised", "Rows", "Order", "Meta", "Truthful", "WholeOK", "UnknownOp"]
SUFFIXES = [["_x", "_y"], ["_l", "_r"], ["", "_r"], ["_l", ""]]
MERGE_CODE = {"both": 0, "left_only": 1, "right_only": 2}
HOWS = {"cc": ["inner", "left", "right", "outer", "leftsemi"], "ic": ["inner", "left", "right", "outer", "leftsemi"],
        "ii": ["inner", "left", "right", "outer"], "ci": ["inner", "left", "right", "outer"],
        "kk": ["inner", "left", "right", "outer", "leftsemi"]}
KEYCOLS = {"cc": ["k"], "kk": ["k", "k2"]}


# ----------------------------------------------------------------------------- building operands
def _keycol(vals):
    """Key cells (column or index) of the real frames hold SCALE * the key of the specification: int64 when nothing is
    missing, float64 with NaN otherwise (so the two operands may well disagree on the dtype, as real data does)."""
    if any(v == NA for v in vals):
        return np.array([np.nan if v == NA else float(SCALE * v) for v in vals], dtype="f8")
    return np.array([SCALE * v for v in vals], dtype="i8")


def _index(vals):
    return pd.Index(_keycol(vals))


def merge_frames(case, naming):
    mode = case["mode"]

    def side(rows, s, on_index, keyname):
        rid = [r["rid"] for r in rows]
        data = {}
        if not on_index:
            data[keyname] = _keycol([r["k"] for r in rows])
        if mode in ("cc", "kk"):         # the second key column (joined on in mode "kk", a bystander otherwise)
            data[keyname + "2"] = np.array([r.get("k2", 0) for r in rows], dtype="i8")
        data["lrid" if s == "L" else "rrid"] = np.array(rid, dtype="i8")
        data["v"] = np.array([(10 if s == "L" else 20) + x for x in rid], dtype="i8")
        if "b" in (rows[0] if rows else {}):
            data["b"] = np.array([r["b"] for r in rows], dtype="i8")
        return pd.DataFrame(data, index=_index([r["idx"] for r in rows]))

    return (side(case["L"], "L", mode in ("ii", "ic"), "k"),
            side(case["R"], "R", mode in ("ii", "ci"), "kr" if naming == "lr" else "k"))


def merge_kwargs(mode, naming):
    if mode == "kk":
        return {"on": ["k", "k2"]} if naming == "on" else {"left_on": ["k", "k2"], "right_on": ["kr", "kr2"]}
    if mode == "cc":
        return {"on": "k"} if naming == "on" else {"left_on": "k", "right_on": "kr"}
    if mode == "ii":
        return {"left_index": True, "right_index": True}
    if mode == "ic":
        return {"left_index": True, "right_on": "k"}
    return {"left_on": "k", "right_index": True}


def concat_frames(case):
    out = []
    for f, fr in enumerate(case["frames"], 1):
        rid = [r["rid"] for r in fr["rows"]]
        data = {"fid": np.full(len(rid), f, dtype="i8"), "rid": np.array(rid, dtype="i8")}
        for c in "abc":
            if c in fr["cols"]:
                data[c] = np.array([30 * "abc".index(c) + 10 * (f - 1) + x for x in rid], dtype="i8")
        out.append(pd.DataFrame(data, index=_index([r["idx"] for r in fr["rows"]])))
    return out


def concat1_frames(case):
    L = pd.DataFrame({"lrid": np.array([r["rid"] for r in case["L"]], dtype="i8")}, index=_index([r["idx"] for r in case["L"]]))
    R = pd.DataFrame({"rrid": np.array([r["rid"] for r in case["R"]], dtype="i8")}, index=_index([r["idx"] for r in case["R"]]))
    return L, R


def source(pdf, layout, divs, key):
    return parts_collection(split_rows(pdf, layout), tuple(divs) if divs else None, key=key)


# ----------------------------------------------------------------------------- projection of results
def _col(pdf, name, default):
    if name in pdf.columns:
        return [cell(v) for v in pdf[name].tolist()]
    return [default] * len(pdf)


def _norow(xs):
    return [0 if x == NA else x for x in xs]


def project_merge(pdf, mode, how, naming, sfx, ind):
    """One pandas frame (a partition, or pandas' own result) -> rows [t = <<l, r, m, kl, kr, kc, vx, vy>>, idx]."""
    n = len(pdf)
    idx = [cell(v) for v in pdf.index.tolist()]
    lcol = _norow(_col(pdf, "lrid", ABSENT))
    rcol = _norow(_col(pdf, "rrid", NA if how == "leftsemi" else ABSENT))
    if "_merge" in pdf.columns:
        m = [MERGE_CODE.get(str(v), ABSENT) for v in pdf["_merge"].tolist()]
    else:
        m = [ABSENT if ind else 0] * n
    kl = [unlabel(c) for c in _col(pdf, "k", ABSENT)] if naming == "lr" else [ABSENT] * n
    kr = [unlabel(c) for c in _col(pdf, "kr", NA if how == "leftsemi" else ABSENT)] if naming == "lr" else [ABSENT] * n
    if naming == "on":
        kc = [unlabel(c) for c in (_col(pdf, "k", ABSENT) if mode in ("cc", "kk") else idx)]
    else:
        kc = [ABSENT] * n
    if mode == "kk":                     # the key is the pair <<k, k2>>
        pair = lambda ks, name, dflt: [[a, b] for a, b in zip(ks, _col(pdf, name, dflt))]      # noqa: E731
        kl = pair(kl, "k2", ABSENT) if naming == "lr" else [[ABSENT, ABSENT]] * n
        kr = pair(kr, "kr2", NA if how == "leftsemi" else ABSENT) if naming == "lr" else [[ABSENT, ABSENT]] * n
        kc = pair(kc, "k2", ABSENT) if naming == "on" else [[ABSENT, ABSENT]] * n
    if how == "leftsemi":
        vx = _col(pdf, "v", ABSENT)
        vy = _col(pdf, "v" + sfx[1], NA) if sfx[1] else [NA] * n
    else:
        vx = _col(pdf, "v" + sfx[0], ABSENT)
        vy = _col(pdf, "v" + sfx[1], ABSENT)
    return [{"t": [lcol[i], rcol[i], m[i], kl[i], kr[i], kc[i], vx[i], vy[i]], "idx": idx[i]} for i in range(n)]


def project_concat(pdf):
    idx = [cell(v) for v in pdf.index.tolist()]
    cols = [_col(pdf, "fid", ABSENT), _col(pdf, "rid", ABSENT), [unlabel(c) for c in idx]] + [_col(pdf, c, ABSENT) for c in "abc"]
    return [{"t": [c[i] for c in cols], "idx": idx[i]} for i in range(len(pdf))]


def project_concat1(pdf):
    idx = [cell(v) for v in pdf.index.tolist()]
    lcol, rcol = _norow(_col(pdf, "lrid", ABSENT)), _norow(_col(pdf, "rrid", ABSENT))
    return [{"t": [unlabel(idx[i]), lcol[i], rcol[i]], "idx": idx[i]} for i in range(len(pdf))]


def project_asof(pdf):
    idx = [cell(v) for v in pdf.index.tolist()]
    lcol, rcol = _norow(_col(pdf, "lrid", ABSENT)), _norow(_col(pdf, "rrid", ABSENT))
    return [{"t": [lcol[i], rcol[i]], "idx": idx[i]} for i in range(len(pdf))]


def observe_coll(y, proj, whole, ordered=True):
    """ordered=False: compute() of the whole is compared with the partitions as a multiset (a hash shuffle - also the one a
    left/right broadcast join applies to the broadcast operand - does not promise the order in which rows arrive in a
    partition, and two computations may differ in it)."""
    declared = int(y.npartitions)
    divs = tuple(y.divisions)
    known = not any(d is None for d in divs)
    parts = [proj(p) for p in partitions_of(y)]
    obs = {"raised": "", "nparts": declared, "ndivs": len(divs), "divs": [cell(d) for d in divs] if known else [],
           "parts": parts, "wholeok": True}
    if whole:
        try:
            w = proj(y.compute(scheduler="sync"))
            flat = [r for p in parts for r in p]
            canon = (lambda rows: rows) if ordered else (lambda rows: sorted(r["t"] for r in rows))
            obs["wholeok"] = canon(w) == canon(flat)
        except Exception as ex:  # noqa: BLE001 - the partitions could be computed, the whole could not
            if is_shim_error(ex) or isinstance(ex, (CallTimeout, NotImplementedError)):
                raise
            obs["wholeok"] = False
            obs["wholeraised"] = type(ex).__name__
    return obs


def raised_obs(ex):
    return {"raised": type(ex).__name__, "nparts": 0, "ndivs": 0, "divs": [], "parts": [], "wholeok": True, "msg": str(ex)[:200]}


def guarded(fn, limit=60):
    """fn(note) -> obs; note(strategy) records which lowering was chosen before anything is computed.  Every exception from
    dask becomes an observation or a skip.  -> (obs, strategy)"""
    strat = ["construction"]
    try:
        with time_limit(limit), warnings.catch_warnings():
            warnings.simplefilter("ignore")
            return fn(lambda s: strat.__setitem__(0, s)), strat[0]
    except NotImplementedError as ex:
        return {"skip": "NotImplementedError: " + str(ex)[:60]}, strat[0]
    except Exception as ex:  # noqa: BLE001 - an exception from dask is an observation
        if is_shim_error(ex):
            return {"skip": "pyarrow shim"}, strat[0]
        return raised_obs(ex), strat[0]


# ----------------------------------------------------------------------------- running one case on dask
def run_merge(case, how, cfg):
    sfx, mode, naming = cfg["sfx"], case["mode"], cfg["naming"]
    L, R = merge_frames(case, naming)

    lpre, rpre = case.get("lpre") or NO_PRE, case.get("rpre") or NO_PRE
    pre = lpre["how"] != "none" or rpre["how"] != "none"

    def go(note):
        dl = source(L, cfg["llay"], cfg["ldivs"], ("L", case, cfg))
        dr = source(R, cfg["rlay"], cfg["rdivs"], ("R", case, cfg))
        if pre:
            rk = "kr" if naming == "lr" else "k"
            dl = apply_pre(dl, L, lpre, {"k": "k", "k2": "k2", "v": "v", "rid": "lrid"}, cfg.get("lpren"), cfg.get("premethod"), "wl")
            dr = apply_pre(dr, R, rpre, {"k": rk, "k2": rk + "2", "v": "v", "rid": "rrid"}, cfg.get("rpren"), cfg.get("premethod"), "wr")
        if cfg["api"] == "join":
            y = dl.join(dr, on="k" if mode == "ci" else None, how=how, lsuffix=sfx[0], rsuffix=sfx[1],
                        shuffle_method=cfg["method"], npartitions=cfg["npart"])
        else:
            y = dl.merge(dr, how=how, suffixes=tuple(sfx), indicator=cfg["ind"], shuffle_method=cfg["method"],
                         npartitions=cfg["npart"], broadcast=cfg["broadcast"], **merge_kwargs(mode, naming))
        strat = strategy_of(y)
        note(strat)
        return observe_coll(y, lambda p: project_merge(p, mode, how, naming, sfx, cfg["ind"]), cfg["whole"], ordered=strat in ("aligned", "blockwise") and not pre)

    return guarded(go)


def pandas_merge(case, how, cfg):
    sfx, mode, naming = cfg["sfx"], case["mode"], cfg["naming"]
    L, R = merge_frames(case, naming)
    kw = merge_kwargs(mode, naming)
    with warnings.catch_warnings():
        warnings.simplefilter("ignore")
        if how == "leftsemi":
            # pandas has no semi join: rows of the left frame whose key occurs on the right (isin matches NaN with NaN)
            if mode == "kk":
                rkeys = set(map(tuple, R[kw.get("right_on") or kw["on"]].astype("f8").fillna(-1.0).values.tolist()))
                out = L[[tuple(t) in rkeys for t in L[kw.get("left_on") or kw["on"]].astype("f8").fillna(-1.0).values.tolist()]]
            else:
                lkeys = L.index if kw.get("left_index") else L[kw.get("left_on") or kw["on"]]
                out = L[np.asarray(lkeys.isin(R[kw.get("right_on") or kw["on"]]))]
        else:
            out = L.merge(R, how=how, suffixes=tuple(sfx), indicator=cfg["ind"], **kw)
    return project_merge(out, mode, how, naming, sfx, cfg["ind"])


def run_concat(case, cfg):
    pdfs = concat_frames(case)

    def go(note):
        ddm = dd()
        note("interleaved" if interleaves(cfg["divs"], cfg["interleave"]) else "stacked")
        colls = [source(p, cfg["lays"][f], cfg["divs"][f], ("C", f, case, cfg)) for f, p in enumerate(pdfs)]
        y = ddm.concat(colls, join=case["join"], interleave_partitions=cfg["interleave"])
        return observe_coll(y, project_concat, cfg["whole"])

    return guarded(go)


def run_concat1(case, cfg):
    L, R = concat1_frames(case)

    def go(note):
        ddm = dd()
        note("axis1")
        y = ddm.concat([source(L, cfg["llay"], cfg["ldivs"], ("XL", case, cfg)), source(R, cfg["rlay"], cfg["rdivs"], ("XR", case, cfg))],
                       axis=1, join=case["join"])
        return observe_coll(y, project_concat1, cfg["whole"])

    return guarded(go)


def asof_kwargs(case):
    kw = {"direction": case["direction"], "allow_exact_matches": bool(case["exact"])}
    if case["tol"] != NA:
        kw["tolerance"] = case["tol"] * SCALE
    if case["by"]:
        kw["by"] = "b"
    if case["mode"] == "ii":
        kw.update(left_index=True, right_index=True)
    else:
        kw["on"] = "k"
    return kw


def run_asof(case, cfg):
    L, R = merge_frames(case, "on")

    def go(note):
        ddm = dd()
        note("asof-" + case["mode"])
        y = ddm.merge_asof(source(L, cfg["llay"], cfg["ldivs"], ("AL", case, cfg)), source(R, cfg["rlay"], cfg["rdivs"], ("AR", case, cfg)),
                           **asof_kwargs(case))
        return observe_coll(y, project_asof, cfg["whole"])

    return guarded(go)


# ----------------------------------------------------------------------------- judging (mirrors Joins!MergeBad etc.)
def _h(x):
    return tuple(x) if isinstance(x, list) else x


def jt(t, mask, ind):
    return tuple(_h(t[q]) if mask[q] and (q != 2 or ind) else 0 for q in range(8))


def interleaves(fdivs, interleave):
    known = all(d for d in fdivs)
    mono = known and all(fdivs[f][-1] < fdivs[f + 1][0] for f in range(len(fdivs) - 1))
    return bool(interleave and known and not mono)


def common_clauses(obs):
    bad = []
    if not (obs["nparts"] == len(obs["parts"]) and obs["ndivs"] == obs["nparts"] + 1):
        bad.append("Meta")
    if obs["divs"] and not truthful(obs["divs"], [[r["idx"] for r in p] for p in obs["parts"]]):
        bad.append("Truthful")
    if not obs["wholeok"]:
        bad.append("WholeOK")
    return bad


def judge(rec, exp):
    """Clauses of Joins!<Op>Bad the record violates, from the expected result TLC exported for its case."""
    obs, op = rec["obs"], rec["op"]
    if obs["raised"]:
        return ["Raised"]
    got = [tuple(r["t"]) for p in obs["parts"] for r in p]
    bad = []
    if op == "merge":
        mask = exp["mask"][rec["naming"]]
        got = [jt(t, mask, rec["ind"]) for t in got]
        want = [jt(t, mask, rec["ind"]) for t in exp["rows"][rec["how"]]]
        same = sorted(got) == sorted(want)
        promised = rec["mode"] == "ii" and rec["lknown"] and rec["rknown"] and bool(exp["seq"])
        if same and promised and [t[5] for t in got] != [jt(t, mask, rec["ind"])[5] for t in exp["seq"][rec["how"]]]:
            bad.append("Order")
    elif op == "concat":
        want = [tuple(t) for t in exp["rows"]]
        same = sorted(got) == sorted(want)
        if same and not interleaves(rec["fdivs"], rec["interleave"]) and got != want:
            bad.append("Order")
    elif op == "concat1":
        same = sorted(got) == sorted(tuple(t) for t in exp["rows"])
    else:
        want = [tuple(t) for t in exp["pairs"]]
        same = sorted(got) == sorted(want)
        if same and got != want:
            bad.append("Order")
    if not same:
        bad.insert(0, "Rows")
    return bad + common_clauses(obs)


# ----------------------------------------------------------------------------- configurations
def _labels(rows):
    return [float("nan") if r["idx"] == NA else SCALE * r["idx"] for r in rows]


def pick_layout(rng, layouts, n, multi=0.75):
    pool = layouts[n]
    if rng.random() < multi:
        many = [x for x in pool if len(x) > 1]
        pool = many or pool
    return list(rng.choice(pool))


def layout_with_divs(rng, layouts, rows, want_known, tries=4):
    """-> (layout, divisions or None): when known divisions are wanted, layouts are re-drawn until one admits them."""
    labels = _labels(rows)
    lay = pick_layout(rng, layouts, len(rows))
    if not want_known:
        return lay, None
    for _ in range(tries):
        d = make_divs(labels, lay, rng)
        if d is not None:
            return lay, d
        lay = pick_layout(rng, layouts, len(rows))
    return lay, make_divs(labels, lay, rng)


def merge_config(rng, layouts, case, how, exp_mask):
    mode = case["mode"]
    naming = rng.choice(sorted(exp_mask))
    sortedii = mode == "ii" and all(r["idx"] != NA for r in case["L"] + case["R"]) and all(
        a["idx"] <= b["idx"] for rows in (case["L"], case["R"]) for a, b in zip(rows, rows[1:]))
    known_l = rng.random() < (0.8 if sortedii else 0.5)
    known_r = known_l if (sortedii and rng.random() < 0.85) else rng.random() < 0.5
    llay, ldivs = layout_with_divs(rng, layouts, case["L"], known_l)
    rlay, rdivs = layout_with_divs(rng, layouts, case["R"], known_r)
    api = "join" if mode in ("ii", "ci") and how != "leftsemi" and rng.random() < 0.3 else "merge"
    return {"naming": naming, "sfx": rng.choice(SUFFIXES), "ind": bool(api == "merge" and how != "leftsemi" and rng.random() < 0.4),
            "llay": llay, "ldivs": ldivs, "rlay": rlay, "rdivs": rdivs, "api": api,
            "broadcast": rng.choice([None, None, True, False]) if api == "merge" else None,
            "method": rng.choice([None, "tasks", "disk"]), "npart": rng.choice([None, None, None, 1, 2, 3, 4]),
            "whole": rng.random() < 0.34}


def pre_merge_config(rng, layouts, case, how, exp_mask):
    """Pre-partitioned operands: a hash join proper (no broadcast, no single partition), both operands in 2-3 partitions, the
    pre-stages re-partitioning to equal counts (where a skipped shuffle would go unnoticed by the partition-count test) or
    to unequal ones."""
    cfg = merge_config(rng, layouts, case, how, exp_mask)
    multi = lambda rows: list(rng.choice([x for x in layouts[len(rows)] if len(x) >= 2]))      # noqa: E731
    cfg.update(api="merge", broadcast=rng.choice([None, False, False]), npart=rng.choice([None, None, None, 3]), ldivs=None, rdivs=None,
               llay=multi(case["L"]), rlay=multi(case["R"]), premethod=rng.choice([None, "tasks", "disk"]))
    equal = rng.random() < 0.7
    n = rng.choice([2, 3, 3])
    cfg["lpren"] = n
    cfg["rpren"] = n if equal else rng.choice([x for x in (2, 3, 4) if x != n])
    if equal and rng.random() < 0.5:                 # the counts the operands already have
        for side, rows in (("llay", case["L"]), ("rlay", case["R"])):
            same = [x for x in layouts[len(rows)] if len(x) == n]
            if same:
                cfg[side] = list(rng.choice(same))
    return cfg


def concat_config(rng, layouts, case):
    lays, divs = [], []
    known_all = rng.random() < 0.6
    for fr in case["frames"]:
        lay, d = layout_with_divs(rng, layouts, fr["rows"], known_all or rng.random() < 0.3)
        lays.append(lay)
        divs.append(d)
    return {"lays": lays, "divs": divs, "interleave": rng.random() < 0.5, "whole": rng.random() < 0.34}


def two_sided_config(rng, layouts, case, known):
    llay, ldivs = layout_with_divs(rng, layouts, case["L"], known, tries=8)
    rlay, rdivs = layout_with_divs(rng, layouts, case["R"], known, tries=8)
    return {"llay": llay, "ldivs": ldivs, "rlay": rlay, "rdivs": rdivs, "whole": rng.random() < 0.34}


# ----------------------------------------------------------------------------- one work item
def make_record(item):
    """item = (id, fam, case, how, cfg) -> record for JoinsTrace (or {"skip": ...}), strategy."""
    rid, fam, case, how, cfg = item
    if fam == "merge":
        obs, strat = run_merge(case, how, cfg)
        rec = {"id": rid, "op": "merge", "how": how, "mode": case["mode"], "naming": cfg["naming"], "ind": cfg["ind"],
               "L": case["L"], "R": case["R"], "lknown": bool(cfg["ldivs"]), "rknown": bool(cfg["rdivs"]),
               "lpre": case.get("lpre") or NO_PRE, "rpre": case.get("rpre") or NO_PRE}
    elif fam == "concat":
        obs, strat = run_concat(case, cfg)
        rec = {"id": rid, "op": "concat", "frames": case["frames"], "join": case["join"],
               "fdivs": [d or [] for d in cfg["divs"]], "interleave": cfg["interleave"]}
    elif fam == "concat1":
        obs, strat = run_concat1(case, cfg)
        rec = {"id": rid, "op": "concat1", "L": case["L"], "R": case["R"], "join": case["join"]}
    else:
        obs, strat = run_asof(case, cfg)
        rec = {"id": rid, "op": "asof", "mode": case["mode"], "direction": case["direction"], "exact": case["exact"], "tol": case["tol"],
               "by": case["by"], "L": case["L"], "R": case["R"]}
    if "skip" in obs:
        return {"skip": obs["skip"]}, strat
    rec["obs"] = obs
    return rec, strat


def pandas_rows(fam, case, how, cfg):
    """pandas' own result in the projection of the specification (one partition)."""
    if fam == "merge":
        return pandas_merge(case, how, cfg)
    with warnings.catch_warnings():
        warnings.simplefilter("ignore")
        if fam == "concat":
            return project_concat(pd.concat(concat_frames(case), join=case["join"]))
        if fam == "concat1":
            return project_concat1(pd.concat(list(concat1_frames(case)), axis=1, join=case["join"]))
        L, R = merge_frames(case, "on")
        return project_asof(pd.merge_asof(L, R, **asof_kwargs(case)))


def guard_record(fam, case, how, cfg, rid):
    """The record pandas' own result would make: one partition, unknown divisions; order is judged wherever the
    specification promises it (index joins of sorted operands: both operands count as 'known')."""
    rows = pandas_rows(fam, case, how, cfg)
    cfg2 = dict(cfg)
    obs = {"raised": "", "nparts": 1, "ndivs": 2, "divs": [], "parts": [rows], "wholeok": True}
    if fam == "merge":
        rec = {"id": rid, "op": "merge", "how": how, "mode": case["mode"], "naming": cfg2["naming"], "ind": cfg2["ind"],
               "L": case["L"], "R": case["R"], "lknown": True, "rknown": True, "lpre": NO_PRE, "rpre": NO_PRE}
    elif fam == "concat":
        rec = {"id": rid, "op": "concat", "frames": case["frames"], "join": case["join"], "fdivs": [[] for _ in case["frames"]], "interleave": False}
    elif fam == "concat1":
        rec = {"id": rid, "op": "concat1", "L": case["L"], "R": case["R"], "join": case["join"]}
    else:
        rec = {"id": rid, "op": "asof", "mode": case["mode"], "direction": case["direction"], "exact": case["exact"], "tol": case["tol"],
               "by": case["by"], "L": case["L"], "R": case["R"]}
    rec["obs"] = obs
    return rec


def _work(item):
    """(id, fam, case, how, cfg, expected | None) -> dict(rec | skip | guard, clauses, strategy)."""
    rid, fam, case, how, cfg, exp = item
    if exp is not None:
        try:
            g = guard_record(fam, case, how, cfg, "g" + rid)
        except Exception as ex:  # noqa: BLE001 - pandas refuses the case: not in the domain of the reference
            return {"guard": "pandas raised %s: %s" % (type(ex).__name__, str(ex)[:120])}
        gbad = judge(g, exp)
        if gbad:
            return {"guard": "TLA+ reference and pandas disagree (%s): pandas rows %r" % (gbad, [r["t"] for r in g["obs"]["parts"][0]])}
    rec, strat = make_record((rid, fam, case, how, cfg))
    if "skip" in rec:
        return {"skip": rec["skip"]}
    return {"rec": rec, "clauses": judge(rec, exp) if exp is not None else None, "strategy": strat}


# ----------------------------------------------------------------------------- classification
def has_pre(case):
    return (case.get("lpre") or NO_PRE)["how"] != "none" or (case.get("rpre") or NO_PRE)["how"] != "none"


def pre_tag(case, side):
    pre = case.get(side) or NO_PRE
    return "none" if pre["how"] == "none" else "%s:%s" % (pre["how"], pre_relation(pre, KEYCOLS.get(case["mode"], [])))


def classify(fam, case, how, cfg, strategy, clauses, obs):
    """Input class / call site of a violation: operation, key mode, join type, the lowering that ran (hash-tasks / hash-disk /
    broadcast / aligned / blockwise; stacked / interleaved; asof-cc / asof-ii) and which promise is broken."""
    group = ("raised:" + obs["raised"]) if "Raised" in clauses else next(
        (g for c, g in (("Rows", "rows"), ("Order", "order"), ("Meta", "metadata"), ("Truthful", "truthful"), ("WholeOK", "whole")) if c in clauses), "other")
    if fam == "merge":
        # input classes behind recorded findings: the first that applies names the violation
        if strategy == "broadcast":
            if case["mode"] not in ("cc", "kk") and how != "inner" and "Raised" in clauses:
                return "merge:broadcast+index-key:%s" % group
            if case["mode"] in ("ic", "ci") and group == "truthful":
                return "merge:broadcast+index-with-column:truthful"
            if cfg["npart"] is not None and group in ("rows", "metadata"):
                return "merge:broadcast+npartitions:%s" % group                 # any key mode, any join type
            if how == "leftsemi" and len(cfg["llay"]) < len(cfg["rlay"]):
                return "merge:leftsemi:broadcast-left:%s" % group               # the LEFT operand is the one being broadcast
        if has_pre(case):
            # pre-partitioned operands: how the earlier stage's columns relate to the join keys is the input class
            return "merge:%s:%s:pre[%s,%s]:%s:%s" % (case["mode"], how, pre_tag(case, "lpre"), pre_tag(case, "rpre"), strategy, group)
        return "merge:%s:%s:%s:%s" % (case["mode"], how, strategy, group)
    if fam == "concat":
        return "concat:axis0:%s:%s:%s" % (case["join"], strategy, group)
    if fam == "concat1":
        return "concat:axis1:%s:%s" % (case["join"], group)
    if case["mode"] == "cc" and (0 in cfg["llay"] or cfg["rlay"][0] == 0 or cfg["rlay"][-1] == 0):
        # one root cause (set_index(sorted=True) drops empty partitions), seen as wrong rows / metadata / AssertionError / missing
        # dependency; empty partitions in the MIDDLE of the right operand are handled and stay judged
        return "merge_asof:cc:empty-partition"
    return "merge_asof:%s:%s:%s:%s" % (case["mode"], case["direction"], "by" if case["by"] else "noby", group)


# ----------------------------------------------------------------------------- random larger cases (code -> spec)
def weak_comp(rng, n, m):
    cuts = sorted(rng.randint(0, n) for _ in range(m - 1))
    pts = [0] + cuts + [n]
    return [b - a for a, b in zip(pts, pts[1:])]


class AnyLayouts(dict):
    """layouts[n] for the random cases: a few random weak compositions with up to 5 parts."""
    def __init__(self, rng):
        super().__init__()
        self.rng = rng

    def __missing__(self, n):
        self[n] = [weak_comp(self.rng, n, self.rng.randint(1, 5)) for _ in range(12)]
        return self[n]


def random_items(rng, n):
    out = []
    lays = AnyLayouts(rng)
    for i in range(n):
        fam = rng.choice(["merge"] * 6 + ["concat", "concat", "asof", "asof"])
        if fam == "merge":
            mode = rng.choice(["cc", "cc", "kk", "kk", "ii", "ii", "ic", "ci"])
            nk = rng.randint(2, 5)
            keys = lambda m, srt: (sorted if srt else list)([rng.choice(list(range(nk)) + ([NA] if not srt and rng.random() < 0.5 else [])) for _ in range(m)])  # noqa: E731
            srt = mode == "ii" and rng.random() < 0.6
            lk, rk = keys(rng.randint(0, 9), srt), keys(rng.randint(0, 9), srt)
            mk = lambda ks, oni: [{"rid": j + 1, "idx": (k if oni else j), "k": (0 if oni else k), "k2": rng.randint(0, 1)} for j, k in enumerate(ks)]  # noqa: E731
            case = {"fam": "merge", "mode": mode, "L": mk(lk, mode in ("ii", "ic")), "R": mk(rk, mode in ("ii", "ci"))}
            how = rng.choice(HOWS[mode])
            namings = {"cc": ["on", "lr"], "kk": ["on", "lr"], "ii": ["on"]}.get(mode, ["none"])
            if mode in ("cc", "kk") and len(lk) >= 2 and len(rk) >= 2 and rng.random() < 0.5:
                # pre-partitioned operands (stages that need no precondition on the rows)
                ons = [["k"], ["k2"], ["k", "k2"], ["k", "v"], ["k", "k2", "v"], ["v"]]
                pick = lambda: {"how": rng.choice(["shuffle", "shuffle", "merge"]), "on": rng.choice(ons)}     # noqa: E731
                case["lpre"], case["rpre"] = pick(), rng.choice([NO_PRE, pick(), pick()])
                lay5 = {m: [x for x in (weak_comp(rng, m, rng.randint(2, 4)) for _ in range(12))] for m in (len(lk), len(rk))}
                cfg = pre_merge_config(rng, lay5, case, how, namings)
            else:
                cfg = merge_config(rng, lays, case, how, namings)
                cfg["npart"] = rng.choice([None, None, 1, 2, 3, 5, 6])
        elif fam == "concat":
            frames = []
            for _ in range(rng.randint(2, 4)):
                m = rng.randint(0, 5)
                ix = [rng.randint(0, 6) for _ in range(m)]
                if rng.random() < 0.7:
                    ix.sort()
                frames.append({"cols": rng.choice([["a", "b"], ["b", "c"], ["a", "b", "c"], ["b"]]),
                               "rows": [{"rid": j + 1, "idx": v} for j, v in enumerate(ix)]})
            case = {"fam": "concat", "frames": frames, "join": rng.choice(["outer", "inner"])}
            how, cfg = "", concat_config(rng, lays, case)
        else:
            mode = rng.choice(["cc", "ii"])
            by = rng.random() < 0.4
            mk = lambda m, oni: [{"rid": j + 1, "idx": (k if oni else j), "k": (0 if oni else k), "b": rng.randint(0, 1) if by else 0}  # noqa: E731
                                 for j, k in enumerate(sorted(rng.randint(0, 7) for _ in range(m)))]
            case = {"fam": "asof", "mode": mode, "by": by, "direction": rng.choice(["backward", "forward", "nearest"]),
                    "exact": rng.random() < 0.6, "tol": rng.choice([NA, NA, 0, 1, 2]),
                    "L": mk(rng.randint(1, 8), mode == "ii"), "R": mk(rng.randint(1, 8), mode == "ii")}
            how, cfg = "", asof_config(rng, lays, case)
        out.append(("r%d" % i, fam, case, how, cfg, None))
    return out


def asof_config(rng, layouts, case, llay=None, rlay=None):
    """index mode: sorted operands with known divisions (or one partition each); column mode: dask sorts the column itself
    with set_index(sorted=True).  Empty partitions are allowed everywhere (dask documents no limitation).  llay / rlay:
    a given layout (the empty-partition stratum)."""
    cfg = two_sided_config(rng, layouts, case, True)
    for side, given in (("l", llay), ("r", rlay)):
        rows = case["L" if side == "l" else "R"]
        if given is not None:
            cfg[side + "lay"] = list(given)
            cfg[side + "divs"] = make_divs(_labels(rows), list(given), rng)
        if cfg[side + "divs"] is None:
            cfg[side + "lay"] = [len(rows)]
            cfg[side + "divs"] = make_divs(_labels(rows), [len(rows)], rng)
        if case["mode"] == "cc" and rng.random() < 0.5:
            cfg[side + "divs"] = None
    return cfg


def empties_layouts(n):
    """Layouts of n >= 1 rows with empty partitions in every position: first, middle, two in a row (in the middle, at the
    end, at the start), last, all around."""
    out = [[n, 0, 0], [0, 0, n]]
    for a in range(1, n):
        b = n - a
        out += [[0, a, b], [a, 0, b], [a, 0, 0, b], [a, b, 0], [a, b, 0, 0], [0, a, 0, b, 0], [0, 0, a, b]]
    return out + ([] if n > 1 else [[0, n], [n, 0], [0, n, 0]])


def asof_stratum(rng, layouts, cases, per_combo, only_middle=False):
    """The merge_asof stratum that is never sampled out: for every (mode, direction, by, allow_exact_matches, tolerance)
      * one DIRECTED case (index spelling): a left row beyond all right keys with the right operand laid out as rows followed by
        two empty partitions (backward / nearest: the match has to be carried across the empty partitions by the scan of tails), or
        a left row before all right keys with two empty partitions in front (forward / nearest: the scan of heads);
      * `per_combo` cases whose right operand (every other time the left one too) has empty partitions, their position rotating
        through first / middle / two in a row / last.
    only_middle (selftest): the directed cases and runs of empty partitions that follow rows only."""
    bycombo = {}
    for c in cases:
        k = c["c"]
        if k["fam"] == "asof" and len(k["R"]) >= 1:
            bycombo.setdefault((k["mode"], k["direction"], bool(k["by"]), bool(k["exact"]), k["tol"]), []).append(c)
    items, turn = [], 0
    key = lambda r, mode: r["idx"] if mode == "ii" else r["k"]      # noqa: E731
    for combo in sorted(bycombo):
        pool = bycombo[combo]
        mode, direction = combo[0], combo[1]
        if mode == "ii":
            beyond = [c for c in pool if max(key(r, mode) for r in c["c"]["L"]) > max(key(r, mode) for r in c["c"]["R"])]
            before = [c for c in pool if min(key(r, mode) for r in c["c"]["L"]) < min(key(r, mode) for r in c["c"]["R"])]
            for cand, lay, dirs in ((beyond, lambda n: [n, 0, 0], ("backward", "nearest")), (before, lambda n: [0, 0, n], ("forward", "nearest"))):
                if cand and direction in dirs:
                    c = rng.choice(cand)
                    case = c["c"]
                    cfg = asof_config(rng, layouts, case, llay=[len(case["L"])], rlay=lay(len(case["R"])))
                    if cfg["rdivs"] is not None:
                        items.append(("s%d" % len(items), "asof", case, "", cfg, c["e"]))
        pool2 = [c for c in pool if len(c["c"]["R"]) >= 2]
        for c in (pool2 if len(pool2) <= per_combo else rng.sample(pool2, per_combo)):
            case = c["c"]
            if only_middle and case["mode"] != "ii":
                continue
            # only_middle: runs of empty partitions that FOLLOW rows (the ones a prefix scan of tails has to bridge)
            rl = [x for x in empties_layouts(len(case["R"])) if not only_middle or (x[0] and [0, 0] in [x[i:i + 2] for i in range(len(x))])]
            ll = empties_layouts(len(case["L"]))
            cfg = asof_config(rng, layouts, case, llay=ll[turn % len(ll)] if turn % 2 else None, rlay=rl[turn % len(rl)])
            turn += 1
            items.append(("s%d" % len(items), "asof", case, "", cfg, c["e"]))
    return items


# ----------------------------------------------------------------------------- TLC
def bounds(ctx):
    q = ctx.quick
    return {"Keys": {0, 1, 2}, "MaxL": 4 if q else 5, "MaxR": 4 if q else 5, "Full": 4 if q else 5, "Mod": 280 if q else 200,
            "PMod": 270 if q else 60, "PreMod": 97 if q else 47,
            "Salt": ctx.rng.randrange(1000), "HeavyMod": 90 if q else 40, "MaxParts": 3,
            "CFrames": 3, "CRows": 2, "CLabels": {0, 1, 2}, "CMod": 6 if q else 1,
            "AMaxL": 3, "AMaxR": 3 if q else 4, "AKeys": {0, 1, 2} if q else {0, 1, 2, 3}, "AMod": 80 if q else 6}


INVARIANTS = ["PairsSane", "HashDecomposes", "BroadcastDecomposes", "SeqIsRows", "MaskSane", "PreSane", "ConcatSane", "ChainTruthful",
              "Concat1Sane", "AsofSane"]


def enumerate_cases(ctx, consts, fams, label):
    spec, cfg = ctx.model(ctx.spec("frame", "JoinsMC.tla"), dict(consts, Fams=set(fams)), invariants=INVARIANTS, spec="Spec")
    cases, _ = ctx.tlc_cases(spec, cfg, var="jout", label=label, timeout=3000)
    return cases


def clause_names(texts):
    return sorted(set(re.findall(r'"(\w+)"', " ".join(texts))))


def validate(ctx, recs, label):
    """TLC verdicts for records: {id: [clauses]} (rejected ones only)."""
    if not recs:
        return {}
    spec, cfg = ctx.model(ctx.spec("frame", "JoinsTrace.tla"), {})
    out = {}
    for lo in range(0, len(recs), 4000):
        rej = ctx.tlc_validate(spec, recs[lo:lo + 4000], cfg, label=label, timeout=2400)
        out.update({k: clause_names(v) for k, v in rej.items()})
    return out


# ----------------------------------------------------------------------------- the case loop (shared with selftest)
def plan_items(ctx, cases, quota, per_case_hows):
    """Seeded sample of the enumerated cases crossed with configurations -> work items."""
    rng = ctx.rng
    layouts = {c["c"]["n"]: c["e"] for c in cases if c["c"]["fam"] == "layouts"}
    # TLC's workers write the dump in no particular order: put the cases into a canonical order before sampling (determinism)
    import json
    cases = sorted(cases, key=lambda c: json.dumps(c["c"], sort_keys=True))
    byfam = {}
    for c in cases:
        fam = c["c"]["fam"]
        if fam == "merge":
            srt = c["c"]["mode"] == "ii" and all(r["idx"] != NA for r in c["c"]["L"] + c["c"]["R"]) and all(
                a["idx"] <= b["idx"] for rows in (c["c"]["L"], c["c"]["R"]) for a, b in zip(rows, rows[1:]))
            fam = "merge:" + c["c"]["mode"] + (":sorted" if srt else "")
            if has_pre(c["c"]):
                fam = "merge:pre"
        byfam.setdefault(fam, []).append(c)
    items = []
    for fam in sorted(byfam):
        if fam == "layouts":
            continue
        pool = byfam[fam]
        pick = pool if len(pool) <= quota[fam] else rng.sample(pool, quota[fam])
        ctx.extra["replayed_" + fam] = "%d of %d" % (len(pick), len(pool))
        for c in pick:
            case, exp = c["c"], c["e"]
            if case["fam"] == "merge":
                hows = HOWS[case["mode"]]
                config = pre_merge_config if has_pre(case) else merge_config
                for how in (hows if per_case_hows == "all" else rng.sample(hows, per_case_hows)):
                    items.append(("m%d" % len(items), "merge", case, how, config(rng, layouts, case, how, exp["mask"]), exp))
            elif case["fam"] == "concat":
                items.append(("c%d" % len(items), "concat", case, "", concat_config(rng, layouts, case), exp))
            elif case["fam"] == "concat1":
                single = rng.random() < 0.2
                lay1 = {n: [[n]] for n in layouts}
                items.append(("x%d" % len(items), "concat1", case, "", two_sided_config(rng, lay1 if single else layouts, case, not single or rng.random() < 0.5), exp))
            else:
                items.append(("a%d" % len(items), "asof", case, "", asof_config(rng, layouts, case), exp))
    if "asof:empties" in quota:
        st = asof_stratum(rng, layouts, cases, quota["asof:empties"])
        ctx.extra["replayed_asof:empty-partition-stratum"] = len(st)
        items += st
    return items


def check_items(ctx, items, label, tlc_share=0.08, tlc_min=150):
    """Run the items on dask, judge them; let TLC decide the records without an exported expectation (random cases,
    together with the record pandas' own result makes) and a seeded share of the others (consistency of the replay
    judge with JoinsTrace).  -> (violations [(item, rec, clauses, strategy)], records, skips)."""
    _freeze()
    results = pmap(_work, items, chunk=16)
    _tick(ctx, "dask runs done")
    done, skips = [], []
    for it, res in zip(items, results):
        if "guard" in res:
            raise MachineryError("reference guard: %s on %r how=%r" % (res["guard"], it[2], it[3]))
        if "skip" in res:
            skips.append(res["skip"])
        else:
            done.append((it, res))
    to_tlc, twins = [], {}
    share = [d for d in done if d[1]["clauses"] is not None]
    flagged = [d for d in share if d[1]["clauses"]]
    rest = [d for d in share if not d[1]["clauses"]]
    k = min(len(rest), max(tlc_min, int(tlc_share * len(rest))))
    picked = flagged[:300] + ctx.rng.sample(rest, k)
    for it, res in done:
        if res["clauses"] is None:
            to_tlc.append(res["rec"])
            try:
                g = guard_record(it[1], it[2], it[3], it[4], "g" + it[0])
                twins[g["id"]] = it
                to_tlc.append(g)
            except Exception as ex:  # noqa: BLE001
                raise MachineryError("pandas refuses a random case %r: %r" % (it[2], ex))
    to_tlc += [res["rec"] for _, res in picked]
    verdict = validate(ctx, [{k2: v for k2, v in r.items()} for r in to_tlc], label)
    _tick(ctx, "TLC decided %d records" % len(to_tlc))
    for gid, it in twins.items():
        if gid in verdict:
            raise MachineryError("reference guard: JoinsTrace rejects pandas' own result (%s) for %r how=%r" % (verdict[gid], it[2], it[3]))
    for it, res in picked:
        tl = verdict.get(res["rec"]["id"], [])
        if sorted(tl) != sorted(res["clauses"]):
            raise MachineryError("the replay judge (%s) and JoinsTrace (%s) disagree on %r" % (res["clauses"], tl, res["rec"]))
    bad = []
    for it, res in done:
        cl = res["clauses"] if res["clauses"] is not None else verdict.get(res["rec"]["id"], [])
        if cl:
            bad.append((it, res["rec"], cl, res["strategy"]))
    return bad, done, skips


def _freeze():
    """Before forking: a cyclic GC in a forked worker would touch (copy) the whole inherited heap."""
    import gc
    gc.collect()
    gc.freeze()


def nontrivial(it, rec):
    obs = rec["obs"]
    return obs["raised"] == "" and sum(len(p) for p in obs["parts"]) > 0 and len(obs["parts"]) > 1


def report(ctx, bad):
    for it, rec, clauses, strat in bad:
        rid, fam, case, how, cfg, exp = it
        obs = rec["obs"]
        ctx.violation(classify(fam, case, how, cfg, strat, clauses, obs),
                      "%s: clauses %s fail (%s; observed %s)" % (fam + (" how=" + how if how else ""), clauses, strat,
                                                                 ("raised " + obs["raised"] + ": " + obs.get("msg", "")) if obs["raised"]
                                                                 else "%d partitions, divisions %s" % (len(obs["parts"]), obs["divs"])),
                      {"fam": fam, "case": case, "how": how, "cfg": cfg, "expected": exp, "clauses": clauses, "observed": obs})


def setup_dask(ctx):
    import dask
    dd()
    dask.config.set({"temporary-directory": ctx.scratch, "scheduler": "sync"})


def _tick(ctx, what):
    import os
    import time
    if os.environ.get("VERIF_DEBUG"):
        print("[%6.1fs] %s" % (time.time() - ctx.t0, what), flush=True)


def run(ctx):
    setup_dask(ctx)
    consts = bounds(ctx)
    cases = enumerate_cases(ctx, consts, ["merge", "premerge", "concat", "concat1", "asof", "layouts"], "design+cases")
    ctx.extra["cases_enumerated_by_tlc"] = len(cases)
    q = ctx.quick
    dev = float(__import__("os").environ.get("VERIF_C39_DEV", "1"))        # development only: shrink the dask side
    quota = {"merge:cc": 400 if q else 2200, "merge:kk": 250 if q else 1200, "merge:pre": 450 if q else 2500,
             "merge:ii": 200 if q else 1000, "merge:ii:sorted": 300 if q else 1500,
             "merge:ic": 150 if q else 900, "merge:ci": 150 if q else 900,
             "concat": 250 if q else 3000, "concat1": 80 if q else 900, "asof": 120 if q else 2500}
    quota = {k: max(20, int(v * dev)) for k, v in quota.items()}
    quota["asof:empties"] = 2 if q else 12           # per (mode, direction, by, allow_exact_matches, tolerance): never sampled out
    items = plan_items(ctx, cases, quota, 1 if q else "all")
    items += random_items(ctx.rng, 120 if q else 2500)
    _tick(ctx, "planned %d items from %d cases" % (len(items), len(cases)))
    del cases
    bad, done, skips = check_items(ctx, items, "recorded-calls")
    for s in skips:
        ctx.skip(s)
    if len(skips) > len(items) // 2:
        raise MachineryError("more than half of the cases were skipped: %r" % sorted(set(skips))[:3])
    strategies = {}
    for it, res in done:
        ctx.count((it[1], it[2], it[3], it[4]), nontrivial(it, res["rec"]))
        strategies[res["strategy"]] = strategies.get(res["strategy"], 0) + 1
    ctx.extra["lowerings_exercised"] = strategies
    rel = {}
    for it, res in done:
        if it[1] == "merge" and has_pre(it[2]):
            for side in ("lpre", "rpre"):
                t = pre_tag(it[2], side)
                rel[t] = rel.get(t, 0) + 1
    ctx.extra["pre_partitioned_operands_replayed"] = rel
    missing = [r for r in ("equal", "subset", "superset", "overlap", "disjoint") if not any(t.endswith(":" + r) for t in rel)]
    if missing:
        raise MachineryError("vacuous: no pre-partitioned operand whose columns are %s to the join keys was replayed" % missing)
    report(ctx, bad)
    for fam in ("merge", "concat", "asof"):
        ex = next(((it, res) for it, res in done if it[1] == fam and nontrivial(it, res["rec"])), None)
        if ex:
            it, res = ex
            ctx.sample({"fam": fam, "case": it[2], "how": it[3], "cfg": it[4], "observed_partitions": [[r["t"] for r in p] for p in res["rec"]["obs"]["parts"]]})
    ctx.exhaustive = False
    ctx.rule = ("cases = TLC-enumerated (operands, key mode, join type | concat | asof arguments) - a seeded sample per family, every "
                "sorted index-index pair preferred - each crossed with one seeded configuration (partitionings incl. empty parts, known/"
                "unknown divisions, broadcast, shuffle_method, npartitions, suffixes, indicator, spelling; operands fresh or PRE-PARTITIONED by an "
                "earlier shuffle / hash join / groupby(split_out) / set_index on columns in every relation to the join keys), plus seeded larger frames; "
                "non-trivial = the operation returned rows in more than one partition; distinct by (case, join type, configuration)")
    ctx.assumptions = ["TLC evaluates the reference semantics correctly", "parts_collection builds exactly the given partitions",
                       "pandas per-partition kernels are correct", "the pyarrow shim is inert for pandas-backed frames"]


# ----------------------------------------------------------------------------- replay
def replay(ctx, obj):
    setup_dask(ctx)
    c = obj["case"]
    it = ("p0", c["fam"], c["case"], c.get("how", ""), c["cfg"], c.get("expected"))
    bad, done, skips = check_items(ctx, [it], "replay", tlc_min=1)
    for _, res in done:
        print("observed:", res["rec"]["obs"], "\nlowering:", res["strategy"])
    print("skipped:", skips, "violated clauses:", [b[2] for b in bad])
    return bool(bad)


# ----------------------------------------------------------------------------- selftest
def selftest(ctx):
    import contextlib
    setup_dask(ctx)
    import dask.dataframe.dask_expr._concat as cc
    import dask.dataframe.dask_expr._merge as mm
    import dask.dataframe.dask_expr._merge_asof as ma
    import dask.dataframe.multi as multi
    rng = ctx.rng
    consts = dict(bounds(ctx), MaxL=3, MaxR=3, Full=2, Mod=24, HeavyMod=400, CMod=11, AMod=200, PMod=5, PreMod=29)
    cases = enumerate_cases(ctx, consts, ["merge", "premerge", "concat", "asof", "layouts"], "selftest:cases")
    layouts = {c["c"]["n"]: c["e"] for c in cases if c["c"]["fam"] == "layouts"}
    quota = {"merge:cc": 60, "merge:kk": 25, "merge:pre": 110, "merge:ii": 10, "merge:ii:sorted": 20, "merge:ic": 15, "merge:ci": 10,
             "concat": 20, "asof": 15}
    items = plan_items(ctx, cases, quota, 1)
    items += asof_stratum(rng, layouts, cases, 2, only_middle=True)
    # directed configurations: concat operands whose single-partition divisions touch; asof with the right operand cut
    # into one-row partitions with known divisions (matches then lie in the previous partition)
    nb = nc = nsemi = 0
    for c in cases:
        case, exp = c["c"], c["e"]
        if case["fam"] == "merge" and case["mode"] in ("cc", "kk") and not has_pre(case) and nsemi < 25:
            key = (lambda r: (r["k"], r["k2"])) if case["mode"] == "kk" else (lambda r: r["k"])
            rkeys = [key(r) for r in case["R"]]
            if any(rkeys.count(key(r)) >= 2 for r in case["L"]):
                nsemi += 1     # a semi join whose left rows have SEVERAL partners on the right
                items.append(("m%d" % len(items), "merge", case, "leftsemi", merge_config(rng, layouts, case, "leftsemi", exp["mask"]), exp))
        if case["fam"] == "merge" and case["mode"] == "cc" and len(case["L"]) == 3 and len(case["R"]) == 3 and nb < 30 and rng.random() < 0.1:
            nb += 1       # broadcast=True on a join whose PRESERVED side has fewer partitions: it must not be the broadcast one
            how = rng.choice(["left", "right"])
            cfg = dict(merge_config(rng, layouts, case, how, exp["mask"]), broadcast=True, npart=None, api="merge", ldivs=None, rdivs=None,
                       llay=[2, 1] if how == "left" else [1, 1, 1], rlay=[1, 1, 1] if how == "left" else [2, 1])
            items.append(("m%d" % len(items), "merge", case, how, cfg, exp))
        if case["fam"] == "concat" and nc < 40:
            fr = case["frames"]
            if all(f["rows"] and all(a["idx"] <= b["idx"] for a, b in zip(f["rows"], f["rows"][1:])) for f in fr) and \
               all(fr[i]["rows"][-1]["idx"] == fr[i + 1]["rows"][0]["idx"] for i in range(len(fr) - 1)) and rng.random() < 0.5:
                cfg = {"lays": [[len(f["rows"])] for f in fr], "divs": [[SCALE * f["rows"][0]["idx"], SCALE * f["rows"][-1]["idx"]] for f in fr],
                       "interleave": False, "whole": False}
                nc += 1
                items.append(("c%d" % len(items), "concat", case, "", cfg, exp))
        if case["fam"] == "asof" and case["mode"] == "ii" and len(case["R"]) >= 2 and rng.random() < 0.12:
            cfg = {"llay": [len(case["L"])], "ldivs": make_divs(_labels(case["L"]), [len(case["L"])], rng),
                   "rlay": [1] * len(case["R"]), "rdivs": make_divs(_labels(case["R"]), [1] * len(case["R"]), rng), "whole": False}
            if cfg["rdivs"] is not None:
                items.append(("a%d" % len(items), "asof", case, "", cfg, exp))

    del cases
    _freeze()

    def outcome(fams):
        """signatures of the violations of the (possibly mutated) code on the items of the given families, known findings excluded."""
        fam_of = lambda it: ("premerge" if has_pre(it[2]) else "merge") if it[1] == "merge" else "asof-empties" if it[0].startswith("s") else it[1]   # noqa: E731
        sub = [it for it in items if fam_of(it) in fams]
        results = pmap(_work, sub, chunk=8)
        sigs = {}
        for it, res in zip(sub, results):
            if "guard" in res:
                raise MachineryError("reference guard in selftest: %s" % res["guard"])
            if "rec" in res and res["clauses"]:
                s = classify(it[1], it[2], it[3], it[4], res["strategy"], res["clauses"], res["rec"]["obs"])
                if s not in ctx.known:
                    sigs[s] = sigs.get(s, 0) + 1
        return sigs, len(sub)

    ok = True
    base, n = outcome({"merge", "premerge", "concat", "asof", "asof-empties"})
    print("selftest C39 baseline (unmutated code, %d cases): violations outside known findings %s -> %s" % (n, base, "ok" if not base else "UNEXPECTED"))
    ok &= not base
    semi = mutate(multi.merge_chunk, "rhs = rhs.drop_duplicates()", "pass")
    padded = mutate(multi.merge_asof_padded, "if prev is not None:\n        frames.append(prev)", "if prev is not None:\n        pass")
    mutants = [
        ("merge_chunk: leftsemi no longer de-duplicates the right keys (lowered as inner)", {"merge"},
         [(multi, "merge_chunk", semi), (mm, "merge_chunk", semi)]),
        ("Merge.is_broadcast_join: condition `how != broadcast_side` dropped (the preserved side gets broadcast)", {"merge"},
         [(mm.Merge, "is_broadcast_join", mutate(vars(mm.Merge)["is_broadcast_join"], "and self.how != broadcast_side", ""))]),
        ("Merge._lower: the right operand is shuffled to one partition too few (npartitions_out=max(shuffle_npartitions - 1, 1))", {"merge"},
         [(mm.Merge, "_lower", mutate(vars(mm.Merge)["_lower"],
                                      "right,\n            shuffle_right_on,\n            npartitions_out=shuffle_npartitions,",
                                      "right,\n            shuffle_right_on,\n            npartitions_out=max(shuffle_npartitions - 1, 1),"))]),
        ("Concat._monotonic_divisions: `<` -> `<=` (touching divisions are chained)", {"concat"},
         [(cc.Concat, "_monotonic_divisions", mutate(vars(cc.Concat)["_monotonic_divisions"], "dfs[i].divisions[-1] < dfs[i + 1].divisions[0]",
                                                     "dfs[i].divisions[-1] <= dfs[i + 1].divisions[0]"))]),
        ("merge_asof_padded: the tail of the previous right partitions is no longer prepended", {"asof", "asof-empties"},
         [(multi, "merge_asof_padded", padded), (ma, "merge_asof_padded", padded)]),
        # partitioning knowledge wrongly lets an operation skip its own shuffle
        ("Merge._on_condition_already_partitioned: an operand hash-partitioned on columns that merely OVERLAP the join keys counts as partitioned", {"premerge"},
         [(mm.Merge, "_on_condition_already_partitioned",
           mutate(vars(mm.Merge)["_on_condition_already_partitioned"], "result = tuple(on) in expr.unique_partition_mapping_columns_from_shuffle",
                  "result = any(set(c if isinstance(c, tuple) else (c,)) & set(on) for c in expr.unique_partition_mapping_columns_from_shuffle)"))]),
        ("Merge._lower: an already partitioned LEFT operand keeps its partitions even when the partition counts differ", {"premerge"},
         [(mm.Merge, "_lower", mutate(vars(mm.Merge)["_lower"], "left_already_partitioned and self.left.npartitions == shuffle_npartitions", "left_already_partitioned"))]),
        ("most_recent_tail: an EMPTY right partition hands on nothing instead of the tail it inherited", {"asof-empties"},
         [(ma, "most_recent_tail", mutate(ma.most_recent_tail, "return left", "return right"))]),
    ]
    for name, fams, patches in mutants:
        with contextlib.ExitStack() as st:
            for target, attr, mut in patches:
                st.enter_context(patched_attr([target], attr, mut))
            got, n = outcome(fams)
        print("selftest C39 mutant [%s] (%d cases): violations %s -> %s" % (name, n, dict(sorted(got.items())[:4]), "DETECTED" if got else "MISSED"))
        ok &= bool(got)
    # corrupted / truncated records must be rejected by the trace specification
    case = {"fam": "merge", "mode": "cc", "L": [{"rid": i + 1, "idx": i, "k": k} for i, k in enumerate([0, 1, NA, 1])],
            "R": [{"rid": i + 1, "idx": i, "k": k} for i, k in enumerate([1, NA, 1])]}
    cfg = {"naming": "on", "sfx": ["_x", "_y"], "ind": True, "llay": [1, 0, 3], "ldivs": None, "rlay": [2, 1], "rdivs": None, "api": "merge",
           "broadcast": None, "method": "tasks", "npart": None, "whole": True}
    good, _ = make_record(("genuine", "merge", case, "outer", cfg))
    o = good["obs"]
    rows = [r for p in o["parts"] for r in p]
    drop = [list(p) for p in o["parts"]]
    next(p for p in drop if p).pop()
    variants = {
        "genuine": good,
        "an output row dropped (event lost)": dict(good, obs=dict(o, parts=drop)),
        "an output row duplicated": dict(good, obs=dict(o, parts=o["parts"] + [[rows[0]]], nparts=o["nparts"] + 1, ndivs=o["ndivs"] + 1)),
        "rrid of a row changed": dict(good, obs=dict(o, parts=[[dict(r, t=[r["t"][0], (r["t"][1] % 3) + 1] + r["t"][2:]) if r is rows[0] else r for r in p] for p in o["parts"]])),
        "indicator changed": dict(good, obs=dict(o, parts=[[dict(r, t=r["t"][:2] + [(r["t"][2] + 1) % 3] + r["t"][3:]) if r is rows[0] else r for r in p] for p in o["parts"]])),
        "declared npartitions off by one": dict(good, obs=dict(o, nparts=o["nparts"] + 1)),
    }
    recs = [dict(r, id="v%d" % i) for i, r in enumerate(variants.values())]
    verdict = validate(ctx, recs, "selftest:records")
    for i, name in enumerate(variants):
        got = verdict.get("v%d" % i)
        if name == "genuine":
            print("selftest C39 trace: genuine record accepted -> %s" % ("ok" if not got else "UNEXPECTED %s" % got))
            ok &= not got
        else:
            print("selftest C39 corrupted record [%s]: %s" % (name, "REJECTED %s" % got if got else "ACCEPTED (missed)"))
            ok &= bool(got)
    print("selftest C39: %s" % ("all binding demonstrations hold" if ok else "FAILED"))
    return 0 if ok else 1
