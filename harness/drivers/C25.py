"""C25 - lazy array metadata matches the computed data.

Thin specification, thick traces (the CCF pattern): specs/array/ArrayMeta.tla holds only the clauses of
the property over one *observation* of a dask array - one key per cell of the declared block grid,
every block computed through its own key has the shape .chunks declares, .shape/.dtype equal the
computed ones, the blocks placed by their block index reassemble x.compute().
design check + spec -> code: TLC (ArrayMetaMC.tla) builds, for every chunking of small shapes, the
observation a correct implementation gives and proves that each clause catches exactly its corruption;
the exported observations must equal what the harness observes on dask.array.from_array (binding of
the observation function).
code -> spec: seeded random pipelines of 2-6 dask.array operations (elementwise, indexing, reductions
and scans, reshape/transpose/concatenate/stack/repeat/tile/pad/rechunk, overlap, routines ...) are
recorded after every operation - every block computed through its own key - and TLC evaluates the
clauses on every record (ArrayMetaTrace.tla)."""
from __future__ import annotations

import warnings

import numpy as np

from ..arrayobs import meta_clauses, observe_full, trim_clauses
from ..arrays import py_chunks
from ..core import TLA, MachineryError
from ..par import pmap

META = {
    "title": "Lazy array metadata matches the computed data",
    "design_ref": "DESIGN.md §4.3 C25",
    "technique": "TLA+ invariants over observations of dask arrays (ArrayMeta.tla), design-checked by TLC against generated "
                 "correct and corrupted observations; TLC evaluates them on every step of recorded random pipelines whose "
                 "blocks are each computed through their own key",
    "level_text": "TLC proves on every chunking of small shapes that a correct observation satisfies all clauses and that each "
                  "corruption (wrong dtype, missing block, wrong declared shape, right-sum-wrong-parts chunks, one wrong cell) is "
                  "caught by exactly its clause; the same observations are reproduced on dask.array.from_array.  Then TLC "
                  "evaluates the clauses on every intermediate array of seeded random pipelines of 2-6 operations drawn from "
                  "~60 dask.array operations on arrays with irregular, size-1, zero-width and unknown chunks.",
    "level_note": "Trusted: TLC, the observation function (bound to the specification by the from_array cases), value interning "
                  "(equal codes <=> equal values).  The pipelines are sampled, not exhaustive; values are not compared with "
                  "NumPy here (that is C19-C24) - only declared metadata against computed data.  Unknown (NaN) declared sizes "
                  "are don't-cares for the clauses that mention them; operations that raise are not judged.",
}

UNKNOWN = ("unknown", "nan", "NaN")


# ------------------------------------------------------------------ pipeline operations
def _rand_chunks(rng, n, zero_p=0.1):
    if n == 0:
        return (0,)
    ch, left = [], n
    while left > 0:
        c = rng.randint(1, left)
        ch.append(c)
        left -= c
    if rng.random() < zero_p:
        ch.insert(rng.randint(0, len(ch)), 0)
    return tuple(ch)


def _fresh(rng, shape, dtype="i8"):
    import dask.array as da
    n = int(np.prod(shape)) if len(shape) else 1
    a = np.array([rng.randint(0, 9) for _ in range(n)], dtype="i8").reshape(tuple(shape)).astype(dtype)
    return da.from_array(a, chunks=tuple(_rand_chunks(rng, s) for s in shape))


def _axis(rng, x):
    return rng.randrange(x.ndim)


def _need(cond):
    if not cond:
        raise Inapplicable()


class Inapplicable(Exception):
    """The operation does not apply to this array (wrong rank, empty, unknown sizes ...)."""


def _known(x):
    _need(not any(np.isnan(s) for s in x.shape))


def build_ops():
    import dask.array as da
    O = {}

    def op(f):
        O[f.__name__] = f
        return f

    # ---- elementwise / broadcasting (C19)
    @op
    def add_scalar(r, x): return x + r.randint(1, 5)
    @op
    def mul_float(r, x): return x * 0.5
    @op
    def neg(r, x):
        _need(x.dtype != bool)
        return -x
    @op
    def absolute(r, x): return abs(x)
    @op
    def compare(r, x): return x > r.randint(0, 6)
    @op
    def add_bcast(r, x):
        _known(x); _need(x.ndim >= 1)
        return x + _fresh(r, [int(s) for s in x.shape[-r.randint(1, x.ndim):]])
    @op
    def add_bcast_unit(r, x):
        _known(x); _need(x.ndim >= 1)
        sh = [1 if r.random() < 0.5 else int(s) for s in x.shape]
        return _fresh(r, sh) - x
    @op
    def where3(r, x):
        _need(x.dtype != bool)
        return da.where(x > 3, x, -x)
    @op
    def clip(r, x):
        _need(x.dtype.kind in "iuf")
        return x.clip(1, 5)
    @op
    def astype_float(r, x): return x.astype("f8")
    @op
    def astype_int32(r, x):
        _need(x.dtype.kind in "iufb")
        return x.astype("i4")
    @op
    def sqrt(r, x):
        _need(x.dtype.kind in "iuf")
        return da.sqrt(abs(x))
    @op
    def isin(r, x): return da.isin(x, [1, 3, 5])
    @op
    def round_(r, x):
        _need(x.dtype.kind in "iuf")
        return da.round(x * 1.5, 0)

    # ---- indexing (C20)
    @op
    def slice_(r, x):
        _known(x); _need(x.ndim >= 1)
        idx = []
        for s in x.shape:
            s = int(s)
            f = lambda: r.choice([None, None] + list(range(-s - 1, s + 2)))
            idx.append(slice(f(), f(), r.choice([1, 1, 2, 3, -1, -2])) if r.random() < 0.7 else slice(None))
        return x[tuple(idx)]
    @op
    def int_index(r, x):
        _known(x); _need(x.ndim >= 1)
        a = _axis(r, x); _need(x.shape[a] > 0)
        return x[(slice(None),) * a + (r.randint(-int(x.shape[a]), int(x.shape[a]) - 1),)]
    @op
    def list_index(r, x):
        _known(x); _need(x.ndim >= 1)
        a = _axis(r, x); n = int(x.shape[a]); _need(n > 0)
        return x[(slice(None),) * a + ([r.randint(-n, n - 1) for _ in range(r.randint(0, n + 1))],)]
    @op
    def bool_index_axis(r, x):
        _known(x); _need(x.ndim >= 1)
        a = _axis(r, x); n = int(x.shape[a])
        return x[(slice(None),) * a + (np.array([r.random() < 0.5 for _ in range(n)], dtype=bool),)]
    @op
    def bool_mask(r, x):
        _need(x.ndim >= 1 and x.dtype != bool)
        return x[x > r.randint(1, 6)]
    @op
    def newaxis(r, x):
        p = r.randint(0, x.ndim)
        return x[(slice(None),) * p + (None,)]
    @op
    def basic_index_newaxes(r, x):
        """ints / slices / Ellipsis with 0..3 None entries at arbitrary positions"""
        _known(x)
        comps = []
        for n in x.shape:
            n = int(n)
            q = r.random()
            if q < 0.35 and n > 0:
                comps.append(r.randint(-n, n - 1))
            elif q < 0.7:
                comps.append(slice(r.choice([None, 0, 1, -1]), r.choice([None, n, -1]), r.choice([1, 1, 2, -1])))
            else:
                comps.append(slice(None))
        if comps and r.random() < 0.35:
            k = r.randint(0, len(comps))
            j = r.randint(k, len(comps))
            if all(c == slice(None) for c in comps[k:j]):
                comps[k:j] = [Ellipsis]
        for _ in range(r.randint(0, 3)):
            comps.insert(r.randint(0, len(comps)), None)
        _need(len(comps) > 0)
        return x[tuple(comps)]
    @op
    def take(r, x):
        _known(x); _need(x.ndim >= 1)
        a = _axis(r, x); n = int(x.shape[a]); _need(n > 0)
        return da.take(x, [r.randint(0, n - 1) for _ in range(r.randint(1, n + 1))], axis=a)
    @op
    def compress(r, x):
        _known(x); _need(x.ndim >= 1)
        a = _axis(r, x); n = int(x.shape[a])
        return da.compress([r.random() < 0.6 for _ in range(n)], x, axis=a)

    # ---- reductions and scans (C22)
    def _red(name, need_nonempty=False, kinds="iufb"):
        def f(r, x):
            _known(x); _need(x.dtype.kind in kinds)
            if need_nonempty:
                _need(all(int(s) > 0 for s in x.shape))
            kw = {}
            if x.ndim and r.random() < 0.75:
                kw["axis"] = _axis(r, x) if r.random() < 0.7 else tuple(sorted(r.sample(range(x.ndim), r.randint(1, x.ndim))))
            if r.random() < 0.4:
                kw["keepdims"] = True
            if r.random() < 0.5:
                kw["split_every"] = r.choice([2, 3])
            return getattr(da, name)(x, **kw)
        f.__name__ = name
        O[name] = f
    for nm in ("sum", "prod", "mean", "std", "var", "any", "all", "nansum", "nanmean"):
        _red(nm)
    for nm in ("max", "min", "nanmax"):
        _red(nm, need_nonempty=True)

    def _argred(name):
        def f(r, x):
            _known(x); _need(x.ndim >= 1 and all(int(s) > 0 for s in x.shape))
            kw = {"axis": _axis(r, x)} if r.random() < 0.8 else {}
            if r.random() < 0.3:
                kw["keepdims"] = True
            return getattr(da, name)(x, **kw)
        f.__name__ = name
        O[name] = f
    _argred("argmax"); _argred("argmin")

    def _scan(name):
        def f(r, x):
            _known(x); _need(x.ndim >= 1)
            return getattr(da, name)(x, axis=_axis(r, x), method=r.choice(["sequential", "blelloch"]))
        f.__name__ = name
        O[name] = f
    _scan("cumsum"); _scan("cumprod")

    def _scan_dtype(name, method):
        def f(r, x):
            _known(x); _need(x.ndim >= 1 and x.dtype.kind in "iufb")
            return getattr(da, name)(x, axis=_axis(r, x), dtype=r.choice(["f4", "i4", "i8", "f8", "u1"]), method=method)
        f.__name__ = name + "_dtype" + ("_blelloch" if method == "blelloch" else "")
        O[f.__name__] = f
    for nm in ("cumsum", "cumprod", "nancumsum", "nancumprod"):
        _scan_dtype(nm, "sequential")
    _scan_dtype("cumsum", "blelloch")

    def _red_dtype(name):
        def f(r, x):
            _known(x); _need(x.dtype.kind in "iufb")
            kw = {"dtype": r.choice(["f4", "i4", "i8", "f8"])}
            if x.ndim and r.random() < 0.8:
                kw["axis"] = _axis(r, x)
            if r.random() < 0.4:
                kw["keepdims"] = True
            if r.random() < 0.5:
                kw["split_every"] = 2
            return getattr(da, name)(x, **kw)
        f.__name__ = name + "_dtype"
        O[f.__name__] = f
    for nm in ("sum", "prod", "mean", "nansum"):
        _red_dtype(nm)

    @op
    def astype_any(r, x):
        _need(x.dtype.kind in "iufb")
        return x.astype(r.choice(["i1", "i2", "i4", "i8", "u1", "f4", "f8", "c16", "bool"]))
    @op
    def mixed_arith(r, x):
        _known(x); _need(x.ndim >= 1)
        other = _fresh(r, [int(s) for s in x.shape], r.choice(["f4", "i4", "u1", "bool", "c16", "i2"]))
        return r.choice([lambda a, b: a + b, lambda a, b: b - a, lambda a, b: a * b, lambda a, b: da.maximum(a, b)])(x, other)
    @op
    def where_mixed(r, x):
        _known(x); _need(x.ndim >= 1 and x.dtype.kind in "iufb")
        return da.where(x > 3, x, _fresh(r, [int(s) for s in x.shape], r.choice(["f4", "i4", "u1", "c16", "i2"])))
    @op
    def view_same_size(r, x):
        _need(x.dtype.itemsize == 8 and x.dtype.kind in "if" and x.ndim >= 1)
        return x.view("f8" if x.dtype.kind == "i" else "i8")
    @op
    def topk(r, x):
        _known(x); _need(x.ndim >= 1)
        a = _axis(r, x); _need(x.shape[a] > 0)
        return da.topk(x, r.choice([1, -1]) * r.randint(1, int(x.shape[a])), axis=a)
    @op
    def topk_k_exceeds_axis(r, x):
        _known(x); _need(x.ndim >= 1)
        a = _axis(r, x)
        return da.topk(x, r.choice([1, -1]) * (int(x.shape[a]) + r.randint(1, 2)), axis=a)
    @op
    def argtopk(r, x):
        _known(x); _need(x.ndim >= 1)
        a = _axis(r, x); _need(x.shape[a] > 0)
        return da.argtopk(x, r.choice([1, -1]) * r.randint(1, int(x.shape[a])), axis=a)
    @op
    def median(r, x):
        _known(x); _need(x.ndim >= 1 and all(int(s) > 0 for s in x.shape) and x.dtype.kind in "iuf")
        return da.median(x, axis=_axis(r, x))
    @op
    def count_nonzero(r, x):
        _known(x)
        return da.count_nonzero(x, axis=_axis(r, x) if x.ndim and r.random() < 0.7 else None)

    # ---- chunking (C23)
    @op
    def rechunk(r, x):
        _known(x); _need(x.ndim >= 1)
        return x.rechunk(tuple(_rand_chunks(r, int(s), 0.05) for s in x.shape))
    @op
    def rechunk_int(r, x):
        _known(x); _need(x.ndim >= 1)
        return x.rechunk(r.choice([1, 2, 3, -1]))

    # ---- structure (C24)
    @op
    def reshape(r, x):
        _known(x)
        n = int(np.prod([int(s) for s in x.shape])) if x.ndim else 1
        _need(n > 0)
        divs = [d for d in range(1, n + 1) if n % d == 0]
        a = r.choice(divs)
        b = r.choice([d for d in divs if (n // a) % d == 0])
        shape = r.choice([(n,), (a, n // a), (a, -1), (a, b, n // a // b), (-1,)])
        return x.reshape(shape)
    @op
    def ravel(r, x): _known(x); return x.ravel()
    @op
    def transpose(r, x):
        _need(x.ndim >= 2)
        axes = list(range(x.ndim)); r.shuffle(axes)
        return x.transpose(axes)
    @op
    def swapaxes(r, x):
        _need(x.ndim >= 2)
        return da.swapaxes(x, 0, x.ndim - 1)
    @op
    def concatenate(r, x):
        _known(x); _need(x.ndim >= 1)
        a = _axis(r, x)
        sh = [int(s) for s in x.shape]; sh[a] = r.randint(0, 3)
        parts = [x, _fresh(r, sh, x.dtype)]
        if r.random() < 0.4:
            parts.insert(0, _fresh(r, sh, x.dtype))
        return da.concatenate(parts, axis=a)
    @op
    def stack(r, x):
        _known(x)
        return da.stack([x, _fresh(r, [int(s) for s in x.shape], x.dtype)], axis=r.randint(0, x.ndim))
    @op
    def repeat(r, x):
        _known(x); _need(x.ndim >= 1)
        return da.repeat(x, r.randint(0, 3), axis=_axis(r, x))
    @op
    def tile(r, x):
        _known(x); _need(x.ndim >= 1)
        return da.tile(x, r.choice([2, (1, 2), (2, 1)])) if x.ndim <= 2 else da.tile(x, 2)
    @op
    def pad(r, x):
        _known(x); _need(x.ndim >= 1 and all(int(s) > 0 for s in x.shape))
        mode = r.choice(["constant", "edge", "reflect", "symmetric", "wrap", "maximum", "mean", "linear_ramp"])
        _need(not (mode in ("reflect",) and min(int(s) for s in x.shape) < 2))
        width = r.choice([1, 2, (1, 0), (0, 2)])
        return da.pad(x.astype("f8") if mode in ("mean", "linear_ramp") else x, width, mode=mode)
    @op
    def squeeze(r, x): return da.squeeze(x)
    @op
    def expand_dims(r, x): return da.expand_dims(x, axis=r.randint(0, x.ndim))
    @op
    def flip(r, x):
        _need(x.ndim >= 1)
        return da.flip(x, _axis(r, x))
    @op
    def roll(r, x):
        _known(x); _need(x.ndim >= 1)
        return da.roll(x, r.randint(-3, 3), axis=_axis(r, x))
    @op
    def diff(r, x):
        _known(x); _need(x.ndim >= 1 and x.dtype != bool)
        return da.diff(x, n=r.randint(1, 2), axis=_axis(r, x))
    @op
    def broadcast_to(r, x):
        _known(x)
        return da.broadcast_to(x, (r.randint(1, 3),) + tuple(int(s) for s in x.shape))
    @op
    def tril(r, x):
        _known(x); _need(x.ndim == 2)
        return da.tril(x, r.randint(-1, 1))
    @op
    def matmul(r, x):
        _known(x); _need(x.ndim == 2 and x.dtype != bool)
        return x @ x.T
    @op
    def tensordot(r, x):
        _known(x); _need(x.ndim >= 1 and x.dtype != bool)
        return da.tensordot(x, _fresh(r, [int(x.shape[-1]), 2]), axes=1)
    @op
    def vstack(r, x):
        _known(x); _need(1 <= x.ndim <= 2)
        return da.vstack([x, x + 1])
    @op
    def atleast_3d(r, x): return da.atleast_3d(x)
    @op
    def insert(r, x):
        _known(x); _need(x.ndim >= 1)
        a = _axis(r, x)
        return da.insert(x, r.randint(0, int(x.shape[a])), 7, axis=a)
    @op
    def delete(r, x):
        _known(x); _need(x.ndim >= 1)
        a = _axis(r, x); _need(x.shape[a] > 0)
        return da.delete(x, r.randint(0, int(x.shape[a]) - 1), axis=a)

    # ---- overlap (C26), routines (C27), map_blocks (C35)
    @op
    def map_overlap(r, x):
        _known(x); _need(x.ndim >= 1 and all(int(s) > 0 for s in x.shape))
        return da.map_overlap(lambda b: b + 1, x, depth=1, boundary=r.choice(["reflect", "nearest", 0, "none"]), dtype=(x + 1).dtype)
    @op
    def map_blocks(r, x): return x.map_blocks(lambda b: b * 2, dtype=(x * 2).dtype)
    @op
    def unique(r, x): _need(x.ndim == 1); return da.unique(x)
    @op
    def bincount(r, x):
        _known(x); _need(x.ndim == 1 and x.dtype.kind in "iu" and x.shape[0] > 0)
        top = int(abs(x).max().compute())
        return da.bincount(abs(x), minlength=r.choice([0, top + 1, top + 3]))
    @op
    def bincount_minlength_exceeded(r, x):
        _known(x); _need(x.ndim == 1 and x.dtype.kind in "iu" and x.shape[0] > 0)
        top = int(abs(x).max().compute()); _need(top >= 1)
        return da.bincount(abs(x), minlength=r.randint(1, top))
    @op
    def histogram(r, x):
        _known(x); _need(x.dtype.kind in "iuf")
        return da.histogram(x, bins=4, range=(0, 10))[0]
    @op
    def searchsorted(r, x):
        _known(x); _need(x.ndim == 1 and x.dtype.kind in "iuf")
        return da.searchsorted(da.from_array(np.arange(10), chunks=_rand_chunks(r, 10, 0)), x, side=r.choice(["left", "right"]))
    @op
    def nonzero0(r, x): _need(x.ndim >= 1); return da.nonzero(x)[0]
    @op
    def argwhere(r, x): return da.argwhere(x)
    @op
    def cov(r, x):
        _known(x); _need(x.ndim == 2 and x.shape[1] > 1 and x.dtype.kind in "iuf")
        return da.cov(x)
    @op
    def outer(r, x):
        _known(x); _need(x.dtype != bool and 0 < int(np.prod([int(s) for s in x.shape])) <= 12)
        return da.outer(x, x)
    @op
    def einsum(r, x):
        _known(x); _need(x.ndim == 2 and x.dtype != bool)
        return da.einsum("ij->j", x)
    @op
    def ptp(r, x):
        _known(x); _need(x.ndim >= 1 and all(int(s) > 0 for s in x.shape) and x.dtype.kind in "iuf")
        return da.ptp(x, axis=_axis(r, x))
    @op
    def average(r, x):
        _known(x); _need(x.ndim >= 1 and all(int(s) > 0 for s in x.shape) and x.dtype.kind in "iuf")
        return da.average(x, axis=_axis(r, x))
    return O


_OPS = None


def ops():
    global _OPS
    if _OPS is None:
        _OPS = build_ops()
    return _OPS


def is_unsupported(ex):
    msg = str(ex)
    return isinstance(ex, NotImplementedError) or (isinstance(ex, ValueError) and any(u in msg for u in UNKNOWN))


def features(x):
    """Structural class of the input of a step (for signatures)."""
    f = []
    nan = any(isinstance(c, float) and np.isnan(c) for ax in x.chunks for c in ax)
    if nan:
        f.append("unknown-chunks")
    else:
        if any(0 in ax and sum(ax) == 1 for ax in x.chunks):
            f.append("zero-chunk-on-unit-axis")
        elif any(0 in ax and sum(ax) > 0 for ax in x.chunks):
            f.append("zero-chunk")
    if x.ndim == 0:
        f.append("0d")
    if 0 in [s for s in x.shape if not (isinstance(s, float) and np.isnan(s))]:
        f.append("empty")
    return f


def _pipeline(item):
    """One random pipeline; returns (records, skips).  A record is one intermediate array."""
    import random
    pid, seed, nsteps = item
    rng = random.Random(seed)
    O = ops()
    names = sorted(O)
    nd = rng.choice([1, 2, 2, 3])
    shape = [rng.choice([1, 2, 3, 4, 5, 6]) for _ in range(nd)]
    if nd == 3:
        shape = [min(s, 4) for s in shape]
    if rng.random() < 0.06:
        shape[rng.randrange(nd)] = 0
    x = _fresh(rng, shape, rng.choice(["i8", "i8", "f8", "i4", "bool", "u1"]))
    recs, skips, step = [], [], 0
    tries = 0
    while step < nsteps and tries < 40:
        tries += 1
        name = rng.choice(names)
        feats = features(x)
        try:
            with warnings.catch_warnings():
                warnings.simplefilter("ignore")
                y = O[name](rng, x)
        except Inapplicable:
            continue
        except Exception as ex:  # noqa: BLE001 - graph construction refused: not judged here (C19-C24 do)
            skips.append(("unsupported: " if is_unsupported(ex) else "raised at construction: ") + name + ": " + type(ex).__name__)
            continue
        size = 1
        for s in y.shape:
            size *= 1 if (isinstance(s, float) and np.isnan(s)) else int(s)
        if y.ndim > 4 or size > 400:
            continue
        try:
            with warnings.catch_warnings():
                warnings.simplefilter("ignore")
                obs, _full = observe_full(y)
        except Exception as ex:  # noqa: BLE001 - nothing computed, nothing to compare
            skips.append("raised at compute: " + name + ": " + type(ex).__name__)
            break
        recs.append({"id": "p%d.%d" % (pid, step), "op": name, "feats": feats, "obs": obs, "pipe": [pid, seed, nsteps]})
        step += 1
        if meta_clauses(obs):
            break                       # later steps would only inherit the discrepancy
        x = y
    return recs, skips


def record_pipelines(ctx, n):
    items = [(i, ctx.rng.randrange(2 ** 40), ctx.rng.randint(2, 6)) for i in range(n)]
    recs, skips = [], []
    for r, s in pmap(_pipeline, items, chunk=8):
        recs.extend(r)
        skips.extend(s)
    return recs, skips


REDUCTIONS = ("sum", "prod", "mean", "std", "var", "any", "all", "nansum", "nanmean", "max", "min", "nanmax", "argmax", "argmin",
              "median", "ptp", "average", "count_nonzero")
SCANS = ("cumsum", "cumprod", "cumsum_dtype", "cumprod_dtype", "nancumsum_dtype", "nancumprod_dtype", "cumsum_dtype_blelloch")


def classify(rec, clauses):
    """Signature: the operation (class) whose result is wrong, the first failing clause, and the
    structural class of its input.  Input classes behind the recorded known findings come first."""
    clause = ([c for c in ["Raised", "Shape", "AskedDtype", "Keys", "BlockShape", "LazyShape", "Dtype", "Reassemble"] if c in clauses] or list(clauses))[0]
    if clause == "Dtype" and ((rec["op"] == "dtype_op" and "blelloch" in rec["feats"] and "other-dtype" in rec["feats"])
                              or rec["op"].endswith("_dtype_blelloch")):
        return "meta:blelloch-scan:dtype-after-first-block"
    if "case" in rec:
        return "meta:%s:%s:%s" % (rec["op"], clause, "+".join(rec["feats"]) or "plain")
    feats = [f for f in rec["feats"] if f in ("unknown-chunks", "zero-chunk-on-unit-axis", "zero-chunk", "0d", "empty")]
    shapeish = clause in ("BlockShape", "LazyShape", "Reassemble", "Keys")
    op = rec["op"]
    if op in ("topk_k_exceeds_axis", "bincount_minlength_exceeded") and shapeish:
        return "meta:" + op
    if op == "unique" and "zero-chunk-on-unit-axis" in feats:
        return "meta:unique:zero-chunk-on-unit-axis"
    out_unit = any(0 in ax and sum(ax) == 1 for ax in rec["obs"]["chunks"] if all(c >= 0 for c in ax))
    if ("zero-chunk-on-unit-axis" in feats or out_unit) and shapeish and op not in REDUCTIONS + SCANS:
        return "meta:zero-chunk-on-unit-axis"          # the C19 finding, seen through any multi-operand operation
    opclass = "reduction" if op in REDUCTIONS else "scan" if op in SCANS else op
    if opclass in ("reduction", "scan") and shapeish and any(f.startswith("zero-chunk") for f in feats):
        return "meta:%s:zero-chunk" % opclass
    return "meta:%s:%s%s" % (opclass, clause, (":" + "+".join(feats)) if feats else "")


def _clause_names(text):
    return [c for c in text.strip("{} ").replace('"', "").split(", ") if c]


def validate(ctx, recs, report=True):
    spec, cfg = ctx.model(ctx.spec("array", "ArrayMetaTrace.tla"), {})
    found = []
    for lo in range(0, len(recs), 4000):
        part = recs[lo:lo + 4000]
        rej = ctx.tlc_validate(spec, [{k: r[k] for k in ("id", "obs", "want", "wantdt") if k in r} for r in part], cfg, timeout=1800)
        for r in part:
            ctx.count(("rec", r["op"], r.get("case"), r["obs"]["chunks"], r["obs"]["whole"]), len(r["obs"]["whole"]["c"]) > 1)
            if r["obs"]["raised"]:
                py = ["Raised"]
            else:
                py = trim_clauses(meta_clauses(r["obs"]) + (["Shape"] if "want" in r and r["obs"]["whole"]["s"] != r["want"] else [])
                                  + (["AskedDtype"] if "wantdt" in r and r["obs"]["dt"] != r["wantdt"] else []),
                                  ["Shape", "AskedDtype", "Keys", "BlockShape", "LazyShape", "Dtype", "Reassemble"])
            tl = sorted(_clause_names(rej[r["id"]][0])) if r["id"] in rej else []
            if py != tl:
                raise MachineryError("Python mirror %r and TLC %r disagree on the clauses of %r" % (py, tl, r))
            if tl:
                found.append((r, tl))
                if report:
                    ctx.violation(classify(r, tl), "lazy metadata of the result of %s disagrees with the computed data (%s)"
                                  % (r["op"], ",".join(tl)), {"record": r, "clauses": tl})
    return found


IDX = {"n": None, "i": 0, "j": -1, "f": slice(None), "s": slice(1, None), "e": Ellipsis}


def index_features(ix):
    """Structural class of a basic index (for signatures)."""
    nn, ni = ix.count("n"), ix.count("i") + ix.count("j")
    f = []
    if nn and ni:
        f.append("multi-newaxis+int" if nn >= 2 else "newaxis+multi-int" if ni >= 2 else "newaxis+int")
    elif nn:
        f.append("newaxis")
    if "e" in ix:
        f.append("ellipsis")
    return f


DT = {"i4": "int32", "i8": "int64", "f4": "float32", "f8": "float64"}
NONE = 99


def case_features(case):
    """Structural class of an enumerated case (for signatures)."""
    if case["fam"] == "index":
        return index_features(list(case["idx"]))
    if case["fam"] == "slice":
        return ["step<-1" if case["st"] < -1 else "step=-1" if case["st"] == -1 else "step>1" if case["st"] > 1 else "step=1"]
    return [case["op"].split("/")[0], "blelloch" if case["op"].endswith("/b") else "", "same-dtype" if case["src"] == case["dst"] else "other-dtype"]


def _apply_case(case, lib, x):
    """The operation of an enumerated case on x (dask array, or ndarray with lib=numpy)."""
    if case["fam"] == "index":
        return x[tuple(IDX[c] for c in case["idx"])]
    if case["fam"] == "slice":
        f = lambda v: None if v == NONE else v
        return x[slice(f(case["a"]), f(case["b"]), case["st"])]
    name, _, method = case["op"].partition("/")
    if name == "astype":
        return x.astype(case["dst"])
    kw = {"dtype": case["dst"]}
    if method:
        kw["axis"] = 0
        if lib is not np:
            kw["method"] = {"s": "sequential", "b": "blelloch"}[method]
    return getattr(lib, name)(x, **kw)


def _index_record(item):
    """One TLC-enumerated case (basic index / 1-d slice / operation with explicit dtype): the
    observation + the shape (and dtype) the specification demands."""
    import dask.array as da
    n, case, want = item
    size = int(np.prod(case["shape"]))
    src = np.arange(size, dtype=case.get("src", "i8")).reshape(tuple(case["shape"]))
    ref = np.asarray(_apply_case(case, np, src))
    if list(ref.shape) != list(want["shape"]) or ("dt" in want and str(ref.dtype) != DT[want["dt"]]):
        return {"guard": "spec demands %r, NumPy gives shape %r dtype %s for %r" % (want, ref.shape, ref.dtype, case)}
    x = da.from_array(src, chunks=py_chunks(case["chunks"]))
    try:
        with warnings.catch_warnings():
            warnings.simplefilter("ignore")
            obs, _full = observe_full(_apply_case(case, da, x))
    except Exception as ex:  # noqa: BLE001 - NumPy accepts every case of these families: raising is a violation
        from ..arrayobs import raised_obs
        obs = raised_obs(ex)
    rec = {"id": "%s%d" % (case["fam"][0], n), "op": {"index": "basic_index", "slice": "slice1d", "dtype": "dtype_op"}[case["fam"]],
           "feats": [f for f in case_features(case) if f], "case": case, "obs": obs, "want": list(want["shape"])}
    if "dt" in want:
        rec["wantdt"] = DT[want["dt"]]
    return rec


def observe_cases(ix, fams=("index", "slice", "dtype"), prefix=""):
    """Apply the enumerated cases of the families `fams` to dask and observe the results."""
    recs = pmap(_index_record, [(n, c["c"], c["e"]) for n, c in enumerate(ix) if c["c"]["fam"] in fams])
    for r in recs:
        if "guard" in r:
            raise MachineryError("TLA+ reference disagrees with NumPy: " + r["guard"])
        r["id"] = prefix + r["id"]
    return recs


def enumerated_cases(ctx, shapes, idxshapes, maxlen, cap=None, slices="{}", dtypes="{}", observe=True):
    """Design check + spec -> code: (i) from_array on every chunking binds the observation function
    to the specification; (ii) records of the exhaustive families: basic indices, 1-d slices with
    steps +-1..+-3 on all chunkings, operations with an explicit dtype.  cap: per-family sample size."""
    import dask.array as da
    spec, cfg = ctx.model(ctx.spec("array", "ArrayMetaMC.tla"),
                          {"Shapes": TLA(shapes), "IdxShapes": TLA(idxshapes), "MaxLen": maxlen, "SliceExtents": TLA(slices),
                           "DtypeExtents": TLA(dtypes)}, invariants=["GoodHolds", "CorruptionsCaught", "IndexRank"])
    cases, _ = ctx.tlc_cases(spec, cfg, label="design+cases")
    fa = [c for c in cases if c["c"]["fam"] == "from_array"]
    for c in fa:
        case, exp = c["c"], c["e"]
        n = int(np.prod(case["shape"])) if case["shape"] else 1
        x = da.from_array(np.arange(n, dtype="i8").reshape(tuple(case["shape"])), chunks=py_chunks(case["chunks"]))
        obs, _full = observe_full(x)
        ctx.count(("from_array", case), n > 1)
        norm = lambda o: dict(o, blocks=sorted(o["blocks"], key=lambda b: b["i"]))
        if norm(obs) != norm(exp):
            ctx.violation("meta:from_array", "the observation of from_array differs from the specification's", {"case": case, "expected": exp, "observed": obs})
    ix = []
    for fam in ("index", "slice", "dtype"):
        part = [c for c in cases if c["c"]["fam"] == fam]
        ctx.extra.setdefault("cases_enumerated", {})[fam] = len(part)
        if cap and len(part) > cap[fam]:
            part = ctx.rng.sample(part, cap[fam])
        ix += part
    if not observe:
        return fa, ix
    recs = observe_cases(ix)
    return fa, recs


def run(ctx):
    shapes = ctx.pick("{<<>>, <<0>>, <<4>>, <<2, 3>>, <<2, 2, 2>>}", "{<<>>, <<0>>, <<3>>, <<5>>, <<6>>, <<2, 3>>, <<3, 3>>, <<4, 3>>, <<2, 2, 2>>, <<3, 2, 2>>}")
    cases, irecs = enumerated_cases(ctx, shapes, ctx.pick("{<<3>>, <<2, 3>>}", "{<<3>>, <<2, 3>>, <<2, 2, 2>>}"), ctx.pick(4, 5),
                                    cap=ctx.pick({"index": 1200, "slice": 1500, "dtype": 700}, None),
                                    slices=ctx.pick("{4, 7}", "{0, 1, 2, 3, 4, 5, 6, 7, 8}"), dtypes=ctx.pick("{4}", "{1, 3, 4, 5}"))
    ctx.sample({"from_array_case": cases[0]["c"]})
    if irecs:
        for fam in ("index", "slice", "dtype"):
            one = next((r for r in irecs if r["case"]["fam"] == fam), None)
            if one:
                ctx.sample({"enumerated_case": one["case"], "expected_shape": one["want"]})
    recs, skips = record_pipelines(ctx, ctx.pick(350, 5000))
    for s in skips:
        ctx.skip(s)
    validate(ctx, irecs + recs)
    if recs:
        ctx.sample({"recorded_step": {"op": recs[0]["op"], "obs": {k: recs[0]["obs"][k] for k in ("lshape", "chunks", "dt")}}})
    ctx.exhaustive = False
    ctx.extra["operations_exercised"] = sorted({r["op"] for r in recs})
    ctx.extra["pipeline_steps"] = len(recs)
    ctx.rule = ("cases = intermediate arrays of recorded pipelines (one per step) + from_array on every TLC-enumerated "
                "chunking; non-trivial = the computed array has more than one cell; distinct by (operation, declared chunks, "
                "computed content)")
    ctx.assumptions = ["value interning preserves equality", "TLC evaluates the clauses correctly",
                       "operations that raise (at construction or compute) are not judged by this property"]


def replay(ctx, obj):
    c = obj["case"]
    if "record" not in c:
        print(c)
        return True
    r = c["record"]
    if r["op"] == "basic_index":
        want = {"shape": r["want"]}
        if "wantdt" in r:
            want["dt"] = {v: k for k, v in DT.items()}[r["wantdt"]]
        again = _index_record((0, r["case"], want))
        spec, cfg = ctx.model(ctx.spec("array", "ArrayMetaTrace.tla"), {})
        rej = ctx.tlc_validate(spec, [{k: again[k] for k in ("id", "obs", "want", "wantdt") if k in again}], cfg)
        print("index:", r["case"], "want shape", r["want"], "\nobservation:", again["obs"], "\nrejected:", rej)
        return bool(rej)
    recs, _skips = _pipeline(tuple(r["pipe"]))            # re-execute the whole pipeline from its seed
    again = [x for x in recs if x["id"] == r["id"]]
    if not again:
        print("the pipeline no longer reaches step", r["id"], "- steps now:", [(x["id"], x["op"]) for x in recs])
        return False
    spec, cfg = ctx.model(ctx.spec("array", "ArrayMetaTrace.tla"), {})
    rej = ctx.tlc_validate(spec, [{"id": x["id"], "obs": x["obs"]} for x in again], cfg)
    print("pipeline:", [x["op"] for x in recs], "\nstep:", r["id"], r["op"], "input class:", again[0]["feats"],
          "\nobservation:", again[0]["obs"], "\nrejected:", rej)
    return bool(rej)


def _mutants():
    """(name, module, function, old, new, re-exporting modules, operations that reach it)."""
    import dask.array as da
    import dask.array.core as core
    import dask.array.creation as creation
    return [
        ("concatenate: chunks along the axis listed in reversed input order (right sum, wrong parts)", core, "concatenate",
         "+ (sum((bd[axis] for bd in bds), ()),)", "+ (sum((bd[axis] for bd in reversed(bds)), ()),)", (da,), ["concatenate"]),
        ("repeat: declared chunk grows by the repeat count instead of being multiplied", creation, "repeat",
         "chunks[axis] = (chunks[axis][0] * repeats,)", "chunks[axis] = (chunks[axis][0] + repeats,)", (da,), ["repeat"]),
        ("elemwise: dtype inferred with Python scalars as strongly typed arrays", core, "elemwise",
         "                if not is_scalar_for_elemwise(a)\n                else a\n",
         "                if not is_scalar_for_elemwise(a)\n                else np.asarray(a)\n", (), ["add_scalar"]),
    ]


def selftest(ctx):
    """Binding demonstration: (i) in-memory mutants of dask functions that compute lazy metadata make
    TLC reject recorded pipeline steps; (ii) corrupted observations are rejected (that each corruption
    is caught by exactly its clause is also an invariant of ArrayMetaMC, checked by TLC)."""
    import copy
    import random

    from ..arrayobs import source_mutant
    ok = True
    import dask.array.reductions as reductions
    import dask.array.slicing as slicing
    cases, ix = enumerated_cases(ctx, "{<<3>>, <<2, 2>>}", "{<<1, 2>>}", 3, slices="{3}", dtypes="{3}", observe=False)
    ok &= not ctx.violations

    def pipelines(only, prefix, n=60):
        """Short pipelines that end in one of the operations `only`."""
        O = ops()
        saved = dict(O)
        recs = []
        try:
            for k in [k for k in O if k not in only and k not in ("add_scalar", "rechunk", "slice_")]:
                del O[k]
            for i in range(n):
                r, _s = _pipeline((i, 1000 + i, 3))
                recs.extend(r)
        finally:
            O.clear()
            O.update(saved)
        return [dict(r, id=prefix + r["id"]) for r in recs if r["op"] in only]

    enum_mutants = [
        ("slice_with_newaxes: a new axis is moved left by one, not by the number of integer indices before it", slicing,
         "slice_with_newaxes", "            where_none[i] -= n\n", "            where_none[i] -= 1\n", (), ("index",)),
        ("new_blockdim: pieces of a negative-step slice listed back to front only for steps below -1", slicing, "new_blockdim",
         "index.step and index.step < 0:", "index.step and index.step < -1:", (), ("slice",)),
        ("cumreduction: the per-block scan ignores the requested dtype", reductions, "cumreduction",
         "m = x.map_blocks(partial(func, dtype=dtype), axis=axis, dtype=dtype)", "m = x.map_blocks(func, axis=axis, dtype=dtype)",
         (), ("dtype",)),
    ]
    # every observation (unchanged tree and each mutant) is taken first; one TLC run decides them all
    batches = {"base": observe_cases(ix, prefix="B.")}
    for n, (name, module, fn, old, new, also, fams) in enumerate(enum_mutants):
        with source_mutant(module, fn, old, new, also=also):
            batches["E%d" % n] = observe_cases(ix, fams, prefix="E%d." % n)
    pipe_mutants = _mutants()
    for n, (name, module, fn, old, new, also, reach) in enumerate(pipe_mutants):
        batches["pb%d" % n] = pipelines(reach, "pb%d." % n)
        with source_mutant(module, fn, old, new, also=also):
            batches["P%d" % n] = pipelines(reach, "P%d." % n)
    found = [f for f in validate(ctx, [r for b in batches.values() for r in b], report=False) if classify(*f) not in ctx.known]
    hits = lambda key: [f for f in found if f[0]["id"].startswith(key + ".")]
    nb = len(hits("B"))
    print("selftest C25: design check + from_array binding on %d chunkings; %d enumerated index/slice/dtype cases, %d rejected on "
          "the unchanged tree outside the known findings  %s" % (len(cases), len(batches["base"]), nb, "ok" if ok and not nb else "FAIL"))
    ok &= not nb
    for n, (name, *_rest) in enumerate(enum_mutants):
        h = hits("E%d" % n)
        print("selftest C25 mutant [%s]: %d of %d enumerated cases rejected (%s)  %s"
              % (name, len(h), len(batches["E%d" % n]), ",".join(sorted({c for _r, cl in h for c in cl})), "detected" if h else "NOT DETECTED"))
        ok &= bool(h)
    for n, (name, *_rest) in enumerate(pipe_mutants):
        h, hb = hits("P%d" % n), hits("pb%d" % n)
        print("selftest C25 mutant [%s]: unchanged %d, mutated %d of %d rejected steps (%s)  %s"
              % (name, len(hb), len(h), len(batches["P%d" % n]), ",".join(sorted({c for _r, cl in h for c in cl})),
                 "detected" if h and not hb else "NOT DETECTED"))
        ok &= bool(h) and not hb
    recs, _ = record_pipelines(ctx, 15)
    good = [r for r in recs if not meta_clauses(r["obs"]) and len(r["obs"]["blocks"]) > 1 and len(r["obs"]["whole"]["c"]) > 1]
    corrupt = []
    for n, r in enumerate(good[:8]):
        c = copy.deepcopy(r)
        c["id"] = "c%d" % n
        if n % 4 == 0:
            c["obs"]["blocks"] = c["obs"]["blocks"][1:]
            want = "Keys"
        elif n % 4 == 1:
            c["obs"]["dt"] = "complex64"
            want = "Dtype"
        elif n % 4 == 2:
            b = next(b for b in c["obs"]["blocks"] if b["c"])
            b["c"][0] = max(c["obs"]["whole"]["c"]) + 1
            want = "Reassemble"
        else:
            c["obs"]["lshape"] = [s + 1 for s in c["obs"]["lshape"]]
            want = "LazyShape"
        corrupt.append((c, want))
    spec, cfg = ctx.model(ctx.spec("array", "ArrayMetaTrace.tla"), {})
    rejd = ctx.tlc_validate(spec, [{"id": c["id"], "obs": c["obs"]} for c, _w in corrupt], cfg, label="selftest corrupted records")
    ok &= len(corrupt) >= 4
    for c, want in corrupt:
        got = rejd.get(c["id"], [""])[0]
        hit = want in got
        print("selftest C25 corrupted record %s (%s): %s  %s" % (c["id"], want, got or "accepted", "rejected" if hit else "NOT REJECTED"))
        ok &= hit
    print("selftest C25: %s" % ("all binding checks hold" if ok else "FAILED"))
    return 0 if ok else 1
