"""C04 - A failing task surfaces its exception and the scheduler terminates cleanly.  See harness/schedrun.py (shared by C01-C04) and specs/sched/LocalScheduler*.tla."""
from .. import schedrun as R

META = dict(R.META_COMMON, title="A failing task surfaces its exception and the scheduler terminates cleanly", level_text="Every choice of 1-2 failing tasks: TLC model-checks RaisedIsReal/NoDepOfFailedRuns/FinishOnce/FailMustRaise, deadlock freedom and termination (liveness under weak fairness, no state constraint); replay compares raised key, exception type (Exception, BaseException subclass, unpicklable, ValueError), finish flag and count, with a hang watchdog; real pool traces validated by TLC.")


def run(ctx):
    R.run_property(ctx, "C04")


def replay(ctx, obj):
    return R.replay_case(ctx, "C04", obj)


def selftest(ctx):
    return R.selftest_property(ctx, "C04")
