"""C26 - overlap computations match the unchunked stencil.

spec -> code: TLC enumerates (specs/array/OverlapMC.tla) every case of the bounded space - shape, per-axis
(asymmetric) depths, per-axis boundary conditions, stencil radius / window - with the result demanded by the
TLA+ reference (specs/array/Overlap.tla: PadWhole, OverlapArr, TrimArr, MapOverlapWhole, SlidingWindow), plus,
per shape, the complete list of chunkings; it proves on the way that the block-wise computation equals the
whole-array one for every admissible chunking.  Each case is run on real dask arrays under those chunkings
(chunks smaller than the depth included), every block computed through its own key.  The stencil function
encodes *which* neighbours it read into its result, so the comparison sees any misplaced or missing halo cell.
code -> spec: seeded random calls on larger arrays (up to 3-d) and calls of ensure_minimum_chunksize are
recorded and TLC decides every record (OverlapTrace.tla).  NumPy is only the reference *guard*."""
from __future__ import annotations

import functools
import itertools
import json
import warnings

import numpy as np

from ..arrays import cells, observe, py_chunks, raised
from ..core import TLA, MachineryError
from ..par import pmap

META = {
    "title": "Overlap computations match the unchunked stencil",
    "design_ref": "DESIGN.md §4.3 C26",
    "technique": "TLA+ reference semantics of boundary padding, per-block windows, trimming, stencils that record the cells "
                 "they read, and sliding windows; TLC enumerates small shapes x depths x boundaries x all chunkings and proves "
                 "blockwise = whole on the reference; replay into dask + TLC validation of recorded calls",
    "level_text": "Small-scope exhaustive: TLC enumerates 1-d extents <= 7 (quick 6) with depths 0..3 (all asymmetric pairs for "
                  "boundary 'none'), 2-d shapes up to (4,4) with per-axis depths <= 2 and per-axis boundaries in {none, periodic, "
                  "reflect, nearest, constant}, every admissible chunking for the raw overlap() result, stencil radii <= depth, "
                  "sliding windows incl. repeated axes, and ALL input chunkings (chunks smaller than the depth, zero-width chunks "
                  "on tiny extents); trim(overlap(x)) = x, map_overlap(trim on/off, allow_rechunk on/off) = trim(f(pad(x))), "
                  "sliding_window_view = NumPy's; ensure_minimum_chunksize is checked against its contract and a TLA+ "
                  "transcription. A border stratum is never sampled out: for every depth d the chunkings of two or three blocks "
                  "with lengths from {d-1, d, d+1, 2d-1, 2d, 1, 0} that contain a block shorter than d (first / middle / last; "
                  "extents to 10, thorough 12), 1-d and along either axis of (e,2)/(2,e) arrays, under every boundary condition. "
                  "Random larger calls (to 3-d) are decided by TLC from recorded observations.",
    "level_note": "Trusted: TLC, the TLA+ reference (cross-checked against numpy.pad / slicing / sliding_window_view on every "
                  "case; a disagreement is a machinery error), the block-assembly projection, NumPy per block. Bounded shapes; "
                  "quick tier samples (case, chunking) pairs; multi-array map_overlap, drop_axis/new_axis and push are not covered; "
                  "depth larger than the axis is documented to raise and is not judged.",
}

FAMS = ["overlap", "trim", "map", "swv", "emc"]
INVS = ["CellCount", "TrimInverts", "OverlapCellsKnown", "BlocksEqualWhole", "MapReadsCentre", "MapNoneReadsNothingOutside",
        "SwvFirstWindow", "EmcContract", "ChunkingsValid", "BorderCovers"]
NP_MODE = {"periodic": "wrap", "reflect": "symmetric", "nearest": "edge", "constant": "constant"}


# --------------------------------------------------------------------------- the source array and the stencil function
def source(shape):
    n = int(np.prod(shape)) if len(shape) else 1
    return np.arange(1, n + 1, dtype="i8").reshape(tuple(shape))


def cval(shape):
    return int(np.prod(shape)) + 1


def base(shape):
    return int(np.prod(shape)) + 2


def ndigits(rad):
    k = 1
    for lo, hi in rad:
        k *= lo + hi + 1
    return k


def stencil(block, rad, B):
    """f(x)[i] = sum over the offsets o of the box -rad_before .. rad_after of B^rank(o) * x[i + o], 0 outside x: the base-B
    digits of a result cell are the cells it read, in row-major order of the offsets."""
    block = np.asarray(block)
    if block.ndim != len(rad):
        return block
    P = np.pad(block.astype("i8"), [(lo, hi) for lo, hi in rad], mode="constant", constant_values=0)
    out = np.zeros(block.shape, dtype="i8")
    for off in itertools.product(*[range(lo + hi + 1) for lo, hi in rad]):
        out = out * B + P[tuple(slice(o, o + n) for o, n in zip(off, block.shape))]
    return out


def stencil_selftrim(block, rad, B, depth, bnd, block_info=None):
    """The same function for trim=False: it cuts the halo off itself (block_info tells it where the block sits)."""
    out = stencil(block, rad, B)
    if block_info is None or out.ndim != len(rad):
        return out
    info = block_info[0]
    loc, num = info["chunk-location"], info["num-chunks"]
    sl = []
    for d in range(out.ndim):
        front = 0 if (bnd[d] == "none" and loc[d] == 0) else depth[d][0]
        back = 0 if (bnd[d] == "none" and loc[d] == num[d] - 1) else depth[d][1]
        sl.append(slice(front, out.shape[d] - back))
    return out[tuple(sl)]


def decode(vals, K, B):
    out = []
    for v in vals:
        v = int(v)
        ds = []
        for _ in range(K):
            ds.append(v % B)
            v //= B
        out.append(ds[::-1] if v == 0 else [-1] * K)
    return out


# --------------------------------------------------------------------------- NumPy reference (guard only)
def depth_fits(shape, depth):
    return all(max(dp) <= s for dp, s in zip(depth, shape))


def np_pad_whole(x, depth, bnd, cv):
    for d, (dp, b) in enumerate(zip(depth, bnd)):
        if b == "none" or sum(dp) == 0:
            continue
        pw = [(0, 0)] * x.ndim
        pw[d] = (dp[0], dp[1])
        kw = {"constant_values": cv} if b == "constant" else {}
        x = np.pad(x, pw, mode=NP_MODE[b], **kw)
    return x


def _concat_grid(get, nbs, prefix=()):
    d = len(prefix)
    if d == len(nbs):
        return get(prefix)
    return np.concatenate([_concat_grid(get, nbs, prefix + (i,)) for i in range(nbs[d])], axis=d)


def np_overlap(x, eff, depth, bnd, cv):
    P = np_pad_whole(x, depth, bnd, cv)
    wins, och = [], []
    for d, ch in enumerate(eff):
        padl = 0 if bnd[d] == "none" else depth[d][0]
        off, w, oc = 0, [], []
        for b, c in enumerate(ch):
            front = 0 if (bnd[d] == "none" and b == 0) else depth[d][0]
            back = 0 if (bnd[d] == "none" and b == len(ch) - 1) else depth[d][1]
            w.append(slice(off + padl - front, off + c + padl + back))
            oc.append(c + front + back)
            off += c
        wins.append(w)
        och.append(oc)
    full = _concat_grid(lambda idx: P[tuple(wins[d][i] for d, i in enumerate(idx))], [len(c) for c in eff])
    return full, och


def np_reference(case):
    fam = case["fam"]
    shape = case["shape"]
    x = source(shape)
    if fam == "swv":
        try:
            w = tuple(case["w"])
            ax = None if case["axnone"] else tuple(case["axes"])
            r = np.lib.stride_tricks.sliding_window_view(x, w, axis=ax)
            return {"err": False, "shape": list(r.shape), "cells": cells(r)}
        except Exception:  # noqa: BLE001 - NumPy raises: no result
            return {"err": True}
    depth, bnd = case["depth"], case["bnd"]
    if not depth_fits(shape, depth):
        return {"err": True}
    if fam == "overlap":
        full, och = np_overlap(x, case["eff"], depth, bnd, cval(shape))
        return {"err": False, "shape": list(full.shape), "cells": cells(full), "chunks": och}
    if fam == "trim":
        return {"err": False, "shape": list(x.shape), "cells": cells(x)}
    if fam == "map":
        rad = case["rad"]
        if any(r[0] > dp[0] or r[1] > dp[1] for r, dp in zip(rad, depth)):
            return {"err": True}
        P = np_pad_whole(x, depth, bnd, cval(shape))
        F = stencil(P, rad, base(shape))
        sl = tuple(slice(0, None) if b == "none" else slice(dp[0], F.shape[d] - dp[1]) for d, (dp, b) in enumerate(zip(depth, bnd)))
        F = F[sl]
        return {"err": False, "shape": list(F.shape), "cells": decode(cells(F), ndigits(rad), base(shape))}
    raise MachineryError("unknown family %r" % fam)


def same_result(ref, exp):
    if ref["err"] != exp["err"]:
        return False
    if ref["err"]:
        return True
    if ref["shape"] != list(exp["shape"]) or ref["cells"] != [list(c) if isinstance(c, (list, tuple)) else c for c in exp["cells"]]:
        return False
    return "chunks" not in ref or ref["chunks"] == [list(c) for c in exp["chunks"]]


# --------------------------------------------------------------------------- spellings of the arguments
def spell_depth(depth, alt):
    per = [dp[0] if dp[0] == dp[1] else (dp[0], dp[1]) for dp in depth]
    plain = all(not isinstance(p, tuple) for p in per)
    if alt % 3 == 1 and plain:
        return tuple(per)
    if alt % 3 == 2 and plain and len(set(per)) == 1:
        return per[0]
    return dict(enumerate(per))


def spell_bnd(bnd, cv, alt):
    per = [cv if b == "constant" else b for b in bnd]
    if alt % 4 == 1:
        return tuple(per)
    if alt % 4 == 2 and len({str(p) for p in per}) == 1:
        return per[0]
    if alt % 4 == 3 and all(p == "none" for p in per):
        return None
    return dict(enumerate(per))


# --------------------------------------------------------------------------- one call on real dask arrays
def apply_dask(case, chunks, v):
    """-> the dask array the case's call returns.  v: spelling / option variant."""
    import dask.array as da
    from dask.array import overlap as ov
    fam, shape = case["fam"], case["shape"]
    x = da.from_array(source(shape), chunks=py_chunks(chunks))
    alt = v.get("alt", 0)
    if fam == "swv":
        w = tuple(case["w"])
        ax = None if case["axnone"] else tuple(case["axes"])
        if alt % 2 and len(w) == 1:
            w = w[0]
            ax = ax if ax is None else ax[0]
        return ov.sliding_window_view(x, w, axis=ax, automatic_rechunk=v.get("auto", True))
    depth, bnd = case["depth"], case["bnd"]
    cv = cval(shape)
    sd, sb = spell_depth(depth, alt), spell_bnd(bnd, cv, alt // 3)
    if fam == "overlap":
        return ov.overlap(x, sd, sb)
    if fam == "trim":
        g = ov.overlap(x, sd, sb)
        if v.get("internal"):
            return ov.trim_internal(g, ov.coerce_depth(x.ndim, sd), ov.coerce_boundary(x.ndim, sb))
        return ov.trim_overlap(g, sd, sb)
    if fam == "map":
        rad, B = case["rad"], base(shape)
        kw = {}
        if v.get("trim", True):
            f = functools.partial(stencil, rad=rad, B=B)
        else:
            f = functools.partial(stencil_selftrim, rad=rad, B=B, depth=depth, bnd=bnd)
            kw["trim"] = False
        if not v.get("rechunk", True):
            kw["allow_rechunk"] = False
        if v.get("meta"):
            kw["meta"] = np.array((), dtype="i8")
        elif v.get("dtype"):
            kw["dtype"] = "i8"
        if v.get("func"):
            return da.map_overlap(f, x, depth=sd, boundary=sb, **kw)
        return x.map_overlap(f, depth=sd, boundary=sb, **kw)
    raise MachineryError("unknown family %r" % fam)


def needs_rechunk(case, chunks):
    return "depth" in case and any(len(ax) > 0 and min(ax) < max(dp) for ax, dp in zip(chunks, case["depth"]))


def run_dask(case, run, whole=False):
    try:
        with warnings.catch_warnings():
            warnings.simplefilter("ignore")
            y = apply_dask(case, run["chunks"], run["v"])
            obs, full = observe(y, whole_too=whole)
        return obs, (cells(full) if full is not None else None)
    except NotImplementedError as ex:
        return {"skip": "NotImplementedError(%s): %s" % (case["fam"], str(ex)[:60])}, None
    except Exception as ex:  # noqa: BLE001 - every other exception is an observation
        if isinstance(ex, ValueError) and "allow_rechunk=True" in str(ex) and not run["v"].get("rechunk", True) \
                and needs_rechunk(case, run["chunks"]):
            return {"skip": "documented: allow_rechunk=False with chunks smaller than the depth raises ValueError"}, None
        if isinstance(ex, ValueError) and "must contain values > 0" in str(ex) and case["fam"] == "swv" and 0 in case["w"]:
            return {"skip": "documented: sliding_window_view rejects a window of length 0 (NumPy returns an empty array)"}, None
        o = raised(ex)
        o["msg"] = "%s: %s" % (type(ex).__name__, str(ex)[:200])
        return o, None


def normal_cells(case, got):
    if got is not None and case["fam"] == "map":
        return decode(got, ndigits(case["rad"]), base(case["shape"]))
    return got


def meta_ok(obs):
    if len(obs["chunks"]) != len(obs["cshape"]) or not obs["blocksok"]:
        return False
    for a, ch in enumerate(obs["chunks"]):
        if all(c >= 0 for c in ch) and (sum(ch) != obs["cshape"][a] or obs["lshape"][a] != obs["cshape"][a]):
            return False
    return True


def judge(case, exp, obs, got):
    """exp: the TLC result of the case; for fam "overlap": {"err", "table": {json(out chunks): result}} - the expected
    windows are looked up under the chunks dask declares (TLC enumerated every admissible chunking)."""
    if "skip" in obs:
        return None
    if exp["err"]:
        return None        # no result is promised (depth wider than the axis, NumPy raises): anything is accepted
    if obs["raised"]:
        return "UnexpectedRaise"
    if case["fam"] == "overlap":
        exp = exp["table"].get(json.dumps(obs["chunks"]))
        if exp is None:
            return "EffChunks"
    if obs["cshape"] != list(exp["shape"]):
        return "Shape"
    if normal_cells(case, got) != [list(c) if isinstance(c, (list, tuple)) else c for c in exp["cells"]]:
        return "Content"
    if not meta_ok(obs):
        return "Meta"
    return None


def classify(case, clause, run):
    """Input class of a violation: family (call site), failing clause, and the structural class of the arguments -
    zero-width chunks first (recorded separately), then re-chunking needed / asymmetric depth / boundary kinds /
    option variants; never concrete numbers."""
    fam = case["fam"]
    if fam == "emc":
        return "emc:%s:%s" % (clause, "zero-chunk" if 0 in case["chunks"] else "basic")
    chunks = run["chunks"]
    kind = "raises" if clause == "UnexpectedRaise" else "wrong-result"
    if any(0 in ax and sum(ax) > 0 for ax in chunks):
        return "%s:zero-chunk:%s" % (fam, kind)
    feats = ["%dd" % len(case["shape"])]
    v = run.get("v", {})
    if fam == "swv":
        nd = len(case["shape"])
        axes = [a % nd for a in case["axes"]] if all(-nd <= a < nd for a in case["axes"]) else []
        if len(set(axes)) < len(axes):
            feats.append("repeated-axis")
        if not v.get("auto", True):
            feats.append("no-auto-rechunk")
    else:
        if needs_rechunk(case, chunks):
            feats.append("small-chunks")
        if any(dp[0] != dp[1] for dp in case["depth"]):
            feats.append("asym")
        modes = sorted({b for b, dp in zip(case["bnd"], case["depth"]) if max(dp) > 0})
        feats.append("/".join(modes) if modes else "nodepth")
        if fam == "map" and not v.get("trim", True):
            feats.append("notrim")
        if fam == "map" and not v.get("rechunk", True):
            feats.append("norechunk")
    return "%s:%s:%s" % (fam, clause, "+".join(feats))


# --------------------------------------------------------------------------- spec -> code
def enumerate_cases(ctx, fams, n1, shapes2, emcn, label, zeron=3, maxd=3, invariants=INVS, lo1=1, cfgmode="full", border=0):
    spec, cfg = ctx.model(ctx.spec("array", "OverlapMC.tla"),
                          {"Fams": set(fams), "Lo1": lo1, "N1": n1, "MaxD": maxd, "Shapes2": TLA(shapes2), "ZeroN": zeron,
                           "EmcN": emcn, "CfgMode": cfgmode, "Border": border},
                          invariants=invariants)
    return spec, cfg, label


def read_cases(ctx, prepared):
    spec, cfg, label = prepared
    cases, _ = ctx.tlc_cases(spec, cfg, label="design+cases:" + label, timeout=3000)
    return [c for c in cases if c is not None]


def _guard(c):
    if c["c"]["fam"] in ("emc", "chunkings", "border"):
        return None
    ref = np_reference(c["c"])
    return None if same_result(ref, c["e"]) else ref


def group_cases(cases):
    """-> (groups: [(case without eff, exp)], chunkings: {shape: [chunking]}, emc: [(case, exp)]); the border chunkings
    per depth are left in group_cases.border"""
    chunkings, emc, groups, tables, seen = {}, [], [], {}, set()
    group_cases.border = {}
    for c in cases:
        case, e = c["c"], c["e"]
        fam = case["fam"]
        key = json.dumps(case, sort_keys=True)
        if key in seen:
            continue            # the same case enumerated by two TLC jobs
        seen.add(key)
        if fam == "chunkings":
            chunkings[tuple(case["shape"])] = e["all"]
        elif fam == "border":
            group_cases.border[case["d"]] = [list(sq) for sq in e["all"]]
        elif fam == "emc":
            emc.append((case, e))
        elif fam == "overlap":
            key = json.dumps([case["shape"], case["depth"], case["bnd"]])
            if key not in tables:
                tables[key] = {"err": e["err"], "table": {}}
                groups.append(({k: v for k, v in case.items() if k != "eff"}, tables[key]))
            if not e["err"]:
                tables[key]["table"][json.dumps([list(ax) for ax in e["chunks"]])] = {"shape": e["shape"], "cells": e["cells"]}
        else:
            groups.append((case, e))
    return groups, chunkings, emc


def variant(case, rng, chunks=None):
    fam = case["fam"]
    v = {"alt": rng.randrange(12)}
    if fam == "swv":
        v["auto"] = rng.random() < 0.7
    elif fam == "trim":
        v["internal"] = rng.random() < 0.4
    elif fam == "map":
        v["trim"] = rng.random() < 0.6
        # allow_rechunk=False raises (documented) when a chunk is smaller than the depth: rarely asked for then
        v["rechunk"] = rng.random() < (0.95 if (chunks is not None and needs_rechunk(case, chunks)) else 0.6)
        v["func"] = rng.random() < 0.4
        m = rng.randrange(3)
        v["meta"], v["dtype"] = m == 1, m == 2
    return v


def _work(item):
    case, exp, runs = item
    res = []
    for run in runs:
        obs, got = run_dask(case, run)
        if "skip" in obs:
            res.append(("SKIP", run, obs["skip"]))
            continue
        cl = judge(case, exp, obs, got)
        res.append((cl, run, {"obs": obs, "got": got} if cl else None))
    return res


def nontrivial(case, exp):
    if exp["err"]:
        return False
    if case["fam"] == "swv":
        return True
    return any(max(dp) > 0 for dp in case["depth"])


def expected_for_replay(case, exp, detail):
    if case["fam"] != "overlap":
        return exp
    key = json.dumps(detail["obs"]["chunks"]) if detail else None
    return {"err": exp["err"], "table": {key: exp["table"][key]} if key in exp["table"] else {}}


def replay_cases(ctx, groups, chunkings, cap, nvariants, always=()):
    """`always`: (group, chunking) pairs of the border stratum - run whatever the sampling of the rest does."""
    pairs = []
    for gi, (case, exp) in enumerate(groups):
        for ch in chunkings.get(tuple(case["shape"]), []):
            pairs.append((gi, ch))
    total = len(pairs) + len(always)
    sampled = len(pairs) * nvariants > cap
    if sampled:
        pairs = ctx.rng.sample(pairs, max(1, cap // nvariants))
    pairs = sorted(list(pairs) + list(always), key=lambda p: p[0])
    by = {}
    for gi, ch in pairs:
        for _ in range(nvariants):
            by.setdefault(gi, []).append({"chunks": ch, "v": variant(groups[gi][0], ctx.rng, ch)})
    items = [(groups[gi][0], groups[gi][1], runs) for gi, runs in sorted(by.items())]
    for (case, exp, _r), res in zip(items, pmap(_work, items, chunk=8)):
        for cl, run, detail in res:
            if cl == "SKIP":
                ctx.skip(detail)
                continue
            ctx.count((case, run), nontrivial(case, exp))
            if cl:
                ctx.violation(classify(case, cl, run), "%s: dask %s disagrees with the reference%s"
                              % (cl, case["fam"], (" (%s)" % detail["obs"].get("msg")) if detail["obs"].get("msg") else ""),
                              {"case": case, "expected": expected_for_replay(case, exp, detail), "run": run, "observed": detail})
    return items, total, sampled


# --------------------------------------------------------------------------- the border stratum
def border_layouts(d, seq, n2, full):
    """A border chunking of one axis as chunkings of arrays: 1-d, and along either axis of a 2-d array with a short other axis."""
    e = sum(seq)
    out = [([e], [list(seq)], 0)]
    if d <= 2 and 3 <= e <= n2:
        others = ([2], [1, 1]) if full else (([2], [1, 1])[(e + len(seq)) % 2],)
        for o in others:
            out.append(([e, 2], [list(seq), list(o)], 0))
            out.append(([2, e], [list(o), list(seq)], 1))
    return out


def _stratum_cfg(case, axis, d):
    """Is the case one the stratum pairs with a border chunking of depth d along `axis`?  -> None | (mode, primary)"""
    fam, nd = case["fam"], len(case["shape"])
    if fam == "swv":
        if case["axnone"] or len(case["w"]) != 1 or case["axes"] != [axis] or case["w"][0] != d + 1:
            return None
        return ("-", True)
    dp, bnd = case["depth"], case["bnd"]
    mode = bnd[axis]
    if dp[axis] == [d, d]:
        pass
    elif nd == 1 and d >= 1 and dp[0] == [d, d - 1] and mode == "none":
        mode = "none-asym"
    else:
        return None
    if nd == 2:
        o = 1 - axis
        if not ((dp[o] == [0, 0] and bnd[o] == "none") or (dp[o] == [1, 1] and bnd[o] == bnd[axis])):
            return None
    primary = True
    if fam == "map":
        want = [list(x) for x in dp] if nd == 1 else [[min(x[0], 1), min(x[1], 1)] for x in dp]
        primary = [list(r) for r in case["rad"]] == want
    return (mode, primary)


def border_stratum(groups, border, n2, full):
    """-> (always: [(group index, chunking)], records: [(id, overlap case, run)]).
    Thorough (full): every stratum case under every border chunking.  Quick: for every border chunking and every boundary
    condition the map_overlap case with the widest stencil, plus one of trim / overlap / sliding window in rotation."""
    byshape = {}
    for gi, (case, _e) in enumerate(groups):
        byshape.setdefault(tuple(case["shape"]), []).append(gi)
    always, records, rot = [], [], 0
    for d in sorted(border):
        for seq in border[d]:
            for shape, chunking, axis in border_layouts(d, seq, n2, full):
                cand = {}
                for gi in byshape.get(tuple(shape), []):
                    m = _stratum_cfg(groups[gi][0], axis, d)
                    if m is not None:
                        cand.setdefault((groups[gi][0]["fam"], m[0]), []).append((gi, m[1]))
                modes = sorted({k[1] for k in cand if k[0] == "map"})
                for mode in modes:
                    maps = cand.get(("map", mode), [])
                    prim = [gi for gi, p in maps if p] or [gi for gi, _p in maps[:1]]
                    if len(shape) == 2 and not full:
                        prim = prim[(rot % len(prim)):][:1]        # one of the two short-axis options
                    always += [(gi, chunking) for gi in (prim if not full else [gi for gi, _p in maps])]
                    others = ["trim", "overlap", "swv"] if full else [("trim", "overlap", "swv")[rot % 3]]
                    rot += 1
                    for fam in others:
                        got = cand.get((fam, mode if fam != "swv" else "-"), [])
                        if got:
                            always += [(gi, chunking) for gi, _p in (got if full else got[:1])]
                        elif fam == "overlap" and maps:
                            c0 = groups[maps[0][0]][0]           # no enumerated table for this shape: TLC decides the record
                            case = {"fam": "overlap", "shape": c0["shape"], "depth": c0["depth"], "bnd": c0["bnd"]}
                            records.append(("b%d" % len(records), case, {"chunks": chunking, "v": {"alt": rot % 12}}))
    return always, records


# --------------------------------------------------------------------------- ensure_minimum_chunksize
def call_emc(size, chunks):
    from dask.array.overlap import ensure_minimum_chunksize
    try:
        out = ensure_minimum_chunksize(size, tuple(chunks))
        return {"raised": False, "out": [int(c) for c in out]}
    except Exception as ex:  # noqa: BLE001 - the contract says when raising is allowed
        return {"raised": True, "out": [], "msg": type(ex).__name__}


def emc_records(ctx, emc_cases, nrandom):
    recs, diverged = [], 0
    for i, (case, exp) in enumerate(emc_cases):
        obs = call_emc(case["size"], case["chunks"])
        if obs["raised"] != exp["raised"] or obs["out"] != list(exp["out"]):
            diverged += 1        # differs from the transcription: not a violation by itself, the contract decides
        recs.append({"id": "e%d" % i, "c": case, "run": {"chunks": [case["chunks"]]}, "obs": {k: obs[k] for k in ("raised", "out")}})
    for i in range(nrandom):
        k = ctx.rng.randint(1, 8)
        chunks = [ctx.rng.choice([0, 1, 1, 2, 3, 4, 5, 8, 12]) for _ in range(k)]
        case = {"fam": "emc", "size": ctx.rng.randint(0, 9), "chunks": chunks}
        obs = call_emc(case["size"], chunks)
        recs.append({"id": "er%d" % i, "c": case, "run": {"chunks": [chunks]}, "obs": {k: obs[k] for k in ("raised", "out")}})
    return recs, diverged


# --------------------------------------------------------------------------- code -> spec: random larger calls
def _rand_chunking(rng, n, zero_p=0.08):
    if n == 0:
        return [0]
    ch, left = [], n
    while left > 0:
        c = rng.randint(1, left)
        ch.append(c)
        left -= c
    if rng.random() < zero_p:
        ch.insert(rng.randint(0, len(ch)), 0)
    return ch


def random_case(rng):
    fam = rng.choice(["overlap", "trim", "map", "map", "swv"])
    nd = rng.choice([1, 1, 2, 2, 3])
    shape = [[rng.randint(1, 10)], [rng.randint(1, 6), rng.randint(1, 5)], [rng.randint(1, 3) for _ in range(3)]][nd - 1]
    if fam == "swv":
        k = rng.randint(1, 3)
        axes = [rng.randrange(-nd, nd) for _ in range(k)]
        w = [rng.randint(1, max(1, min(3, shape[a % nd]))) for a in axes]
        axnone = rng.random() < 0.25
        if axnone:
            axes = list(range(nd))
            w = [rng.randint(1, min(3, s)) for s in shape]
        return {"fam": "swv", "shape": shape, "w": w, "axes": axes, "axnone": axnone}
    depth, bnd = [], []
    for s in shape:
        b = rng.choice(["none", "none", "periodic", "reflect", "nearest", "constant"])
        m = min(3, s) if rng.random() > 0.03 else s + 1
        if rng.random() < 0.25:
            dp = [0, 0]
        elif rng.random() < 0.25 and (b == "none" or (fam == "map" and rng.random() < 0.2)):
            dp = [rng.randint(0, m), rng.randint(0, m)]
        else:
            dp = [rng.randint(1, m)] * 2
        depth.append(dp)
        bnd.append(b)
    case = {"fam": fam, "shape": shape, "depth": depth, "bnd": bnd}
    if fam == "map":
        rad = [[rng.randint(0, dp[0]), rng.randint(0, dp[1])] for dp in depth]
        while ndigits(rad) > 9:
            d = rng.randrange(nd)
            rad[d] = [max(0, rad[d][0] - 1), max(0, rad[d][1] - 1)]
        case["rad"] = rad
    return case


def random_runs(ctx, n):
    items = []
    for i in range(n):
        case = random_case(ctx.rng)
        chunks = [_rand_chunking(ctx.rng, s) for s in case["shape"]]
        run = {"chunks": chunks, "v": variant(case, ctx.rng, chunks)}
        items.append(("r%d" % i, case, run))
    return items


def _record(item):
    rid, case, run = item
    obs, got = run_dask(case, run, whole=True)
    if "skip" in obs:
        return {"skip": obs["skip"]}
    obs = {k: v for k, v in obs.items() if k not in ("msg", "kind")}
    got = normal_cells(case, got)
    obs["cells"] = got if got is not None else []
    return {"id": rid, "c": case, "run": run, "obs": obs}


CLAUSES = ("UnexpectedRaise", "EffChunks", "Shape", "Content", "Meta", "Contract")


def validate(ctx, recs, label, report=True):
    spec, cfg = ctx.model(ctx.spec("array", "OverlapTrace.tla"), {})
    out = {}
    for lo in range(0, len(recs), 8000):
        part = recs[lo:lo + 8000]
        slim = [{"id": r["id"], "c": r["c"], "obs": r["obs"]} for r in part]
        rej = ctx.tlc_validate(spec, slim, cfg, timeout=2400, label="trace-validation:" + label)
        byid = {r["id"]: r for r in part}
        for rid, clauses in sorted(rej.items()):
            r = byid[rid]
            cl = next((n for n in CLAUSES if '"%s"' % n in clauses[0]), "Rejected")
            out[rid] = cl
            if report:
                ctx.violation(classify(r["c"], cl, r["run"]), "TLC rejects a recorded %s call (%s)" % (r["c"]["fam"], clauses[0]),
                              {"record": r, "clauses": clauses})
    return out


# --------------------------------------------------------------------------- run
def run(ctx):
    from ..sidebyside import in_parallel
    n1 = ctx.pick(6, 7)
    shapes2 = ctx.pick("{<<2, 3>>, <<3, 4>>}", "{<<1, 4>>, <<2, 3>>, <<3, 2>>, <<3, 4>>, <<4, 4>>}")
    emcn = ctx.pick(8, 10)
    none2 = "{}"
    bn, bn2 = ctx.pick(10, 12), ctx.pick(6, 7)       # extents of the border stratum: 1-d, long axis of 2-d
    bshapes2 = "{" + ", ".join("<<%d, 2>>, <<2, %d>>" % (e, e) for e in range(3, bn2 + 1)) + "}"
    jobs = [enumerate_cases(ctx, ["overlap"], n1, none2, emcn, "overlap-1d"),
            enumerate_cases(ctx, ["overlap"], 0, shapes2, emcn, "overlap-2d"),
            enumerate_cases(ctx, ["map"], n1, none2, emcn, "map_overlap-1d"),
            enumerate_cases(ctx, ["map"], 0, shapes2, emcn, "map_overlap-2d"),
            enumerate_cases(ctx, ["trim", "swv", "emc"], n1, shapes2, emcn, "trim+sliding_window+ensure_minimum_chunksize"),
            enumerate_cases(ctx, ["trim", "map", "swv"], bn, bshapes2, emcn, "border-stratum", lo1=n1 + 1, cfgmode="border",
                            border=bn)]
    parts = in_parallel([functools.partial(read_cases, ctx, j) for j in jobs])
    # TLC's workers write the state dump in no particular order: sort, so that seeded sampling is reproducible
    cases = sorted((c for p in parts for c in p), key=lambda c: json.dumps(c["c"], sort_keys=True))
    for c, bad in zip(cases, pmap(_guard, cases, chunk=64)):
        if bad is not None:
            raise MachineryError("TLA+ reference disagrees with NumPy on %r: numpy=%r spec=%r" % (c["c"], bad, c["e"]))
    groups, chunkings, emc = group_cases(cases)
    always, brecs = border_stratum(groups, group_cases.border, bn2, not ctx.quick)
    items, total, sampled = replay_cases(ctx, groups, chunkings, ctx.pick(6000, 40000), 1, always=always)
    for it in items[:3]:
        ctx.sample({"case": it[0], "run": it[2][0]})
    # ensure_minimum_chunksize: real results against the transcription (informative) and the contract (TLC decides)
    recs, diverged = emc_records(ctx, emc, ctx.pick(500, 5000))
    for r in recs:
        ctx.count(("emc", r["c"]), r["c"]["size"] > min(r["c"]["chunks"]))
    # code -> spec: random larger calls
    for r in pmap(_record, brecs + random_runs(ctx, ctx.pick(500, 5000)), chunk=16):
        if "skip" in r:
            ctx.skip(r["skip"])
            continue
        recs.append(r)
        ctx.count(("rec", r["c"], r["run"]), r["obs"]["raised"] == "" and len(r["obs"]["cells"]) > 0)
    validate(ctx, recs, "random-calls+ensure_minimum_chunksize")
    ctx.sample({"recorded_call": {"case": recs[-1]["c"], "run": recs[-1]["run"]}})
    ctx.exhaustive = not sampled
    ctx.extra["cases_enumerated_by_tlc"] = len(cases) - len(chunkings)
    ctx.extra["chunkings_enumerated_by_tlc"] = sum(len(v) for v in chunkings.values())
    ctx.extra["case_x_chunking_pairs"] = total
    ctx.extra["border_stratum_runs_never_sampled_out"] = len(always) + len(brecs)
    ctx.extra["border_chunkings_per_depth"] = {str(d): len(v) for d, v in sorted(group_cases.border.items())}
    ctx.extra["emc_results_differing_from_transcription"] = diverged
    ctx.rule = ("cases = TLC-enumerated (family, shape, depths, boundaries, radius/window) x TLC-enumerated chunkings of the "
                "input x option/spelling variants, plus recorded random calls and ensure_minimum_chunksize calls; non-trivial = "
                "a result is promised and some depth > 0 (sliding windows: always; ensure_minimum_chunksize: some chunk < size); "
                "distinct by (case, chunking, variant)")
    ctx.assumptions = ["NumPy per-block kernels are correct", "TLC evaluates the reference semantics correctly",
                       "shapes / depths bounded as listed in tlc_runs constants"]


# --------------------------------------------------------------------------- replay
def replay(ctx, obj):
    c = obj["case"]
    if "record" in c:
        r = c["record"]
        if r["c"]["fam"] == "emc":
            o = call_emc(r["c"]["size"], r["c"]["chunks"])
            rec = {"id": r["id"], "c": r["c"], "run": r["run"], "obs": {k: o[k] for k in ("raised", "out")}}
        else:
            rec = _record((r["id"], r["c"], r["run"]))
        if "skip" in rec:
            print("skipped:", rec["skip"])
            return False
        rej = validate(ctx, [rec], "replay", report=False)
        print("observed:", rec["obs"], "rejected:", rej)
        return bool(rej)
    case, exp, run = c["case"], c["expected"], c["run"]
    obs, got = run_dask(case, run)
    cl = judge(case, exp, obs, got)
    print("case:", case, "\nrun:", run, "\nobserved:", obs, normal_cells(case, got), "\nclause:", cl)
    return cl is not None


# --------------------------------------------------------------------------- selftest
def _selftest_replay(groups, chunkings, emc, seed=5, n=450):
    """The case loop, serially (mutants are patched in this process).  -> (#violations, {signature})"""
    import random
    rng = random.Random(seed)
    pairs = [(gi, ch) for gi, (case, exp) in enumerate(groups) for ch in chunkings[tuple(case["shape"])]
             if not any(0 in ax for ax in ch) and not exp["err"]]
    pairs = rng.sample(pairs, min(n, len(pairs)))
    bad, sigs = 0, set()
    for gi, ch in pairs:
        case, exp = groups[gi]
        run = {"chunks": ch, "v": variant(case, rng, ch)}
        obs, got = run_dask(case, run)
        cl = judge(case, exp, obs, got)
        if cl:
            bad += 1
            sigs.add(classify(case, cl, run))
    for case, exp in emc:
        o = call_emc(case["size"], case["chunks"])
        total, size = sum(case["chunks"]), case["size"]
        ok = (o["raised"] and total < size) or (not o["raised"] and sum(o["out"]) == total and len(o["out"]) >= 1
                                                 and all(c >= size for c in o["out"]))
        if total < size and not o["raised"]:
            ok = sum(o["out"]) == total
        if not ok:
            bad += 1
            sigs.add(classify(case, "Contract", {}))
    return bad, sigs


def _border_replay(groups, always):
    """The border stratum (chunkings without zero-width blocks), serially.  -> (#violations, {signature})"""
    import random
    rng = random.Random(9)
    bad, sigs = 0, set()
    for gi, ch in always:
        if any(0 in ax for ax in ch):
            continue
        case, exp = groups[gi]
        run = {"chunks": ch, "v": variant(case, rng, ch)}
        obs, got = run_dask(case, run)
        cl = judge(case, exp, obs, got)
        if cl:
            bad += 1
            sigs.add(classify(case, cl, run))
    return bad, sigs


def selftest(ctx):
    import copy
    import importlib
    from ..srcmut import mutant
    ovm = importlib.import_module("dask.array.overlap")
    lay = importlib.import_module("dask.layers")
    ok = True
    cases = read_cases(ctx, enumerate_cases(ctx, ["overlap", "trim", "map", "swv", "emc"], 5, "{<<2, 3>>}", 6, "selftest", zeron=0,
                                            invariants=[i for i in INVS if i != "BlocksEqualWhole"]))
    groups, chunkings, emc = group_cases(cases)
    base_n, sigs = _selftest_replay(groups, chunkings, emc)
    print("selftest C26: unmutated dask on the self-test case set (%d groups): %d violations %s -> %s"
          % (len(groups), base_n, sorted(sigs), "ok" if base_n == 0 else "FAILED"))
    ok &= base_n == 0
    # the border stratum: chunkings around a block shorter than the depth, depth 3, extents 6 .. 9
    bcases = read_cases(ctx, enumerate_cases(ctx, ["map"], 9, "{}", 6, "selftest-border", zeron=0, lo1=6, cfgmode="border", border=9,
                                             invariants=["CellCount", "MapReadsCentre", "BorderCovers"]))
    bgroups, _c, _e = group_cases(bcases)
    balways, _r = border_stratum(bgroups, {3: group_cases.border[3]}, 0, False)
    bn0, bsigs = _border_replay(bgroups, balways)
    print("selftest C26: unmutated dask on the border stratum (%d runs): %d violations %s -> %s"
          % (len(balways), bn0, sorted(bsigs), "ok" if bn0 == 0 else "FAILED"))
    ok &= bn0 == 0
    with mutant(ovm, "ensure_minimum_chunksize", "if new > size + (size - c):", "if new > size:"):
        # only the contract-free part of the check: map_overlap itself must notice the short lending chunk
        bn1, bsigs = _border_replay(bgroups, balways)
    print("selftest C26: mutant M0 overlap.ensure_minimum_chunksize: borrow when new > size + (size - c) -> new > size  "
          "[the lending chunk gets shorter than the depth], border stratum only: %d violations %s -> %s"
          % (bn1, sorted(bsigs)[:3], "DETECTED" if bn1 > 0 else "MISSED"))
    ok &= bn1 > 0
    mutants = [
        ("M1 overlap._trim: last block test `chunks - 1` -> `chunks`  [boundary off by one: the last block loses its tail]",
         ovm, "_trim", 'chunk_location == chunks - 1 and boundary.get(i, "none") == "none"',
         'chunk_location == chunks and boundary.get(i, "none") == "none"'),
        ("M2 overlap._overlap_internal_chunks: first block grows by right_depth -> left_depth  [wrong operand, asymmetric only]",
         ovm, "_overlap_internal_chunks", "left = [bds[0] + right_depth]", "left = [bds[0] + left_depth]"),
        ("M3 overlap.reflect: left halo x[depth-1::-1] -> x[depth:0:-1]  [edge cell not repeated]",
         ovm, "reflect", "slice(depth - 1, None, -1)", "slice(depth, 0, -1)"),
        ("M4 layers.fractional_slice: head of the next block slice(0, right_depth) -> slice(0, left_depth)  [wrong operand]",
         lay, "fractional_slice", "index.append(slice(0, right_depth))", "index.append(slice(0, left_depth))"),
        ("M5 overlap.ensure_minimum_chunksize: `if c >= size: new += c` -> `c > size`  [a chunk of exactly `size` is dropped]",
         ovm, "ensure_minimum_chunksize", "        if c >= size:\n            new += c", "        if c > size:\n            new += c"),
        ("M6 overlap.sliding_window_view: depths[ax] += window - 1 -> =  [repeated axes no longer accumulate]",
         ovm, "sliding_window_view", "depths[ax] += window - 1", "depths[ax] = window - 1"),
        ("M7 overlap.overlap: halo trim of the padded array v * 2 -> v  [dropped factor]",
         ovm, "overlap", "k: v * 2 if", "k: v if"),
    ]
    for title, mod, fn, old, new in mutants:
        with mutant(mod, fn, old, new):
            try:
                n, sigs = _selftest_replay(groups, chunkings, emc)
            except Exception as ex:  # noqa: BLE001
                n, sigs = 0, {"harness exception %r" % ex}
        print("selftest C26: mutant %s: %d violations %s -> %s" % (title, n, sorted(sigs)[:3], "DETECTED" if n > 0 else "MISSED"))
        ok &= n > 0
    # (ii) corrupted recorded fields are rejected by the trace specification
    good = []
    for item in random_runs(ctx, 80):
        r = _record(item)
        if "skip" not in r and r["obs"]["raised"] == "" and len(r["obs"]["cells"]) > 2 and r["c"]["fam"] != "swv" \
                and depth_fits(r["c"]["shape"], r["c"]["depth"]) and not any(0 in ax for ax in r["run"]["chunks"]):
            good.append(r)
        if len(good) == 3:
            break
    e0 = {"id": "emc_ok", "c": {"fam": "emc", "size": 3, "chunks": [1, 1, 3, 1]}, "run": {"chunks": [[1, 1, 3, 1]]},
          "obs": {k: call_emc(3, [1, 1, 3, 1])[k] for k in ("raised", "out")}}
    good.append(e0)
    c1 = copy.deepcopy(good[0]); c1["id"] = "c_cells"
    c1["obs"]["cells"][0], c1["obs"]["cells"][-1] = c1["obs"]["cells"][-1], c1["obs"]["cells"][0]
    if c1["obs"]["cells"] == good[0]["obs"]["cells"]:
        c1["obs"]["cells"] = c1["obs"]["cells"][1:] + c1["obs"]["cells"][:1]
    c2 = copy.deepcopy(good[1]); c2["id"] = "c_shape"; c2["obs"]["cshape"] = c2["obs"]["cshape"] + [1]
    c3 = copy.deepcopy(good[2]); c3["id"] = "c_chunks"; c3["obs"]["chunks"][0] = c3["obs"]["chunks"][0] + [1]
    c4 = copy.deepcopy(e0); c4["id"] = "c_emc"; c4["obs"]["out"] = [2, 4]
    bads = [c1, c2, c3, c4]
    rej = validate(ctx, good + bads, "selftest", report=False)
    for r in good:
        print("selftest C26: uncorrupted record %s (%s) -> %s" % (r["id"], r["c"]["fam"], "accepted" if r["id"] not in rej else "rejected  FAILED"))
        ok &= r["id"] not in rej
    for r in bads:
        print("selftest C26: corrupted record %s (%s) -> %s" % (r["id"], r["c"]["fam"],
                                                               ("rejected (%s)" % rej[r["id"]]) if r["id"] in rej else "accepted  FAILED"))
        ok &= r["id"] in rej
    print("selftest C26: %s" % ("all binding checks hold" if ok else "FAILED"))
    return 0 if ok else 1
