"""C37 - DataFrame reductions and aggregations equal pandas for every partitioning and split_every.

spec -> code: TLC enumerates (specs/frame/FrameReductionsMC.tla) every (frame fill, operation, parameters,
target, axis in {0, 1, None}) of the bounded space together with the result the TLA+ reference semantics
(specs/frame/FrameReductions.tla, exact rationals from specs/common/Rational.tla) demands, and ALL row
partitionings of the fill's row count into <= MaxParts consecutive partitions (empty partitions allowed); the
design check proves on every one of those partitionings that the reference decomposes the way a
chunk -> combine -> aggregate implementation needs.  Every (case, partitioning) pair - quick: a seeded sample -
is run on a real dask collection built with EXACTLY those partitions (harness.frames.from_parts) or with
from_pandas, with split_every in {2, 3, False, None} (value_counts: split_out in {default, 1, 2} as well).
code -> spec: seeded random calls on larger frames are recorded and TLC decides every record
(FrameReductionsTrace.tla).  pandas is only the reference *guard*: a disagreement between the TLA+ reference
and pandas is a machinery error, never a violation.

Floats: dask's float results are converted with fractions.Fraction and replaced by the rational with a small
denominator next to them when they are within 2^-40 * n * max(1, |x|) of it (n = number of rows; std and sem
are squared first, corr is squared with its sign kept) - equality of exact rationals then decides - and flagged `close = false` otherwise."""
from __future__ import annotations

import math
import warnings
from fractions import Fraction

from ..core import TLA, MachineryError
from ..frameobs import CallTimeout, time_limit
from ..frames import dd, from_parts, is_shim_error, split_rows
from ..par import pmap
from .. import tlc as T

META = {
    "title": "DataFrame reductions and aggregations equal pandas",
    "design_ref": "DESIGN.md §4.4 C37",
    "technique": "TLA+ reference semantics of pandas reductions over frames (lanes = columns / rows, exact rationals); TLC "
                 "enumerates operations x parameters x targets x axes over seeded frame fills and all row partitionings, and "
                 "checks that the reference decomposes over every partitioning; replay into dask + TLC validation of recorded calls",
    "level_text": "Small-scope: for seeded fills of frames with <= 6 rows x <= 3 numeric columns over {0,1,2,NA} (int and float "
                  "columns, all-NA columns, duplicate / unsorted index labels, an optional non-numeric column for numeric_only), "
                  "TLC computes sum prod min max count any all (skipna, min_count), mean var std sem (ddof), idxmin idxmax, "
                  "nunique, value_counts (dropna, normalize, sort/ascending), mode, nlargest nsmallest, cov corr, the exact rows of "
                  "describe (count mean std min max) and len for the frame "
                  "(axis 0, 1 and - where pandas accepts it - None) and its first column; dask is replayed on all row partitionings with <= 4 parts (empty "
                  "partitions included; quick: a seeded sample of (case, partitioning) pairs) x split_every in {2,3,False,None}, "
                  "built with from_delayed or from_pandas. Random larger frames are decided by TLC from recorded calls.",
    "level_note": "Trusted: TLC, the TLA+ reference (cross-checked against pandas on every case; a disagreement is a machinery "
                  "error, not a violation), harness.frames.from_parts, the projection of results (kind, index, values), Fraction "
                  "conversion of floats with tolerance 2^-40*n*max(1,|x|). Fills are seeded samples (not all 4^n fills). Result "
                  "dtypes are not compared (C42). The percentile rows of describe, quantiles, nullable extension dtypes, "
                  "min_periods of cov/corr and multi-column nlargest are outside this check.",
}

NA = 99
UNKNOWN = -1
RAT_FAMS = {"rat"}
SQUARED = {"std", "sem"}
SE_VARIANTS = [2, 3, False, None]


# ----------------------------------------------------------------------------- case -> pandas
def pandas_frame(case, with_rid=False):
    import numpy as np
    import pandas as pd
    rows, cols = case["rows"], case["cols"]
    data = {}
    if with_rid:
        data["rid"] = np.array([r["rid"] for r in rows], dtype="i8")
    for c, kind in zip(cols, case["kinds"]):
        cells = [r[c] for r in rows]
        if kind == "f" or NA in cells:
            data[c] = np.array([np.nan if v == NA else float(v) for v in cells], dtype="f8")
        else:
            data[c] = np.array(cells, dtype="i8")
    if case["scol"]:
        data["s"] = np.array(["xyz"[i % 3] for i in range(len(rows))], dtype=object)
    return pd.DataFrame(data, index=pd.Index([r["idx"] for r in rows], dtype="i8"))


def needs_rid(case):
    return case["fam"] == "top" and case["tgt"] == "frame"


def apply_op(x, case, variant, is_dask):
    """The call under test (x = dask collection) or the pandas reference call (x = pandas frame)."""
    fam, op, p = case["fam"], case["op"], case["p"]
    frame = case["tgt"] == "frame"
    tgt = x if frame else x[case["cols"][0]]
    kw = {}
    if is_dask and fam != "len":
        kw["split_every"] = variant["se"]
    if fam in ("fold", "rat", "idx"):
        if op != "count":
            kw["skipna"] = case["sk"]
        if frame:
            kw["axis"] = None if case["ax"] == 2 else case["ax"]
        if case["scol"]:
            kw["numeric_only"] = True
        if op in ("sum", "prod"):
            kw["min_count"] = p
        if op in ("var", "std", "sem"):
            kw["ddof"] = p
        return getattr(tgt, op)(**kw)
    if fam == "nuniq":
        if frame:
            kw["axis"] = case["ax"]
        return tgt.nunique(dropna=case["sk"], **kw)
    if fam == "vc":
        if p in (0, 1):
            kw.update(sort=True, ascending=(p == 1))
        if is_dask and variant.get("so", "default") != "default":
            kw["split_out"] = variant["so"]
        return tgt.value_counts(dropna=case["sk"], normalize=case["fl"], **kw)
    if fam == "mode":
        if frame and case["scol"]:
            kw["numeric_only"] = True
        return tgt.mode(dropna=case["sk"], **kw)
    if fam == "top":
        if frame:
            kw["columns"] = case["cols"][0]
        return getattr(tgt, op)(p, **kw)
    if fam == "len":
        return len(tgt)
    if fam == "cov":
        if frame:
            return getattr(tgt, op)(**kw)
        return getattr(tgt, op)(x[case["cols"][1]], **kw)
    if fam == "desc":
        return tgt.describe(**kw)
    raise MachineryError("unknown family %r" % fam)


# ----------------------------------------------------------------------------- projection of a result
def _plain(v):
    if v is None:
        return None
    if hasattr(v, "item") and not isinstance(v, (str, bytes)):
        try:
            v = v.item()
        except Exception:  # noqa: BLE001
            pass
    try:
        import pandas as pd
        if v is pd.NA or v is pd.NaT:
            return None
    except Exception:  # noqa: BLE001
        pass
    if isinstance(v, float) and math.isnan(v):
        return None
    return v


def val_int(v):
    """-> (int or NA, wellformed)"""
    v = _plain(v)
    if v is None:
        return NA, True
    if isinstance(v, bool):
        return int(v), True
    if isinstance(v, int):
        return (v, True) if abs(v) < 2 ** 30 else (0, False)
    if isinstance(v, float) and not math.isinf(v) and v == int(v) and abs(v) < 2 ** 30:
        return int(v), True
    return 0, False


def tolerance(nrows, e):
    return Fraction(max(1, nrows), 2 ** 40) * max(1, abs(e))


def val_rat(v, nrows, squared, signed=False):
    """-> ([num, den], close); squared: the square is logged (signed: with the sign of the value kept)"""
    v = _plain(v)
    if v is None:
        return [0, 0], True
    if isinstance(v, bool) or not isinstance(v, (int, float)) or (isinstance(v, float) and math.isinf(v)):
        return [0, 1], False
    fr = Fraction(v)
    if signed:
        fr = fr * fr * (-1 if fr < 0 else 1)
        squared = True
    elif squared:
        if fr < 0:
            return [0, 1], False
        fr = fr * fr
    small = fr.limit_denominator(1 << 20)
    close = abs(fr - small) <= tolerance(nrows, small) * (4 if squared else 1) and abs(small.numerator) < 2 ** 30
    if not close:
        return [0, 1], False
    return [small.numerator, small.denominator], True


def label_int(v):
    v = _plain(v)
    if v is None:
        return NA
    try:
        if not isinstance(v, str) and float(v) == int(v):
            return int(v)
    except (TypeError, ValueError, OverflowError):
        pass
    return UNKNOWN


def project(case, res):
    """Result of pandas / dask -> {k, ix, v, close, ord} in the vocabulary of FrameReductions.tla."""
    import pandas as pd
    fam, op = case["fam"], case["op"]
    nrows = len(case["rows"])
    cols = list(case["cols"])
    colpos = {c: i for i, c in enumerate(cols)}
    ratv = fam in ("rat", "cov", "desc") or (fam == "vc" and case["fl"])
    sq = op in SQUARED
    close = True

    def value(v, squared=None):
        nonlocal close
        if ratv:
            r, ok = val_rat(v, nrows, sq if squared is None else squared, signed=(op == "corr"))
        elif fam == "idx" and case["ax"] == 1 and case["tgt"] == "frame":
            r, ok = colpos.get(_plain(v), UNKNOWN), True
        else:
            r, ok = val_int(v)
        close = close and ok
        return r

    obs = {"raised": "", "k": "other", "ix": [], "v": [], "close": True, "ord": []}
    DESC = ["count", "mean", "std", "min", "max"]
    if isinstance(res, pd.DataFrame):
        if fam == "cov":
            obs["k"] = "matrix"
            obs["ix"] = [colpos.get(c, UNKNOWN) for c in res.columns]
            if [colpos.get(c, UNKNOWN) for c in res.index] != obs["ix"]:
                obs["ix"] = [UNKNOWN]
            obs["v"] = [value(v) for row in res.itertuples(index=False, name=None) for v in row]
        elif fam == "desc" and all(lab in res.index for lab in DESC):
            obs["k"] = "table"
            obs["ix"] = [colpos.get(c, UNKNOWN) for c in res.columns]
            obs["v"] = [value(v, squared=(lab == "std")) for lab in DESC for v in res.loc[lab].tolist()]
        elif fam == "mode":
            obs["k"] = "table"
            obs["ix"] = [colpos.get(c, UNKNOWN) for c in res.columns]
            obs["v"] = [value(v) for row in res.itertuples(index=False, name=None) for v in row]
        elif fam == "top" and "rid" in res.columns:
            obs["k"] = "rids"
            obs["ix"] = [label_int(v) for v in res.index.tolist()]
            obs["v"] = [value(v) for v in res["rid"].tolist()]
    elif isinstance(res, pd.Series):
        items = list(zip(res.index.tolist(), res.tolist()))
        if fam == "vc":
            pairs = [(label_int(k), value(v)) for k, v in items]
            obs["k"] = "vc"
            if ratv:
                den = 1
                for _k, v in pairs:
                    den = den * v[1] // math.gcd(den, v[1]) if v[1] else den
                obs["ord"] = [v[0] * (den // v[1]) if v[1] else 0 for _k, v in pairs]
            else:
                obs["ord"] = [v for _k, v in pairs]
            pairs.sort(key=lambda kv: kv[0])
            obs["ix"] = [k for k, _v in pairs]
            obs["v"] = [v for _k, v in pairs]
        elif fam == "mode":
            obs["k"] = "list"
            obs["v"] = [value(v) for _k, v in items]
        elif fam == "desc" and all(lab in res.index for lab in DESC):
            obs["k"] = "list"
            obs["v"] = [value(res[lab], squared=(lab == "std")) for lab in DESC]
        elif fam in ("fold", "rat", "idx", "nuniq") and case["tgt"] == "frame" and case["ax"] == 0:
            obs["k"] = "cols"
            obs["ix"] = [colpos.get(k, UNKNOWN) for k, _v in items]
            obs["v"] = [value(v) for _k, v in items]
        else:
            obs["k"] = "rows"
            obs["ix"] = [label_int(k) for k, _v in items]
            obs["v"] = [value(v) for _k, v in items]
    elif not hasattr(res, "__len__") or isinstance(res, str):
        obs["k"] = "scalar"
        obs["v"] = [value(res)]
    obs["close"] = bool(close)
    return obs


# ----------------------------------------------------------------------------- verdicts (mirror of FrameReductions!Verdict)
def vc_order_ok(counts, ascending):
    return all((a <= b) if ascending else (a >= b) for a, b in zip(counts, counts[1:]))


def as_lists(x):
    return [as_lists(y) for y in x] if isinstance(x, (list, tuple)) else x


def judge(case, exp, obs):
    if "skip" in obs:
        return None
    if exp["err"]:
        return None if obs["raised"] else "ErrorExpected"       # pandas has no result; any exception is accepted
    if obs["raised"]:
        return "UnexpectedRaise"
    if obs["k"] != exp["k"]:
        return "Kind"
    if obs["ix"] != as_lists(exp["ix"]):
        return "Index"
    if not obs["close"] or obs["v"] != as_lists(exp["v"]):
        return "Content"
    if case["fam"] == "vc" and case["p"] in (0, 1) and not vc_order_ok(obs["ord"], case["p"] == 1):
        return "Order"
    return None


def guard(case, exp):
    """Compare the TLA+ expected result with pandas.  Returns None or a description of the disagreement."""
    try:
        with warnings.catch_warnings():
            warnings.simplefilter("ignore")
            r = apply_op(pandas_frame(case, needs_rid(case)), case, None, False)
    except Exception as ex:  # noqa: BLE001
        return None if exp["err"] else "pandas raises %s: %s, spec has %r" % (type(ex).__name__, ex, exp)
    if exp["err"]:
        return "spec says pandas raises, pandas returns %r" % (r,)
    obs = project(case, r)
    cl = judge(case, exp, obs)
    return None if cl is None else "%s: pandas %r spec %r" % (cl, obs, exp)


# ----------------------------------------------------------------------------- dask
def build(case, layout, src):
    pdf = pandas_frame(case, needs_rid(case))
    if src == "pandas":
        return dd().from_pandas(pdf, npartitions=max(1, len(layout)), sort=False)
    return from_parts(split_rows(pdf, layout))


def run_dask(case, layout, variant):
    """Apply the case to a real dask collection with exactly the given partitioning; returns the observation."""
    try:
        with warnings.catch_warnings():
            warnings.simplefilter("ignore")
            with time_limit(30):
                x = build(case, layout, variant["src"])
                actual = list(layout)
                if variant["src"] == "pandas":          # from_pandas chooses its own partitioning: the one that was really used
                    actual = [int(k) for k in x.map_partitions(len).compute(scheduler="sync")]
                try:
                    y = apply_op(x, case, variant, True)
                    if hasattr(y, "compute"):
                        y = y.compute(scheduler="sync")
                except NotImplementedError:
                    raise
                except Exception as ex:  # noqa: BLE001 - an exception of the operation is an observation
                    if is_shim_error(ex) or isinstance(ex, CallTimeout):
                        raise
                    if isinstance(ex, ValueError) and "axis=None not supported" in str(ex):
                        raise NotImplementedError("documented refusal: " + str(ex)[:40])       # var(axis=None): explicit, like NotImplementedError
                    return {"raised": type(ex).__name__, "msg": str(ex)[:160], "k": "", "ix": [], "v": [], "close": True, "ord": [],
                            "layout": actual}
        obs = project(case, y)
        obs["layout"] = actual
        return obs
    except NotImplementedError as ex:
        return {"skip": "NotImplementedError: " + str(ex)[:60]}
    except CallTimeout as ex:
        return {"raised": "CallTimeout", "msg": str(ex)[:100], "k": "", "ix": [], "v": [], "close": True, "ord": []}
    except Exception as ex:  # noqa: BLE001 - every other exception is an observation
        if is_shim_error(ex):
            return {"skip": "pyarrow shim"}
        return {"raised": type(ex).__name__, "msg": str(ex)[:160], "k": "", "ix": [], "v": [], "close": True, "ord": []}


def lanes_of(case):
    """The lanes (cell sequences along axis 0) the operation looks at."""
    cols = case["cols"] if case["tgt"] == "frame" and case["fam"] not in ("vc", "top") else case["cols"][:2 if case["fam"] == "cov" else 1]
    return [[r[c] for r in case["rows"]] for c in cols]


def layout_features(case, layout):
    """Structural features of (case, partitioning): empty partitions, partitions in which a reduced column has
    no valid cell, a partition that holds a NA."""
    n = len(case["rows"])
    feats = set()
    if n == 0:
        feats.add("empty-frame")
    elif 0 in layout:
        feats.add("empty-partition")
    pos = 0
    for k in layout:
        for lane in lanes_of(case):
            part = lane[pos:pos + k]
            if k and all(v == NA for v in part):
                feats.add("allna-partition")
        pos += k
    if any(all(v == NA for v in lane) for lane in lanes_of(case)) and n:
        feats.add("allna-column")
    return feats


def classify(case, layout, clause, variant):
    """Signature of a violation: the call site (family / operation class, axis, skipna), the failing clause and the
    structural class of the partitioning - never concrete numbers.  The input classes behind recorded known
    findings come first (one root cause each, whatever split_every it surfaces under)."""
    fam, op = case["fam"], case["op"]
    feats = layout_features(case, layout)
    ax1 = case["tgt"] == "frame" and case["ax"] == 1
    site = {"idxmin": "idx", "idxmax": "idx", "min": "minmax", "max": "minmax", "sum": "sumprod", "prod": "sumprod",
            "var": "var", "std": "var", "sem": "var", "nlargest": "top", "nsmallest": "top"}.get(op, op)
    if case["tgt"] == "frame" and case["ax"] == 2:
        if op == "mean" and not case["sk"] and clause == "Content":
            return "axisNone:mean:skipna=False:ignored"
        if op in ("sum", "prod") and case["p"] and clause == "UnexpectedRaise":
            return "axisNone:sum-prod:min_count:raises"
        if op in ("std", "sem") and clause == "Kind":
            return "axisNone:std-sem:treated-as-axis0"
        if op in ("any", "all") and clause == "Kind":
            return "axisNone:any-all:treated-as-axis0"
    if fam == "idx" and not ax1 and clause == "UnexpectedRaise" and case["sk"] and "allna-partition" in feats:
        return "idx:axis0:allna-partition:raises"
    if fam == "rat" and site == "var" and not ax1 and clause == "Content" and case["p"] >= 2:
        counts = [len([v for v in lane if v != NA]) for lane in lanes_of(case) if case["sk"] or NA not in lane]
        if case["p"] in counts:
            return "var:axis0:count==ddof"
    if fam == "fold" and site == "minmax" and not ax1 and not case["sk"] and clause == "Content" and "empty-partition" in feats:
        return "minmax:axis0:skipna=False:empty-partition"
    parts = [fam, site, "axis1" if ax1 else "axisNone" if (case["tgt"] == "frame" and case["ax"] == 2) else case["tgt"], clause]
    if fam in ("fold", "rat", "idx"):
        parts.append("skipna=%s" % case["sk"])
    elif fam in ("nuniq", "vc", "mode"):
        parts.append("dropna=%s" % case["sk"])
    if fam == "vc":
        parts.append("normalize" if case["fl"] else "counts")
        parts.append("split_out=%s" % variant.get("so", "default"))
    if op in ("sum", "prod") and case["p"]:
        parts.append("min_count")
    if case["scol"]:
        parts.append("numeric_only")
    parts.append("+".join(sorted(feats)) or "plain")
    return ":".join(parts)


def _guard_one(c):
    return guard(c["c"], c["e"])


def guard_all(cases):
    """Reference guard over EVERY enumerated case (not only the replayed sample): the TLA+ reference and pandas must agree
    before anything is judged; a disagreement is a machinery error whatever the seed-dependent sample holds."""
    for c, g in zip(cases, pmap(_guard_one, cases, chunk=64)):
        if g is not None:
            raise MachineryError("TLA+ reference disagrees with pandas on %r: %s" % (c["c"], g))


def _work(item):
    case, exp, layout, variants = item
    g = guard(case, exp)
    if g is not None:
        return [("GUARD", None, g)]
    res = []
    for v in variants:
        obs = run_dask(case, layout, v)
        if "skip" in obs:
            res.append(("SKIP", v, obs["skip"]))
            continue
        cl = judge(case, exp, obs)
        res.append((cl, v, obs if cl else None))
    return res


# ----------------------------------------------------------------------------- fills / TLC constants
COLS = ["a", "b", "c"]


def gen_fill(rng, n, ncols, na_p=0.25, special=None, scol=False):
    """A frame fill: cells over {0,1,2,NA}; index labels over 0..3 (duplicates, unsorted)."""
    cols = COLS[:ncols]
    cells = {c: [NA if rng.random() < na_p else rng.choice([0, 1, 2]) for _ in range(n)] for c in cols}
    if special == "allna" and n:
        cells[cols[-1]] = [NA] * n
    if special == "nona":
        cells = {c: [rng.choice([0, 1, 2]) for _ in range(n)] for c in cols}
    if special == "uneven" and n >= 2:                   # columns with different numbers of valid cells: first some NA, last all-NA
        for c in cols:                                   # (>= 3 columns), one NA-free
            cells[c] = [rng.choice([0, 1, 2]) for _ in range(n)]
        k = rng.randint(1, n - 1)
        for i in rng.sample(range(n), k):
            cells[cols[0]][i] = NA
        if ncols >= 3:
            cells[cols[-1]] = [NA] * n
    if special == "nablock" and n >= 2:                  # a run of NA at the start of the first column
        k = rng.randint(1, n - 1)
        cells[cols[0]][:k] = [NA] * k
        cells[cols[0]][k] = rng.choice([0, 1, 2])
    idx = [rng.choice([0, 1, 2, 3]) for _ in range(n)]
    if rng.random() < 0.3:
        idx = list(range(n))
    kinds = ["f" if NA in cells[c] or rng.random() < 0.5 else "i" for c in cols]
    rows = [dict({"rid": i, "idx": idx[i]}, **{c: cells[c][i] for c in cols}) for i in range(n)]
    return {"cols": cols, "kinds": kinds, "rows": rows, "scol": bool(scol)}


def make_fills(ctx):
    rng = ctx.rng
    plan = []
    if ctx.quick:
        plan += [(0, 2, None, False), (1, 1, None, False), (2, 2, None, False), (3, 1, None, False), (3, 3, "nablock", False),
                 (4, 2, None, False), (4, 3, "allna", False), (5, 1, "nablock", False), (5, 2, "nona", False),
                 (5, 3, None, True), (6, 1, None, False), (6, 2, "nablock", False), (6, 3, None, False), (4, 2, None, True),
                 (4, 3, "uneven", False), (5, 2, "uneven", False), (6, 3, "uneven", False)]
    else:
        for n in range(0, 7):
            for nc in (1, 2, 3):
                plan.append((n, nc, None, False))
                if n >= 2:
                    plan.append((n, nc, "nablock", False))
                if n >= 3:
                    plan.append((n, nc, rng.choice(["allna", "nona"]), rng.random() < 0.5))
        plan += [(6, 3, None, True), (5, 2, None, True), (6, 2, "nablock", False), (6, 1, None, False)]
        plan += [(n, nc, "uneven", False) for n in (2, 3, 4, 5, 6) for nc in (2, 3)]
    fills, seen = [], set()
    for n, nc, special, scol in plan:
        f = gen_fill(rng, n, nc, special=special, scol=scol)
        key = T.tla_value(f)
        if key not in seen:
            seen.add(key)
            fills.append(f)
    return fills


INVARIANTS = ["ShapeOK", "GrandFold", "CovSane", "CovDecomposes", "DescribeAgrees", "FoldDecomposes", "MeanDecomposes", "VarDecomposes", "IdxDecomposes", "IdxRaisesIff", "VCDecomposes",
              "VCNormalized", "TopDecomposes", "CountPlusNA", "MeanWithin", "VarNonNeg", "SemIsVarOverN", "RowwiseOfOneColumn"]


def enumerate_cases(ctx, fills, label="design+cases", maxparts=4, designparts=4, mincounts="{0, 2}", ddofs="{0, 1}", ns="{1, 2, 3, 7}"):
    consts = {"Fills": TLA("{" + ", ".join(T.tla_value(f) for f in fills) + "}"), "MaxParts": maxparts, "DesignParts": designparts,
              "MinCounts": TLA(mincounts), "Ddofs": TLA(ddofs), "Ns": TLA(ns)}
    spec, cfg = ctx.model(ctx.spec("frame", "FrameReductionsMC.tla"), consts, invariants=INVARIANTS)
    out, r = ctx.tlc_cases(spec, cfg, label=label, timeout=3000)
    layouts, cases = {}, []
    for c in out:
        if not c:
            continue
        if c["c"]["fam"] == "layouts":
            layouts[c["c"]["n"]] = sorted(list(x) for x in c["e"])
        else:
            cases.append(c)
    return cases, layouts, r


def variants_of(case, rng, thorough, k=2):
    """split_every x source (x split_out for value_counts)."""
    ses = list(SE_VARIANTS) if thorough else rng.sample(SE_VARIANTS, k)
    out = []
    for se in ses:
        v = {"se": se, "src": "pandas" if rng.random() < 0.2 else "parts"}
        if case["fam"] == "vc":
            v["so"] = rng.choice(["default", 1, 2])
        out.append(v)
    return out


def replay_cases(ctx, items, on_violation=None):
    """Run (case, exp, layout, variants) items through dask; feed counts / violations into ctx.  Returns #violations."""
    nviol = 0
    results = pmap(_work, items, chunk=24)
    for (case, exp, layout, _v), res in zip(items, results):
        for cl, variant, detail in res:
            if cl == "GUARD":
                raise MachineryError("TLA+ reference disagrees with pandas on %r: %s" % (case, detail))
            if cl == "SKIP":
                ctx.skip(detail)
                continue
            nontrivial = len(case["rows"]) >= 2 and len(layout) >= 2 and not exp["err"]
            ctx.count((case, layout, variant), nontrivial)
            if cl:
                nviol += 1
                layout = (detail or {}).get("layout", layout)        # the partitioning really used (from_pandas picks its own)
                sig = classify(case, layout, cl, variant)
                if on_violation:
                    on_violation(sig, cl, case, layout, variant)
                else:
                    ctx.violation(sig, "%s: dask disagrees with the reference on %s(%s) [%s]"
                                  % (cl, case["fam"], case["op"], (detail or {}).get("msg", "") or "value differs"),
                                  {"case": case, "layout": layout, "expected": exp, "variant": variant, "observed": detail})
    return nviol


# ----------------------------------------------------------------------------- code -> spec
def random_layout(rng, n, maxparts=6):
    m = rng.randint(1, maxparts)
    cuts = sorted(rng.randint(0, n) for _ in range(m - 1))
    pts = [0] + cuts + [n]
    return [b - a for a, b in zip(pts, pts[1:])]


def random_case(rng):
    n = rng.randint(5, 14)
    nc = rng.randint(1, 3)
    f = gen_fill(rng, n, nc, na_p=rng.choice([0.1, 0.3, 0.6]), special=rng.choice([None, None, "nablock", "nona", "allna"]),
                 scol=rng.random() < 0.15)
    for r in f["rows"]:                 # wider value range than the enumerated fills
        for c in f["cols"]:
            if r[c] != NA and rng.random() < 0.3:
                r[c] = 3
        r["idx"] = rng.randint(0, 5)
    fam = rng.choice(["fold"] * 5 + ["rat"] * 4 + ["idx"] * 3 + ["nuniq", "vc", "vc", "mode", "top", "top", "len", "cov", "cov", "desc"])
    scol = f["scol"]
    tgts = [("frame", 0), ("frame", 1)] + ([] if scol else [("series", 0)])
    case = dict(f, fam=fam, op=fam, tgt="frame", ax=0, sk=True, fl=False, p=0)
    if fam == "fold":
        op = rng.choice(["sum", "prod", "min", "max", "count"] + ([] if scol else ["any", "all"]))
        tgt, ax = rng.choice(tgts + ([("frame", 2)] if op != "count" else []))
        case.update(op=op, tgt=tgt, ax=ax, sk=(op == "count" or rng.random() < 0.6), p=rng.choice([0, 0, 1, 3]) if op in ("sum", "prod") else 0)
        if op == "prod":                # keep products small
            for r in case["rows"]:
                for c in case["cols"]:
                    if r[c] == 3 or (r[c] == 2 and rng.random() < 0.5):
                        r[c] = 1
    elif fam == "rat":
        op = rng.choice(["mean", "var", "std", "sem"])
        tgt, ax = rng.choice(tgts + [("frame", 2)])
        case.update(op=op, tgt=tgt, ax=ax, sk=rng.random() < 0.7, p=0 if op == "mean" else rng.choice([0, 1, 1, 2]))
    elif fam == "idx":
        tgt, ax = rng.choice(tgts)
        case.update(op=rng.choice(["idxmin", "idxmax"]), tgt=tgt, ax=ax, sk=rng.random() < 0.8)
    elif fam == "nuniq":
        case["scol"] = False
        tgt, ax = rng.choice([("frame", 0), ("frame", 1), ("series", 0)])
        case.update(op="nunique", tgt=tgt, ax=ax, sk=rng.random() < 0.5)
    elif fam == "vc":
        case["scol"] = False
        case.update(op="value_counts", tgt="series", sk=rng.random() < 0.5, fl=rng.random() < 0.4, p=rng.choice([0, 1, 2]))
    elif fam == "mode":
        case.update(op="mode", tgt=rng.choice(["frame"] if scol else ["frame", "series"]), sk=rng.random() < 0.5)
    elif fam == "top":
        case["scol"] = False
        case.update(op=rng.choice(["nlargest", "nsmallest"]), tgt=rng.choice(["frame", "series"]), p=rng.choice([1, 2, 3, 5, 20]))
    elif fam == "cov":
        case["scol"] = False
        case.update(op=rng.choice(["cov", "corr"]), tgt=rng.choice(["frame", "series"] if nc >= 2 else ["frame"]))
    elif fam == "desc":
        case["scol"] = False
        case.update(op="describe", tgt=rng.choice(["frame", "series"]))
    else:
        case.update(op="len", tgt=rng.choice(["frame"] if scol else ["frame", "series"]))
    case["layout"] = random_layout(rng, n)
    v = {"se": rng.choice(SE_VARIANTS), "src": "pandas" if rng.random() < 0.2 else "parts"}
    if fam == "vc":
        v["so"] = rng.choice(["default", 1, 2])
    case["variant"] = v
    return case


REC_CASE_FIELDS = ("fam", "op", "tgt", "ax", "sk", "fl", "p", "cols", "rows", "scol")


def _record(item):
    i, case = item
    obs = run_dask(case, case["layout"], case["variant"])
    if "skip" in obs:
        return None
    actual = obs.get("layout", case["layout"])
    obs = {k: v for k, v in obs.items() if k not in ("msg", "layout")}
    rec = {k: case[k] for k in REC_CASE_FIELDS}
    rec.update(id="r%d" % i, obs=obs, layout=actual, asked=case["layout"], kinds=case["kinds"],
               variant={k: str(v) for k, v in case["variant"].items()})
    return rec


def case_of_record(r):
    case = {k: r[k] for k in REC_CASE_FIELDS}
    case["kinds"] = r["kinds"]
    return case


def variant_of_record(r):
    conv = {"None": None, "False": False, "True": True}
    return {k: conv.get(v, int(v) if v.lstrip("-").isdigit() else v) for k, v in r["variant"].items()}


def pandas_obs(case):
    try:
        with warnings.catch_warnings():
            warnings.simplefilter("ignore")
            r = apply_op(pandas_frame(case, needs_rid(case)), case, None, False)
    except Exception as ex:  # noqa: BLE001 - pandas raising is part of the reference behaviour
        return {"raised": type(ex).__name__, "k": "", "ix": [], "v": [], "close": True, "ord": []}
    return project(case, r)


def guard_twin(rec):
    return dict(rec, id="g" + rec["id"], obs=pandas_obs(case_of_record(rec)))


def validate_records(ctx, recs, on_violation=None):
    spec, cfg = ctx.model(ctx.spec("frame", "FrameReductionsTrace.tla"), {})
    nviol = 0
    for lo in range(0, len(recs), 4000):
        part = recs[lo:lo + 4000]
        twins = [guard_twin(r) for r in part]          # reference guard: what PANDAS returns for the same call, decided by the same run
        rej = ctx.tlc_validate(spec, part + twins, cfg, timeout=1800)
        ctx.traces -= len(twins)                       # (the twins are not traces of the implementation)
        bad = [t for t in twins if t["id"] in rej]
        if bad:
            raise MachineryError("TLA+ reference rejects what pandas returns for a recorded call: %r %s" % (bad[0], rej[bad[0]["id"]]))
        byid = {r["id"]: r for r in part}
        for r in part:
            ctx.count(("rec", {k: v for k, v in r.items() if k not in ("obs", "id")}), r["obs"]["raised"] == "" and len(r["layout"]) >= 2)
        for rid, clauses in rej.items():
            r = byid[rid]
            cl = clauses[0].strip("{}\" ").split('"')[0] or "Rejected"
            case = case_of_record(r)
            sig = classify(case, r["layout"], cl, variant_of_record(r))
            nviol += 1
            if on_violation:
                on_violation(sig, cl, case, r["layout"], r["variant"])
            else:
                ctx.violation(sig, "TLC rejects a recorded %s call (%s)" % (r["op"], clauses[0]), {"record": r, "clauses": clauses})
    return nviol


# ----------------------------------------------------------------------------- entry points
def pair_items(ctx, cases, layouts, cap, thorough, per_none=2):
    """(case, layout) pairs - all of them or a seeded sample of `cap` - with their variants."""
    counts = [len(layouts[len(c["c"]["rows"])]) for c in cases]
    total = sum(counts)
    sampled = total > cap
    picks = sorted(ctx.rng.sample(range(total), cap)) if sampled else range(total)
    items, ci, base = [], 0, 0
    for p in picks:
        while p >= base + counts[ci]:
            base += counts[ci]
            ci += 1
        c = cases[ci]
        lay = layouts[len(c["c"]["rows"])][p - base]
        items.append((c["c"], c["e"], lay, variants_of(c["c"], ctx.rng, thorough and not sampled, k=1 if sampled else 2)))
    if sampled:         # stratum: every axis=None case is replayed on `per_none` partitionings of its own, whatever the sample holds
        for c in cases:
            if c["c"]["tgt"] == "frame" and c["c"]["ax"] == 2:
                lays = layouts[len(c["c"]["rows"])]
                for lay in ctx.rng.sample(lays, min(per_none, len(lays))):
                    items.append((c["c"], c["e"], lay, variants_of(c["c"], ctx.rng, False, k=1)))
    return items, total, sampled


def run(ctx):
    dd()
    thorough = not ctx.quick
    fills = make_fills(ctx)
    cases, layouts, _ = enumerate_cases(ctx, fills, designparts=ctx.pick(3, 4), ddofs=ctx.pick("{0, 1}", "{0, 1, 2}"),
                                        mincounts=ctx.pick("{0, 2}", "{0, 1, 3}"))
    guard_all(cases)
    items, total_pairs, sampled = pair_items(ctx, cases, layouts, ctx.pick(3600, 50000), thorough, per_none=ctx.pick(2, 4))
    replay_cases(ctx, items)
    for fam in ("fold", "rat", "idx", "vc", "top"):
        for it in items:
            if it[0]["fam"] == fam and len(it[0]["rows"]) >= 3:
                ctx.sample({"case": it[0], "layout": it[2], "expected": it[1]})
                break
    # code -> spec
    nrec = ctx.pick(700, 6000)
    recs = [r for r in pmap(_record, [(i, random_case(ctx.rng)) for i in range(nrec)], chunk=24) if r is not None]
    validate_records(ctx, recs)
    ctx.exhaustive = not sampled
    ctx.rule = ("cases = TLC-enumerated (frame fill, operation, parameters, target, axis) x every row partitioning with <= 4 parts "
                "(empty partitions included) x split_every (x source from_delayed/from_pandas, x split_out for value_counts), plus "
                "recorded random calls; non-trivial = at least two rows, at least two partitions and pandas does not raise; "
                "distinct by (case, partitioning, variant)")
    ctx.extra["cases_enumerated_by_tlc"] = len(cases)
    ctx.extra["case_x_partitioning_pairs"] = total_pairs
    ctx.extra["pairs_replayed"] = len(items)
    ctx.extra["frame_fills"] = len(fills)
    ctx.assumptions = ["pandas per-partition kernels are correct", "TLC evaluates the reference semantics correctly",
                       "harness.frames.from_parts builds exactly the given partitions",
                       "frame fills are seeded samples over values 0..2 (recorded calls: 0..3) and NA; bounds as listed",
                       "float results compared within 2^-40*n*max(1,|x|) of the exact rational; dtypes not compared"]


def replay(ctx, obj):
    dd()
    c = obj["case"]
    if "record" in c:
        r = c["record"]
        case = case_of_record(r)
        case.update(layout=r.get("asked", r["layout"]), variant=variant_of_record(r))
        rec = _record((int(r["id"][1:]), case))
        spec, cfg = ctx.model(ctx.spec("frame", "FrameReductionsTrace.tla"), {})
        rej = ctx.tlc_validate(spec, [rec], cfg)
        print("observed:", rec["obs"], "rejected:", rej)
        return bool(rej)
    case, exp, layout, variant = c["case"], c["expected"], c["layout"], c["variant"]
    obs = run_dask(case, layout, variant)
    cl = judge(case, exp, obs)
    print("case:", case, "\nlayout:", layout, "variant:", variant, "\nexpected:", exp, "\nobserved:", obs, "\nclause:", cl)
    return cl is not None


# ----------------------------------------------------------------------------- selftest
def selftest(ctx):
    """Binding demonstration: in-memory mutants of the anchored dask functions must be reported on a small case
    set (and the unmutated code must not be, beyond the known findings); corrupted recorded fields must be
    rejected by the trace specification."""
    import copy
    from ..divisions import mutate, patched_attr as patched
    dd()
    import dask.dataframe.core as dcore
    import dask.dataframe.dask_expr._collection as coll
    import dask.dataframe.dask_expr._reductions as red
    import dask.dataframe.methods as methods
    rng = ctx.rng
    fills = [gen_fill(rng, 5, 2, special="nona"), gen_fill(rng, 6, 1, na_p=0.2), gen_fill(rng, 4, 3, na_p=0.2),
             gen_fill(rng, 5, 3, special="uneven")]
    for f in fills:                       # distinct values so that a wrong partition / branch shows
        for i, r in enumerate(f["rows"]):
            r["idx"] = i
    cases, layouts, _ = enumerate_cases(ctx, fills, label="selftest cases", designparts=2)
    known = set(ctx.known)

    def items_for(pred, limit=60):
        pairs = [(c, lay) for c in cases if pred(c["c"]) for lay in layouts[len(c["c"]["rows"])] if len(lay) >= 3 and 0 not in lay]
        pairs = rng.sample(pairs, min(limit, len(pairs)))
        return [(c["c"], c["e"], lay, [{"se": se, "src": "parts", "so": 1} for se in (2, False)]) for c, lay in pairs]

    def new_violations(items):
        found = []
        replay_cases(ctx, items, on_violation=lambda sig, cl, case, lay, v: found.append((sig, cl)))
        return [f for f in found if f[0] not in known]

    mutants = [
        ("TreeReduce._layer: batches built with toolz.partition (drops the incomplete last batch) instead of partition_all",
         [red.TreeReduce], "_layer", mutate(vars(red.TreeReduce)["_layer"], "toolz.partition_all(", "toolz.partition("),
         lambda c: c["fam"] in ("fold", "rat", "top") and c["ax"] == 0 and c["p"] in (0, 1, 7)),
        ("Mean._lower: mean(axis=None) = unweighted mean of the column means instead of the grand mean (sum of sums / sum of counts)",
         [red.Mean], "_lower", mutate(vars(red.Mean)["_lower"], "return s.sum() / c.sum()", "return MeanAggregate(s, c).mean()"),
         lambda c: c["fam"] == "rat" and c["op"] == "mean" and c["tgt"] == "frame" and c["ax"] == 2 and c["sk"]),
        ("idxmaxmin_chunk: the partition's candidate value is the opposite extreme (wrong operand)",
         [red.IdxMin], "reduction_chunk", mutate(dcore.idxmaxmin_chunk, '"max" if fn == "idxmax" else "min"', '"min" if fn == "idxmax" else "max"'),
         lambda c: c["fam"] == "idx" and c["ax"] == 0 and c["sk"]),
        ("Var.reduction_aggregate: ddof dropped from the divisor under skipna",
         [red.Var], "reduction_aggregate", mutate(vars(red.Var)["reduction_aggregate"], "sum=np.nansum, ddof=ddof", "sum=np.nansum, ddof=0"),
         lambda c: c["fam"] == "rat" and c["op"] in ("var", "std", "sem") and c["p"] == 1 and c["sk"] and c["ax"] == 0),
        ("_apply_min_count: boundary off by one (>= min_count -> > min_count)",
         [coll.FrameBase], "_apply_min_count", mutate(vars(coll.FrameBase)["_apply_min_count"], "self.notnull().sum() >= min_count", "self.notnull().sum() > min_count"),
         lambda c: c["fam"] == "fold" and c["op"] in ("sum", "prod") and c["p"] == 2 and c["ax"] == 0),
        ("value_counts_aggregate: normalizes by the number of distinct values instead of the total",
         [red.ValueCounts], "reduction_aggregate", mutate(methods.value_counts_aggregate, "else out.sum()", "else len(out)"),
         lambda c: c["fam"] == "vc"),
        ("_cov_corr_combine: pairwise update uses the next partition's count for both sides (n1 = counts[1:])",
         [red.Cov], "reduction_combine", staticmethod(mutate(dcore._cov_corr_combine, "n1 = cum_counts[:-1]", "n1 = counts[1:]")),
         lambda c: c["fam"] == "cov"),
        ("_mode_aggregate: compares with the smallest instead of the largest count",
         [red.Mode], "reduction_aggregate", staticmethod(mutate(dcore._mode_aggregate, "value_count_series.max(skipna=dropna)", "value_count_series.min(skipna=dropna)")),
         lambda c: c["fam"] == "mode"),
    ]
    ok = True
    for what, targets, attr, mut, pred in mutants:
        items = items_for(pred)
        base = new_violations(items)
        with patched(targets, attr, mut):
            got = new_violations(items)
        good = not base and len(got) > 0
        ok = ok and good
        print("selftest C37 mutant [%s]: %s (%d evaluations of %d cases flagged, e.g. %s; unmutated: %d)"
              % (what, "DETECTED" if good else "MISSED", len(got), len(items), got[0][0] if got else "-", len(base)))
    # (ii) corrupted recorded fields are rejected by the trace specification
    recs, i = [], 0
    while len(recs) < 40 and i < 400:
        case = random_case(rng)
        i += 1
        if 0 in case["layout"]:
            continue
        r = _record((i, case))
        if r is not None and r["obs"]["raised"] == "" and len(r["obs"]["v"]) >= 1 and r["obs"]["close"]:
            recs.append(r)
    corrupt = []
    for j, r in enumerate(recs):
        c = copy.deepcopy(r)
        kind = j % 4
        o = c["obs"]
        if kind == 0:          # one value of the recorded result changed
            cell = o["v"][-1]
            o["v"][-1] = [cell[0] + 1, max(1, cell[1])] if isinstance(cell, list) else (cell + 1 if cell != NA else 0)
            c["want"] = "Content"
        elif kind == 1:        # an entry of the result was lost
            if o["k"] in ("scalar", "list") or not o["ix"]:
                o["k"] = "rows" if o["k"] != "rows" else "cols"
                c["want"] = "Kind"
            else:
                o["ix"] = o["ix"][:-1]
                c["want"] = "Index"
        elif kind == 2:        # the kind of result changed
            o["k"] = "cols" if o["k"] != "cols" else "rows"
            c["want"] = "Kind"
        else:                  # the float was not within tolerance of the expected rational / an index label changed
            if o["ix"]:
                o["ix"][0] = o["ix"][0] + 1
                c["want"] = "Index"
            else:
                o["close"] = False
                c["want"] = "Content"
        c["id"] = "x" + r["id"]
        corrupt.append(c)
    spec, cfg = ctx.model(ctx.spec("frame", "FrameReductionsTrace.tla"), {})
    rej = ctx.tlc_validate(spec, recs + corrupt, cfg)         # one TLC run decides originals and corrupted copies
    rej0 = {k: v for k, v in rej.items() if not k.startswith("x")}
    known_rej = {k for k in rej0 if classify(case_of_record(next(r for r in recs if r["id"] == k)), next(r for r in recs if r["id"] == k)["layout"],
                                             rej0[k][0].strip('{}" ').split('"')[0], {}) in known}
    clean = [r for r in recs if r["id"] not in rej0]
    corrupt = [c for c in corrupt if c["id"][1:] not in rej0]
    missed = [c["id"] for c in corrupt if c["id"] not in rej or c["want"] not in rej[c["id"]][0]]
    good = bool(clean) and not missed and len(set(rej0) - known_rej) == 0
    ok = ok and good
    print("selftest C37 trace: %d recorded calls accepted (%d rejected before corruption, %d of them known findings); %d corrupted copies "
          "(value / lost entry / kind / label) -> %d rejected with the expected clause: %s"
          % (len(clean), len(rej0), len(known_rej), len(corrupt), len(corrupt) - len(missed), "DETECTED" if good else "MISSED %r" % missed[:3]))
    print("C37 selftest: %s" % ("ok" if ok else "FAILED"))
    return 0 if ok else 1
