"""C18 - size and duration helpers round-trip and meet their documented bounds.

Pattern B (contract + enumeration).  specs/graph/Units.tla states what the outputs of format_bytes /
parse_bytes / parse_timedelta / natural_sort_key / key_split must satisfy, in a scaled integer
domain (TLC integers are 32 bit, byte counts go to 2^60: a count is written relative to the printed
unit as m + r1/2^10 + r2/2^20 + "rest").  UnitsMC.tla enumerates the inputs (every band x integer
part x fraction at band boundaries and rounding edges; every documented unit x letter case x
numeric prefix; every short string over a small alphabet) and checks the contracts themselves
(satisfiable, tight only at the top of the PiB band).

spec -> code: every enumerated input is concretised (exact Python ints / text), the real helper is
called, the output is projected back into the scaled domain.  code -> spec: the same for seeded
random 60-bit integers, random prefixes, longer strings and arbitrary keys.  Every recorded call
is judged by TLC (UnitsTrace.tla) - Python never decides a verdict."""
from __future__ import annotations

import re
from fractions import Fraction

from ..core import TLA, MachineryError

META = {
    "title": "Size and duration helpers round-trip and meet their documented bounds",
    "design_ref": "DESIGN.md §4.2 C18",
    "technique": "TLA+ contracts in a scaled integer domain; TLC enumerates band boundaries / rounding edges / unit spellings "
                 "x letter cases x prefixes / short strings; every real call (enumerated and random) is recorded and "
                 "decided by TLC",
    "level_text": "Enumerated by TLC: format_bytes on every byte count < 922, every byte count of selected kiB rows, and for "
                  "MiB..PiB every integer part (15 in quick, all 1024 in thorough) x 48 fractions at band thresholds and "
                  "hundredth rounding edges (incl. exact ties) x rest in {0, >0}; parse_bytes / parse_timedelta on every "
                  "documented unit x letter-case variants x 9 numeric prefixes x optional space; natural_sort_key / key_split "
                  "on all strings of length <= 4 (5) over {a,1,-,(,',comma,superscript-2} as str, bytes and tuple keys. "
                  "Clauses: <= 10 characters, printed precision (half a hundredth + 1 byte), real parse_bytes round trip, "
                  "multiplier, totality, str/int alternation and run structure, leading-words rule. Random 60-bit integers, "
                  "prefixes, longer strings and arbitrary keys are judged the same way.",
    "level_note": "Thin use of the technique (executable contract + enumerator), as the design says. Trusted: TLC, the exact "
                  "integer projection n <-> (m, r1, r2, rest>0) and result/multiplier -> millionths done by the harness with "
                  "Python ints/Fractions, the regex that reads '<ip>.<fp> <unit>'. Not decided: digits of n/k below 2^-20 "
                  "(interval widened accordingly), float accuracy of parse_* beyond 1e-6 relative, error messages for "
                  "unknown units, format_time, non-documented numeric spellings ('.5', '1_000').",
}

FMT_UNITS = {"B": 0, "kiB": 1, "MiB": 2, "GiB": 3, "TiB": 4, "PiB": 5, "EiB": 6}
CHARS = {1: "a", 2: "1", 3: "-", 4: "(", 5: "'", 6: ",", 7: "²", 8: "b", 9: "2"}
SAT = 10 ** 7


def decompose(n, b):
    """n relative to k = 2**(10b): m, r1, r2 (10 bits each) and whether anything is left below 2^-20 k"""
    if b == 0:
        return {"m": min(n, SAT), "r1": 0, "r2": 0, "e": 0}
    k = 1 << (10 * b)
    m, rem = divmod(n, k)
    t = (rem << 20) >> (10 * b)            # floor(rem * 2^20 / k)
    rest = (rem << 20) - (t << (10 * b))
    return {"m": min(m, 2000), "r1": t >> 10, "r2": t & 1023, "e": 1 if rest else 0}   # m <= 1023 for every n < 2^60 printed in a fitting unit; saturated so that TLC stays below 2^31


def concretize(b, d):
    k = 1 << (10 * b)
    n = d["m"] * k + d["r1"] * (k >> 10) + d["r2"] * (k >> 20)
    if d["e"]:
        if (k >> 20) < 2:
            raise MachineryError("case with rest > 0 in a band without sub-2^-20 digits: %r" % ((b, d),))
        n += (k >> 20) - 1
    return n


_RE_FMT = re.compile(r"^(\d+)\.(\d\d) ([A-Za-z]+)$")
_RE_PLAIN = re.compile(r"^(\d+) B$")


def record_format(n, rid):
    from dask.utils import format_bytes, parse_bytes
    rec = {"id": rid, "kind": "format", "b": -1, "d": decompose(n, 0), "ip": 0, "fp": 0, "len": 0, "tp": 0,
           "raised": False, "praised": False, "text": "", "n": str(n)}
    try:
        s = format_bytes(n)
    except Exception as ex:  # noqa: BLE001
        rec["raised"] = True
        rec["text"] = repr(ex)[:80]
        return rec
    rec["text"] = str(s)[:40]
    if not isinstance(s, str):
        return rec
    rec["len"] = len(s)
    m = _RE_PLAIN.match(s)
    if m:
        b, ip, fp = 0, int(m.group(1)), 0
    else:
        m = _RE_FMT.match(s)
        if not m or m.group(3) not in FMT_UNITS:
            return rec
        b, ip, fp = FMT_UNITS[m.group(3)], int(m.group(1)), int(m.group(2))
    rec.update({"b": b, "d": decompose(n, b), "ip": min(ip, SAT), "fp": fp})
    try:
        p = parse_bytes(s)
        rec["tp"] = int(min(p if b == 0 else (p << 20) >> (10 * b), 2 * 10 ** 9))
    except Exception:  # noqa: BLE001
        rec["praised"] = True
    return rec


def apply_mask(u, mask):
    if mask >= 0:
        return "".join(ch.upper() if (mask >> i) & 1 else ch.lower() for i, ch in enumerate(u))
    if mask == -1:
        return u.upper()
    return "".join(ch.upper() if (i + mask) % 2 == 0 else ch.lower() for i, ch in enumerate(u))


def text_of(c):
    return c["pre"]["txt"] + (" " if c["sp"] else "") + apply_mask(c["unit"]["u"], c["mask"])


def record_parse(c, rid):
    from dask.utils import parse_bytes, parse_timedelta
    txt = text_of(c)
    rec = {"id": rid, "kind": c["fam"], "c": c, "raised": False, "text": txt}
    try:
        if c["fam"] == "parsebytes":
            r = parse_bytes(txt)
            mul = c["unit"]["base"] ** c["unit"]["exp"]
            q, rem = divmod(int(r), mul)
            rec.update({"q": int(max(-1, min(q, 10 ** 6))), "f": int(rem * 10 ** 6 // mul)})
        else:
            x = parse_timedelta(txt)
            ratio = Fraction(x) / Fraction(c["unit"]["num"], c["unit"]["den"])
            rec["micro"] = int(max(-1, min(round(ratio * 10 ** 6), 2 * 10 ** 9)))
    except Exception as ex:  # noqa: BLE001
        rec["raised"] = True
        rec.update({"q": 0, "f": 0, "micro": 0, "exc": repr(ex)[:80]})
    return rec


def record_strings(codes, rid):
    from dask.utils import key_split, natural_sort_key
    txt = "".join(CHARS[c] for c in codes)
    out = []
    r = {"id": rid + "n", "kind": "nsk", "s": codes, "parts": [], "raised": False, "text": txt}
    try:
        parts = natural_sort_key(txt)
        r["parts"] = [{"int": isinstance(p, int) and not isinstance(p, bool), "len": len(str(p)) if isinstance(p, (int, str)) else -1}
                      for p in parts]
    except Exception as ex:  # noqa: BLE001
        r["raised"] = True
        r["exc"] = repr(ex)[:80]
    out.append(r)
    for form, key in (("str", txt), ("bytes", txt.encode("utf-8")), ("tuple", (txt, 1))):
        out.append(record_key(key, rid + "k" + form[0], codes, True, form, txt))
    return out


def record_key(key, rid, codes, known, form, txt=""):
    from dask.utils import key_split
    o = {"raised": False, "isstr": False, "preflen": -1}
    try:
        res = key_split(key)
        o["isstr"] = isinstance(res, str)
        if o["isstr"] and txt.startswith(res):
            o["preflen"] = len(res)
    except Exception as ex:  # noqa: BLE001
        o["raised"] = True
        o["exc"] = repr(ex)[:80]
    return {"id": rid, "kind": "ksplit", "s": codes, "known": known, "form": form, "o": {k: o[k] for k in ("raised", "isstr", "preflen")},
            "text": repr(key)[:60], "exc": o.get("exc", "")}


def key_class(key):
    if key == ():
        return "empty-tuple"
    if isinstance(key, tuple):
        return key_class(key[0])
    if isinstance(key, bytes):
        try:
            key.decode()
            return "bytes"
        except UnicodeDecodeError:
            return "non-utf8-bytes"
    return type(key).__name__


def random_key(rng, depth=0):
    r = rng.random()
    if r < 0.15:
        return rng.randint(-5, 10 ** 6)
    if r < 0.2:
        return rng.random()
    if r < 0.25:
        return None
    if r < 0.45:
        return bytes(rng.randrange(256) for _ in range(rng.randint(0, 6)))
    if r < 0.7 and depth < 2:
        return tuple(random_key(rng, depth + 1) for _ in range(rng.randint(0, 3)))
    return "".join(rng.choice("ab-_(),'<> .019²é") for _ in range(rng.randint(0, 10)))


def classify(rec, clause):
    k = rec["kind"]
    if k == "format":
        unit = {v: u for u, v in FMT_UNITS.items()}.get(rec["b"], "?")
        if clause == "LenBound" and unit == "PiB" and rec["ip"] >= 1000:
            return "format_bytes:LenBound:top-of-PiB-band"
        return "format_bytes:%s:%s" % (clause, unit)
    if k in ("parsebytes", "timedelta"):
        return "%s:%s:%s" % ("parse_bytes" if k == "parsebytes" else "parse_timedelta", clause, rec["c"]["unit"]["u"] or "no-unit")
    if k == "nsk":
        return "natural_sort_key:%s:%s" % (clause, "non-decimal-digit" if "²" in rec["text"] else "ascii")
    if rec["known"]:
        return "key_split:%s:%s%s" % (clause, rec["form"], ":non-decimal-digit" if "²" in rec["text"] and clause != "Total" else "")
    return "key_split:%s:%s" % (clause, rec["form"])


def first_clause(text):
    return text.strip("{}\" ").split('"')[0] or "Rejected"


STRIP = ("text", "n", "exc", "form")


def validate(ctx, recs, report):
    spec, cfg = ctx.model(ctx.spec("graph", "UnitsTrace.tla"), {})
    for lo in range(0, len(recs), 20000):
        part = recs[lo:lo + 20000]
        rej = ctx.tlc_validate(spec, [{k: v for k, v in r.items() if k not in STRIP} for r in part], cfg, timeout=1500)
        byid = {r["id"]: r for r in part}
        for rid, clauses in rej.items():
            r = byid[rid]
            cl = first_clause(clauses[0])
            report(classify(r, cl), "TLC rejects a recorded %s call (%s): %s -> %s"
                   % (r["kind"], clauses[0], r.get("n") or r.get("text"), r.get("text") if r["kind"] == "format" else r.get("exc", "")),
                   {"record": r, "clauses": clauses})


def records_for_cases(cases):
    recs = []
    for i, c in enumerate(cases):
        c = c["c"]
        rid = "e%d" % i
        if c["fam"] == "format":
            recs.append(record_format(concretize(c["b"], c["d"]), rid))
        elif c["fam"] in ("parsebytes", "timedelta"):
            recs.append(record_parse(c, rid))
        else:
            recs.extend(record_strings(c["s"], rid))
    return recs


def random_records(rng, nfmt, nparse, nstr, nkeys, units):
    recs = []
    for i in range(nfmt):
        bits = rng.randint(1, 60)
        n = rng.randrange(1 << bits)
        if rng.random() < 0.1:                       # hover around a band threshold
            b = rng.randint(1, 5)
            n = int(rng.choice([0.9, 921.6, 999.995, 1.0]) * (1 << (10 * b))) + rng.randint(-3, 3)
        recs.append(record_format(max(0, min(n, (1 << 60) - 1)), "rf%d" % i))
    bu, tu = units
    for i in range(nparse):
        fam = rng.choice(["parsebytes", "timedelta"])
        unit = rng.choice(bu if fam == "parsebytes" else tu)
        micro = rng.choice([rng.randint(1, 999) * 10 ** 6, rng.randint(1, 99999) * 10 ** 4, rng.randint(1, 10 ** 9)])
        txt = ("%d.%06d" % divmod(micro, 10 ** 6)).rstrip("0").rstrip(".") if micro % 10 ** 6 else str(micro // 10 ** 6)
        n = unit["n"]
        mask = rng.randrange(1 << n) if n <= 3 else rng.choice([0, 1, -1, -2, -3])
        c = {"fam": fam, "unit": unit, "mask": mask, "pre": {"txt": txt, "micro": micro}, "sp": rng.randint(0, 1) if unit["u"] else 0}
        recs.append(record_parse(c, "rp%d" % i))
    for i in range(nstr):
        codes = [rng.choice([1, 1, 8, 2, 9, 3, 3, 4, 5, 6, 7]) for _ in range(rng.randint(0, 14))]
        if rng.random() < 0.5:                       # name-number keys: the leading-words rule applies
            words = ["".join(rng.choice("ab") for _ in range(rng.choice([1, 2, 3, 7, 8, 8, 9]))) if rng.random() < 0.6
                     else "".join(rng.choice("12") for _ in range(rng.randint(1, 3))) for _ in range(rng.randint(1, 4))]
            inv = {v: k for k, v in CHARS.items()}
            codes = [inv[ch] for ch in "-".join(words)]
        recs.extend(record_strings(codes, "rs%d" % i))
    for i in range(nkeys):
        key = random_key(rng)
        recs.append(record_key(key, "rk%d" % i, [], False, key_class(key)))
    return recs


MS_QUICK = "{0, 1, 9, 10, 99, 100, 500, 920, 921, 922, 998, 999, 1000, 1022, 1023}"
INVS = ["RefMeetsDigits", "OnlyTopPiBNeedsBiggerUnit", "UnitTableConsistent", "RunsPartition"]


def enumerate_cases(ctx, ms, strlen, label, ms1=MS_QUICK):
    spec, cfg = ctx.model(ctx.spec("graph", "UnitsMC.tla"), {"Fam": "all", "Ms": TLA(ms), "Ms1": TLA(ms1), "StrLen": strlen},
                          invariants=INVS)
    cases, _ = ctx.tlc_cases(spec, cfg, label=label, timeout=2400)
    return cases


def units_of(cases):
    bu, tu = {}, {}
    for c in cases:
        c = c["c"]
        if c["fam"] == "parsebytes":
            bu[c["unit"]["u"]] = c["unit"]
        elif c["fam"] == "timedelta":
            tu[c["unit"]["u"]] = c["unit"]
    return [bu[k] for k in sorted(bu)], [tu[k] for k in sorted(tu)]


def count_all(ctx, recs):
    for r in recs:
        key = (r["kind"], r.get("n") or r.get("text"), r.get("form"))
        nontrivial = {"format": r["kind"] == "format" and r["b"] != 0, "parsebytes": True, "timedelta": True,
                      "nsk": len(r.get("s", [])) > 1, "ksplit": len(r.get("s", [])) > 1 or not r.get("known", True)}[r["kind"]]
        ctx.count(key, nontrivial)


def run(ctx):
    cases = enumerate_cases(ctx, ctx.pick(MS_QUICK, "0..1023"), ctx.pick(4, 5), "design+cases")
    recs = records_for_cases(cases)
    recs += random_records(ctx.rng, ctx.pick(4000, 60000), ctx.pick(1500, 15000), ctx.pick(1500, 15000), ctx.pick(800, 8000),
                           units_of(cases))
    count_all(ctx, recs)
    validate(ctx, recs, ctx.violation)
    for kind in ("format", "parsebytes", "timedelta", "nsk", "ksplit"):
        ex = [r for r in recs if r["kind"] == kind]
        if ex and len(ctx.samples) < 5:
            r = ex[len(ex) // 2]
            ctx.sample({kind: {k: v for k, v in r.items() if k in ("n", "text", "b", "d", "ip", "fp", "len", "tp", "q", "f", "micro", "parts", "o")}})
    ctx.exhaustive = True
    ctx.rule = ("cases = TLC-enumerated inputs (format: band x integer part x edge fraction x rest; parse: unit x case x prefix; "
                "strings over the alphabet as str/bytes/tuple keys) + seeded random inputs; non-trivial = a unit/fraction is "
                "involved (not the plain 'n B' band, not strings shorter than 2); distinct by input text")
    ctx.extra["cases_enumerated_by_tlc"] = len(cases)
    ctx.assumptions = ["the harness projection between Python ints/floats and the scaled domain is exact (integer arithmetic / Fractions)",
                       "TLC evaluates the contracts correctly", "numbers below 2^60; documented unit spellings only"]


def replay(ctx, obj):
    r = obj["case"]["record"]
    if r["kind"] == "format":
        new = record_format(int(r["n"]), r["id"])
    elif r["kind"] in ("parsebytes", "timedelta"):
        new = record_parse(r["c"], r["id"])
    elif r["kind"] == "nsk":
        new = record_strings(r["s"], r["id"][:-1])[0]
    else:
        key = eval(r["text"]) if not r["known"] else {"str": lambda t: t, "bytes": lambda t: t.encode(), "tuple": lambda t: (t, 1)}[r["form"]]("".join(CHARS[c] for c in r["s"]))  # noqa: S307 - text is our own repr of a key
        new = record_key(key, r["id"], r["s"], r["known"], r["form"], "".join(CHARS[c] for c in r["s"]))
    out = []
    validate(ctx, [new], lambda *a: out.append(a))
    print("recorded now:", new, "\nverdict:", [a[:2] for a in out])
    return bool(out)


# ------------------------------------------------------------------ selftest
def selftest(ctx):
    import random
    import dask.utils as U
    ok = True
    cases = enumerate_cases(ctx, "{0, 1, 9, 99, 921, 999, 1023}", 3, "selftest cases", ms1="{0, 921}")
    units = units_of(cases)
    known = {"format_bytes:LenBound:top-of-PiB-band", "natural_sort_key:Total:non-decimal-digit",
             "key_split:Total:empty-tuple", "key_split:Total:non-utf8-bytes"}
    fams = {"format": ("format",), "parse": ("parsebytes", "timedelta"), "strings": ("strings",), "all": ("format", "parsebytes", "timedelta", "strings")}
    batches = []          # (tag, description, records) - judged by ONE TLC validation at the end

    def collect(tag, desc, which):
        sub = [c for c in cases if c["c"]["fam"] in fams[which]]
        nf, np_, ns, nk = {"format": (300, 0, 0, 0), "parse": (0, 300, 0, 0), "strings": (0, 0, 200, 100), "all": (300, 200, 200, 100)}[which]
        recs = records_for_cases(sub) + random_records(random.Random(3), nf, np_, ns, nk, units)
        for r in recs:
            r["id"] = tag + "-" + r["id"]
        batches.append((tag, desc, recs))

    collect("base", "unchanged tree", "all")

    def fmt_threshold(n):                      # mutant 1: band threshold 0.9 -> 0.99 (boundary slip): '0.90 kiB' region prints 5+ digits
        for prefix, k in (("Pi", 2**50), ("Ti", 2**40), ("Gi", 2**30), ("Mi", 2**20), ("ki", 2**10)):
            if n >= k * 9.9:
                return f"{n / k:.2f} {prefix}B"
        return f"{n} B"

    def fmt_truncate(n):                       # mutant 2: truncates instead of rounding the hundredths
        for prefix, k in (("Pi", 2**50), ("Ti", 2**40), ("Gi", 2**30), ("Mi", 2**20), ("ki", 2**10)):
            if n >= k * 0.9:
                return f"{int(n * 100 // k) / 100:.2f} {prefix}B"
        return f"{n} B"

    def fmt_decimal_div(n):                    # mutant 3: wrong operand - divides by 1000**i but prints binary prefixes
        for prefix, k, kk in (("Pi", 2**50, 10**15), ("Ti", 2**40, 10**12), ("Gi", 2**30, 10**9), ("Mi", 2**20, 10**6), ("ki", 2**10, 10**3)):
            if n >= k * 0.9:
                return f"{n / kk:.2f} {prefix}B"
        return f"{n} B"

    orig_sizes = dict(U.byte_sizes)
    orig_td = dict(U.timedelta_sizes)
    muts = [("format_bytes threshold 0.9 -> 9.9", "format_bytes", fmt_threshold),
            ("format_bytes truncates the hundredths", "format_bytes", fmt_truncate),
            ("format_bytes divides by 1000**i", "format_bytes", fmt_decimal_div)]
    for i, (name, attr, fn) in enumerate(muts):
        orig = getattr(U, attr)
        setattr(U, attr, fn)
        try:
            collect("f%d" % i, name, "format")
        finally:
            setattr(U, attr, orig)
    # table mutants
    for i, (name, table, key, val) in enumerate((("byte_sizes['gi'] = 10**9 (wrong operand)", U.byte_sizes, "gi", 10 ** 9),
                                                 ("byte_sizes lacks 'ti' (dropped abbreviation)", U.byte_sizes, "ti", None),
                                                 ("timedelta_sizes['us'] = 1e-3 (wrong unit)", U.timedelta_sizes, "us", 1e-3))):
        saved = table.get(key)
        if val is None:
            del table[key]
        else:
            table[key] = val
        try:
            collect("t%d" % i, name, "parse")
        finally:
            table[key] = saved
    assert U.byte_sizes == orig_sizes and U.timedelta_sizes == orig_td

    def nsk_no_sep(s):                          # mutant: split without the capture group - the numbers disappear
        return [int(part) if part.isdigit() else part for part in re.split(r"\d+", s)]

    orig = U.natural_sort_key
    U.natural_sort_key = nsk_no_sep
    try:
        collect("n0", "natural_sort_key drops the digit runs", "strings")
    finally:
        U.natural_sort_key = orig

    orig = U.key_split
    hexp = re.compile("[a-f]+")

    def ks_no_hash(s):                          # mutant: the 8-hex-letters test is dropped
        if type(s) is bytes:
            return ks_no_hash(s.decode())
        if type(s) is tuple:
            return ks_no_hash(s[0])
        try:
            words = s.split("-")
            result = words[0].split(",")[0].strip("_'()\"") if not words[0][0].isalpha() else words[0]
            for word in words[1:]:
                if word.isalpha():
                    result += f"-{word}"
                else:
                    break
            return result
        except Exception:  # noqa: BLE001
            return "Other"
    U.key_split = ks_no_hash
    try:
        collect("k0", "key_split keeps 8-letter hex words", "strings")
    finally:
        U.key_split = orig

    # corrupted records must be rejected, honest ones accepted
    good = record_format(1234567890, "good")
    bad1 = dict(good, id="corrupt-fp", fp=(good["fp"] + 7) % 100)
    bad2 = dict(good, id="corrupt-len", len=11)
    bad3 = dict(good, id="corrupt-roundtrip", tp=good["tp"] + 9000)
    gp = record_parse({"fam": "parsebytes", "unit": units[0][3], "mask": 0, "pre": {"txt": "5.4", "micro": 5400000}, "sp": 1}, "goodparse")
    bp = dict(gp, id="corrupt-multiplier", q=gp["q"] + 1)
    out = []
    allrecs = [r for _, _, recs in batches for r in recs] + [good, bad1, bad2, bad3, gp, bp]
    validate(ctx, allrecs, lambda sig, what, rp: out.append((rp["record"]["id"], sig)))
    rej = dict(out)
    for tag, desc, recs in batches:
        sigs = [rej[r["id"]] for r in recs if r["id"] in rej]
        new = [x for x in sigs if x not in known]
        if tag == "base":
            print("selftest baseline (%s): %d unexpected violations %s; known findings re-found: %s"
                  % (desc, len(new), sorted(set(new))[:3], sorted(set(sigs) & known)))
            ok &= not new
        else:
            print("selftest mutant [%s]: %s (%d violations in %d calls, e.g. %s)"
                  % (desc, "DETECTED" if new else "MISSED", len(new), len(recs), sorted(set(new))[:2]))
            ok &= bool(new)
    for rid, want in (("good", False), ("corrupt-fp", True), ("corrupt-len", True), ("corrupt-roundtrip", True), ("goodparse", False),
                      ("corrupt-multiplier", True)):
        got = rid in rej
        print("selftest trace [%s]: %s %s" % (rid, "rejected" if got else "accepted", rej.get(rid, "")))
        ok &= got == want
    print("selftest C18:", "OK" if ok else "FAILED")
    return 0 if ok else 1
