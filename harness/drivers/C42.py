"""C42 - lazy DataFrame metadata matches computed results.

Thin specification, thick traces.  specs/frame/FrameMeta.tla states the invariant on DESCRIPTIONS (kind
DataFrame / Series / Index / scalar, column names and order, dtype CLASSES, index name and index dtype class):
the description of the lazy `_meta` equals the description of the object compute() returns and of every
separately computed partition, and as many partitions are computed as `npartitions` announces.  TLC checks
the design of the invariant (FrameMetaMC.tla: a truthful observation is accepted, every single-field
corruption of the whole object or of one partition is rejected and blamed on that field) and then decides
every observation recorded from real dask collections (FrameMetaTrace.tla):

  * every intermediate of the seeded C36 pipelines (projection, filters, assign, arithmetic, where / mask,
    fillna, clip, map, astype, rename, head, loc ...);
  * a menu of ~150 operations on a frame with int / uint / float / bool / string / datetime / timedelta /
    categorical columns: the elementwise operations again, string / datetime / categorical accessors,
    reductions, cumulative operations, groupby aggregations, merges, joins, concatenations, sorts,
    set_index / reset_index, drop_duplicates - alone and behind a row-wise first step - on several
    partitionings (empty partitions, known / unknown divisions, from_pandas).
Dtype classes, not exact dtypes, are compared; object and the pandas-3 str dtype are one class."""
from __future__ import annotations

import json

import numpy as np
import pandas as pd

from ..core import MachineryError
from ..divisions import parts_collection
from ..frameobs import CallTimeout, partitions_of, time_limit
from ..frames import dd, is_shim_error, split_rows
from ..frametables import apply_op
from ..par import pmap
from . import C36

META = {
    "title": "Lazy DataFrame metadata matches computed results",
    "design_ref": "DESIGN.md §4.4 C42",
    "technique": "TLA+ invariant on recorded observations (thin specification, thick traces): description of _meta = description of the "
                 "computed object = description of every computed partition; TLC checks the invariant's design on enumerated "
                 "observations with single-field corruptions and decides every observation recorded from real dask programs",
    "level_text": "TLC enumerates every small observation (frame / series / index / scalar descriptions over 0-2 columns and 3 dtype "
                  "classes, 1-2 partitions) with each single-field corruption at each site and checks that the invariant accepts the "
                  "truthful ones and blames exactly the corrupted field.  Recorded from dask: every intermediate of seeded C36 pipelines "
                  "(2-5 row-wise operations on 4-12 row frames, <= 5 partitions incl. empty ones) and a menu of ~150 operations over a frame "
                  "with int/uint/float/bool/string/datetime/timedelta/categorical columns (elementwise, str/dt/cat accessors, reductions, "
                  "cumulative, groupby-agg, merge/join/concat, sort/set_index/reset_index/drop_duplicates) plus a family of ~110 operations whose "
                  "result dtype depends on whether a missing value is inserted (shift by +-k and 0, diff, rolling, cumulative, ffill/bfill, "
                  "align / binary operators / assign / where against another index, combine_first, concat(axis=1), outer joins, groupby "
                  "shift/first/last) frame-wide on int+uint+bool+float+object+datetime columns and per column, and a family of 150 index-aligned "
                  "operations between NOT co-aligned collections with different partition counts in both orders and unknown divisions on one / both "
                  "sides (npartitions = partitions really built = len(divisions)-1 is part of every observation), alone and behind a first "
                  "row-wise step, on seeded partitionings; for each collection _meta, compute() and every partition computed through its own "
                  "key are described and TLC decides the invariant: kind, column names and order, dtype classes, index name, index dtype "
                  "class, partition count.",
    "level_note": "Trusted: TLC, the description projection (dtype -> class; object and str are one class), from_delayed to build the "
                  "sources. Programs are seeded samples, not exhaustive; a program that raises is not judged here (C36 judges results) "
                  "except for the fixed menu, where raising is a violation. Exact dtypes (int32 vs int64), categories, and values are not "
                  "compared.",
}

CLAUSES = ["Kind", "Cols", "Dtypes", "IName", "IDtype", "PKind", "PCols", "PDtypes", "PIName", "PIDtype", "NParts", "Raised"]


# ----------------------------------------------------------------------------- descriptions
def dclass(dt):
    if isinstance(dt, pd.CategoricalDtype):
        return "cat"
    if isinstance(dt, pd.StringDtype):
        return "s"
    k = getattr(dt, "kind", "O")
    return {"b": "b", "i": "i", "u": "u", "f": "f", "c": "c", "M": "M", "m": "m", "O": "s", "U": "s", "S": "s", "T": "s"}.get(k, "o")


def nm(x):
    return "" if x is None else str(x)


def index_desc(ix):
    if isinstance(ix, pd.MultiIndex):
        return "|".join(nm(n) for n in ix.names), "multi"
    return nm(ix.name), dclass(ix.dtype)


def describe(obj):
    """pandas object or scalar -> description record of FrameMeta.tla."""
    if isinstance(obj, pd.DataFrame):
        iname, idt = index_desc(obj.index)
        return {"kind": "frame", "cols": [nm(c) for c in obj.columns], "dtypes": [dclass(d) for d in obj.dtypes], "iname": iname, "idt": idt,
                "rows": len(obj)}
    if isinstance(obj, pd.Series):
        iname, idt = index_desc(obj.index)
        return {"kind": "series", "cols": [nm(obj.name)], "dtypes": [dclass(obj.dtype)], "iname": iname, "idt": idt, "rows": len(obj)}
    if isinstance(obj, pd.Index):
        if isinstance(obj, pd.MultiIndex):
            return {"kind": "index", "cols": ["|".join(nm(n) for n in obj.names)], "dtypes": ["o"], "iname": "", "idt": "", "rows": len(obj)}
        return {"kind": "index", "cols": [nm(obj.name)], "dtypes": [dclass(obj.dtype)], "iname": "", "idt": "", "rows": len(obj)}
    # scalars: numpy / python numbers, Timestamp, Timedelta, str
    if isinstance(obj, pd.Timestamp) or isinstance(obj, np.datetime64):
        c = "M"
    elif isinstance(obj, pd.Timedelta) or isinstance(obj, np.timedelta64):
        c = "m"
    elif obj is pd.NaT:
        c = "M"
    elif isinstance(obj, str):
        c = "s"
    else:
        try:
            c = dclass(np.asarray(obj).dtype)
        except Exception:  # noqa: BLE001
            c = "o"
    return {"kind": "scalar", "cols": [], "dtypes": [c], "iname": "", "idt": "", "rows": 1}


def observe(coll):
    """-> obs {meta, whole, parts, nparts}."""
    meta = describe(coll._meta)
    nparts = int(coll.npartitions) if hasattr(coll, "npartitions") else 1
    parts = [describe(p) for p in partitions_of(coll)]
    whole = describe(coll.compute(scheduler="sync"))
    ndivs = len(tuple(coll.divisions)) - 1 if hasattr(coll, "divisions") else 1
    return {"meta": meta, "whole": whole, "parts": parts, "nparts": nparts, "ndivs": ndivs}


# ----------------------------------------------------------------------------- the rich source frame
def rich_frame(rng, n):
    idx = sorted(rng.randint(0, 5) for _ in range(n)) if rng.random() < 0.7 else [rng.randint(0, 5) for _ in range(n)]
    f = [rng.choice([0.5, 1.0, 2.0, np.nan]) for _ in range(n)]
    return pd.DataFrame({
        "i": np.array([rng.randint(0, 3) for _ in range(n)], dtype="int64"),
        "f": np.array(f, dtype="float64"),
        "b": np.array([rng.random() < 0.5 for _ in range(n)], dtype=bool),
        "s": pd.Series([rng.choice(["a", "ab", "abc", "ba", "c"]) for _ in range(n)], dtype=object).values,
        "t": pd.to_datetime(["2020-01-0%d" % rng.randint(1, 9) for _ in range(n)]),
        "c": pd.Categorical([rng.choice(["x", "y"]) for _ in range(n)], categories=["x", "y", "z"]),
        "u": np.array([rng.randint(0, 3) for _ in range(n)], dtype="uint8"),
        "d": pd.to_timedelta([rng.randint(0, 3) for _ in range(n)], unit="D"),
        "k": np.array([rng.randint(0, 2) for _ in range(n)], dtype="int64"),
    }, index=pd.Index(idx, dtype="int64"))


def other_frame():
    return pd.DataFrame({"k": np.array([0, 1, 1, 3], dtype="int64"), "w": [1.5, 2.5, 3.5, 4.5], "s2": ["p", "q", "r", "s"]},
                        index=pd.Index([0, 1, 2, 3], dtype="int64"))


def _other(ddm):
    return ddm.from_pandas(other_frame(), npartitions=2)


# every entry: name -> function of (dask frame x, dask.dataframe module); chosen to be valid programs
MENU = {
    # --- elementwise / row-wise (C36 vocabulary on rich dtypes)
    "project[i,s]": lambda x, m: x[["i", "s"]],
    "project[s]": lambda x, m: x["s"],
    "project[s,i] (reordered)": lambda x, m: x[["s", "i"]],
    "project[c,t,b]": lambda x, m: x[["c", "t", "b"]],
    "filter(i>1)": lambda x, m: x[x.i > 1],
    "filter(b)": lambda x, m: x[x.b],
    "filter(s==a)": lambda x, m: x[x.s == "a"],
    "filter(f.isna)": lambda x, m: x[x.f.isna()],
    "filter(nothing)": lambda x, m: x[x.i < 0],
    "assign(f+i)": lambda x, m: x.assign(z=x.f + x.i),
    "assign(scalar)": lambda x, m: x.assign(z=1),
    "assign(c).assign(d).assign(c)": lambda x, m: x[["i", "f"]].assign(c=x.i + 1).assign(d=x.i * 2).assign(c=x.i - 1),
    "assign(str)": lambda x, m: x.assign(z=x.s + "!"),
    "assign(replace i by float)": lambda x, m: x.assign(i=x.i * 0.5),
    "i+f": lambda x, m: x.i + x.f,
    "i+u": lambda x, m: x.i + x.u,
    "u+u": lambda x, m: x.u + x.u,
    "u*2": lambda x, m: x.u * 2,
    "i/i": lambda x, m: x.i / (x.i + 1),
    "i//2": lambda x, m: x.i // 2,
    "i%2": lambda x, m: x.i % 2,
    "i**2": lambda x, m: x.i ** 2,
    "-f": lambda x, m: -x.f,
    "b&b": lambda x, m: x.b & (x.i > 1),
    "~b": lambda x, m: ~x.b,
    "b+b": lambda x, m: x.b + x.b,
    "b+i": lambda x, m: x.b + x.i,
    "i>f": lambda x, m: x.i > x.f,
    "s==s": lambda x, m: x.s == x.s,
    "s+s": lambda x, m: x.s + x.s,
    "t-t": lambda x, m: x.t - x.t,
    "t+d": lambda x, m: x.t + x.d,
    "d+d": lambda x, m: x.d + x.d,
    "d*2": lambda x, m: x.d * 2,
    "t>const": lambda x, m: x.t > pd.Timestamp("2020-01-04"),
    "frame[i,f]+1": lambda x, m: x[["i", "f"]] + 1,
    "frame[i,u]*frame": lambda x, m: x[["i", "u"]] * x[["i", "u"]],
    "frame[i,f]>1": lambda x, m: x[["i", "f"]] > 1,
    "i.astype(f4)": lambda x, m: x.i.astype("float32"),
    "f.astype(str)": lambda x, m: x.f.astype(str),
    "i.astype(category)": lambda x, m: x.i.astype("category"),
    "s.astype(category)": lambda x, m: x.s.astype("category"),
    "c.astype(str)": lambda x, m: x.c.astype(str),
    "b.astype(i8)": lambda x, m: x.b.astype("int64"),
    "i.astype(bool)": lambda x, m: x.i.astype(bool),
    "frame.astype(dict)": lambda x, m: x[["i", "f", "u"]].astype({"i": "float64", "u": "int32"}),
    "f.fillna(0)": lambda x, m: x.f.fillna(0),
    "frame.fillna(0)": lambda x, m: x[["i", "f"]].fillna(0),
    "i.where(b)": lambda x, m: x.i.where(x.b),
    "i.where(b,0)": lambda x, m: x.i.where(x.b, 0),
    "i.mask(b)": lambda x, m: x.i.mask(x.b),
    "u.where(b)": lambda x, m: x.u.where(x.b),
    "b.where(i>1)": lambda x, m: x.b.where(x.i > 1),
    "s.where(b)": lambda x, m: x.s.where(x.b),
    "t.where(b)": lambda x, m: x.t.where(x.b),
    "frame.where(frame>1)": lambda x, m: x[["i", "f"]].where(x[["i", "f"]] > 1),
    "frame.mask(frame>1,0)": lambda x, m: x[["i", "f"]].mask(x[["i", "f"]] > 1, 0),
    "f.clip(0,1)": lambda x, m: x.f.clip(0, 1),
    "i.clip(1,2)": lambda x, m: x.i.clip(1, 2),
    "i.isin": lambda x, m: x.i.isin([0, 1]),
    "s.isin": lambda x, m: x.s.isin(["a", "c"]),
    "i.map(dict all)": lambda x, m: x.i.map({0: 5, 1: 6, 2: 7, 3: 8}),
    "i.map(dict some)": lambda x, m: x.i.map({0: 5}),
    "i.map(dict->str)": lambda x, m: x.i.map({0: "p", 1: "q", 2: "r", 3: "s"}),
    "s.map(dict)": lambda x, m: x.s.map({"a": 1, "ab": 2}),
    "i.map(fn,meta)": lambda x, m: x.i.map(lambda v: v + 1, meta=("i", "int64")),
    "i.apply(fn,meta)": lambda x, m: x.i.apply(lambda v: v * 0.5, meta=("i", "float64")),
    "frame.apply(axis=1,meta)": lambda x, m: x[["i", "u"]].apply(lambda r: r["i"] + 1, axis=1, meta=(None, "int64")),
    "map_partitions(identity)": lambda x, m: x.map_partitions(lambda df: df),
    "rename(cols)": lambda x, m: x.rename(columns={"i": "I", "s": "S"}),
    "series.rename": lambda x, m: x.i.rename("j"),
    "head(3,all)": lambda x, m: x.head(3, npartitions=-1, compute=False),
    "tail(2)": lambda x, m: x.tail(2, compute=False),
    "loc[1:3]": lambda x, m: x.loc[1:3],
    "loc[1:3,cols]": lambda x, m: x.loc[1:3, ["i", "s"]],
    "isna": lambda x, m: x.isna(),
    "f.notnull": lambda x, m: x.f.notnull(),
    "abs": lambda x, m: x[["i", "f"]].abs(),
    "round": lambda x, m: x.f.round(),
    "f.between": lambda x, m: x.f.between(0.5, 1.5),
    "dropna": lambda x, m: x.dropna(),
    "f.dropna": lambda x, m: x.f.dropna(),
    "drop(cols)": lambda x, m: x.drop(columns=["s", "t"]),
    "to_frame": lambda x, m: x.i.to_frame(),
    "to_frame(name)": lambda x, m: x.i.to_frame(name="q"),
    "index": lambda x, m: x.index,
    "index.to_series": lambda x, m: x.index.to_series(),
    "index.to_frame": lambda x, m: x.index.to_frame(),
    "s.index": lambda x, m: x.s.index,
    "select_dtypes(number)": lambda x, m: x.select_dtypes(include="number"),
    "replace": lambda x, m: x.i.replace(1, 10),
    "diff": lambda x, m: x.i.diff(),
    "shift": lambda x, m: x.i.shift(1),
    "shift(u)": lambda x, m: x.u.shift(1),
    # --- string / datetime / categorical accessors
    "str.len": lambda x, m: x.s.str.len(),
    "str.upper": lambda x, m: x.s.str.upper(),
    "str.contains": lambda x, m: x.s.str.contains("a"),
    "str.startswith": lambda x, m: x.s.str.startswith("a"),
    "str.slice": lambda x, m: x.s.str.slice(0, 1),
    "str[0]": lambda x, m: x.s.str[0],
    "str.count": lambda x, m: x.s.str.count("a"),
    "str.find": lambda x, m: x.s.str.find("b"),
    "str.isalpha": lambda x, m: x.s.str.isalpha(),
    "str.cat": lambda x, m: x.s.str.cat(x.s, sep="-"),
    "str.replace": lambda x, m: x.s.str.replace("a", "z"),
    "str.pad": lambda x, m: x.s.str.pad(4),
    "dt.year": lambda x, m: x.t.dt.year,
    "dt.day": lambda x, m: x.t.dt.day,
    "dt.dayofweek": lambda x, m: x.t.dt.dayofweek,
    "dt.floor": lambda x, m: x.t.dt.floor("D"),
    "dt.date": lambda x, m: x.t.dt.date,
    "dt.strftime": lambda x, m: x.t.dt.strftime("%Y"),
    "dt.is_month_start": lambda x, m: x.t.dt.is_month_start,
    "d.dt.days": lambda x, m: x.d.dt.days,
    "d.dt.total_seconds": lambda x, m: x.d.dt.total_seconds(),
    "cat.codes": lambda x, m: x.c.cat.codes,
    "cat.as_ordered": lambda x, m: x.c.cat.as_ordered(),
    "cat.remove_unused": lambda x, m: x.c.cat.remove_unused_categories(),
    "cat.rename": lambda x, m: x.c.cat.rename_categories({"x": "X"}),
    # --- reductions
    "i.sum": lambda x, m: x.i.sum(),
    "u.sum": lambda x, m: x.u.sum(),
    "b.sum": lambda x, m: x.b.sum(),
    "f.sum": lambda x, m: x.f.sum(),
    "d.sum": lambda x, m: x.d.sum(),
    "i.mean": lambda x, m: x.i.mean(),
    "i.min": lambda x, m: x.i.min(),
    "t.max": lambda x, m: x.t.max(),
    "s.min": lambda x, m: x.s.min(),
    "i.std": lambda x, m: x.i.std(),
    "i.var": lambda x, m: x.i.var(),
    "f.count": lambda x, m: x.f.count(),
    "b.any": lambda x, m: x.b.any(),
    "b.all": lambda x, m: x.b.all(),
    "i.prod": lambda x, m: x.i.prod(),
    "s.nunique": lambda x, m: x.s.nunique(),
    "i.idxmax": lambda x, m: x.i.idxmax(),
    "f.idxmin": lambda x, m: x.f.idxmin(),
    "i.median_approx": lambda x, m: x.i.median_approximate(),
    "f.quantile": lambda x, m: x.f.quantile(0.5),
    "f.quantile(list)": lambda x, m: x.f.quantile([0.25, 0.75]),
    "size": lambda x, m: x.size,
    "i.size": lambda x, m: x.i.size,
    "frame.sum(num)": lambda x, m: x[["i", "f", "u", "b"]].sum(),
    "frame.mean(num)": lambda x, m: x[["i", "f", "u"]].mean(),
    "frame.count": lambda x, m: x.count(),
    "frame.min(num)": lambda x, m: x[["i", "f", "u"]].min(),
    "frame.max(i,u)": lambda x, m: x[["i", "u"]].max(),
    "frame.std": lambda x, m: x[["i", "f"]].std(),
    "frame.any": lambda x, m: x[["b", "i"]].any(),
    "frame.nunique": lambda x, m: x[["i", "s"]].nunique(),
    "frame.sum(axis=1)": lambda x, m: x[["i", "f", "u"]].sum(axis=1),
    "frame.mean(axis=1)": lambda x, m: x[["i", "u"]].mean(axis=1),
    "frame.idxmax": lambda x, m: x[["i", "f"]].idxmax(),
    "frame.quantile": lambda x, m: x[["i", "f"]].quantile(0.5),
    "frame.describe": lambda x, m: x[["i", "f"]].describe(),
    "i.describe": lambda x, m: x.i.describe(),
    "i.value_counts": lambda x, m: x.i.value_counts(),
    "s.value_counts": lambda x, m: x.s.value_counts(),
    "c.value_counts": lambda x, m: x.c.value_counts(),
    "b.value_counts": lambda x, m: x.b.value_counts(),
    "i.unique": lambda x, m: x.i.unique(),
    "s.unique": lambda x, m: x.s.unique(),
    "i.nlargest": lambda x, m: x.i.nlargest(2),
    "frame.nsmallest": lambda x, m: x.nsmallest(2, "f"),
    "i.mode": lambda x, m: x.i.mode(),
    "frame.cov": lambda x, m: x[["i", "f"]].cov(),
    "frame.corr": lambda x, m: x[["i", "u"]].corr(),
    # --- cumulative / window
    "i.cumsum": lambda x, m: x.i.cumsum(),
    "u.cumsum": lambda x, m: x.u.cumsum(),
    "b.cumsum": lambda x, m: x.b.cumsum(),
    "f.cumsum": lambda x, m: x.f.cumsum(),
    "i.cumprod": lambda x, m: x.i.cumprod(),
    "i.cummax": lambda x, m: x.i.cummax(),
    "frame.cumsum": lambda x, m: x[["i", "f", "u"]].cumsum(),
    "i.rolling.sum": lambda x, m: x.i.rolling(2).sum(),
    "i.rolling.max": lambda x, m: x.i.rolling(2).max(),
    "frame.rolling.mean": lambda x, m: x[["i", "f"]].rolling(2).mean(),
    # --- groupby
    "gb.sum": lambda x, m: x.groupby("k")[["i", "f", "u"]].sum(),
    "gb.mean": lambda x, m: x.groupby("k")[["i", "u"]].mean(),
    "gb.count": lambda x, m: x.groupby("k").count(),
    "gb.size": lambda x, m: x.groupby("k").size(),
    "gb.i.sum": lambda x, m: x.groupby("k").i.sum(),
    "gb.b.sum": lambda x, m: x.groupby("k").b.sum(),
    "gb.u.max": lambda x, m: x.groupby("k").u.max(),
    "gb.s.first": lambda x, m: x.groupby("k").s.first(),
    "gb.t.min": lambda x, m: x.groupby("k").t.min(),
    "gb.i.nunique": lambda x, m: x.groupby("k").i.nunique(),
    "gb.i.std": lambda x, m: x.groupby("k").i.std(),
    "gb.i.var": lambda x, m: x.groupby("k").i.var(),
    "gb.agg(dict)": lambda x, m: x.groupby("k").agg({"i": "sum", "f": "mean", "u": "max"}),
    "gb.agg(list)": lambda x, m: x.groupby("k").i.agg(["sum", "mean"]),
    "gb.agg(named)": lambda x, m: x.groupby("k").agg(tot=("i", "sum"), avg=("f", "mean")),
    "gb[k,b].sum": lambda x, m: x.groupby(["k", "b"]).i.sum(),
    "gb(s).count": lambda x, m: x.groupby("s").i.count(),
    "gb(c).sum": lambda x, m: x.groupby("c", observed=False).i.sum(),
    "gb(c,observed).sum": lambda x, m: x.groupby("c", observed=True).i.sum(),
    "gb(index).sum": lambda x, m: x.groupby(x.index).i.sum(),
    "gb(series).sum": lambda x, m: x.groupby(x.i % 2).f.sum(),
    "gb.cumsum": lambda x, m: x.groupby("k").i.cumsum(),
    "gb.cumcount": lambda x, m: x.groupby("k").cumcount(),
    "gb.idxmax": lambda x, m: x.groupby("k").i.idxmax(),
    "gb.median": lambda x, m: x.groupby("k").i.median(),
    "gb.first": lambda x, m: x.groupby("k")[["i", "s", "t"]].first(),
    "gb.i.sum(split_out=2)": lambda x, m: x.groupby("k").i.sum(split_out=2),
    "gb.sum(sort=False)": lambda x, m: x.groupby("k", sort=False)[["i", "f"]].sum(),
    "gb.shift": lambda x, m: x.groupby("k").i.shift(1),
    # --- merge / join / concat
    "merge(on k)": lambda x, m: x[["k", "i", "s"]].merge(_other(m), on="k"),
    "merge(left)": lambda x, m: x[["k", "i"]].merge(_other(m), on="k", how="left"),
    "merge(outer)": lambda x, m: x[["k", "i", "u"]].merge(_other(m), on="k", how="outer"),
    "merge(right)": lambda x, m: x[["k", "u"]].merge(_other(m), on="k", how="right"),
    "merge(index)": lambda x, m: x[["i", "s"]].merge(_other(m), left_index=True, right_index=True),
    "merge(index,outer)": lambda x, m: x[["i", "b"]].merge(_other(m), left_index=True, right_index=True, how="outer"),
    "merge(left_on,right_index)": lambda x, m: x[["k", "i"]].merge(_other(m)[["w"]], left_on="k", right_index=True),
    "merge(suffixes)": lambda x, m: x[["k", "i"]].merge(x[["k", "i", "f"]], on="k", suffixes=("_l", "_r")),
    "merge(indicator)": lambda x, m: x[["k", "i"]].merge(_other(m), on="k", how="outer", indicator=True),
    "merge(pandas other)": lambda x, m: x[["k", "u"]].merge(other_frame(), on="k"),
    "join": lambda x, m: x[["i", "s"]].join(_other(m)[["w"]]),
    "join(outer)": lambda x, m: x[["u"]].join(_other(m)[["w", "s2"]], how="outer"),
    "concat(rows)": lambda x, m: m.concat([x, x]),
    "concat(rows,different cols)": lambda x, m: m.concat([x[["i", "f"]], x[["f", "s"]]]),
    "concat(rows,int+float)": lambda x, m: m.concat([x[["i"]], x[["f"]].rename(columns={"f": "i"})]),
    "concat(series)": lambda x, m: m.concat([x.i, x.u]),
    "concat(cols)": lambda x, m: m.concat([x[["i"]], x[["s", "t"]]], axis=1),
    "concat(cols,series)": lambda x, m: m.concat([x.i, x.s], axis=1),
    "concat(rows,interleave)": lambda x, m: m.concat([x[["i", "s"]], _other(m)[["w"]]], interleave_partitions=True),
    # --- sort / shuffle / index
    "sort_values(i)": lambda x, m: x.sort_values("i"),
    "sort_values(s,desc)": lambda x, m: x.sort_values("s", ascending=False),
    "sort_values(f)": lambda x, m: x[["f", "i"]].sort_values("f"),
    "set_index(k)": lambda x, m: x.set_index("k"),
    "set_index(s)": lambda x, m: x.set_index("s"),
    "set_index(t)": lambda x, m: x.set_index("t"),
    "set_index(series)": lambda x, m: x.set_index(x.i * 2),
    "reset_index": lambda x, m: x.reset_index(),
    "reset_index(drop)": lambda x, m: x.reset_index(drop=True),
    "series.reset_index": lambda x, m: x.i.reset_index(),
    "rename_axis": lambda x, m: x.rename_axis("ix"),
    "drop_duplicates": lambda x, m: x.drop_duplicates(),
    "drop_duplicates(subset)": lambda x, m: x.drop_duplicates(subset=["k"]),
    "i.drop_duplicates": lambda x, m: x.i.drop_duplicates(),
    "shuffle(k)": lambda x, m: x.shuffle("k"),
    "repartition(2)": lambda x, m: x.repartition(npartitions=2),
    "sample": lambda x, m: x.sample(frac=0.5, random_state=1),
    "explode": lambda x, m: x.i.explode(),
    "melt": lambda x, m: x[["i", "u", "k"]].melt(id_vars="k"),
    "pivot_table": lambda x, m: x.assign(c2=x.c).pivot_table(index="k", columns="c2", values="i", aggfunc="sum"),
    "get_dummies": lambda x, m: m.get_dummies(x[["c", "i"]]),
    "to_datetime": lambda x, m: m.to_datetime(x.t.dt.strftime("%Y-%m-%d")),
    "to_numeric": lambda x, m: m.to_numeric(x.i.astype(str)),
    "memory_usage": lambda x, m: x[["i", "f"]].memory_usage(index=False),
    "dtypes-preserving copy": lambda x, m: x.copy(),
    "isin(frame)": lambda x, m: x[["i", "u"]].isin([0, 1]),
    "eval": lambda x, m: x.eval("z = i + f"),
    "query": lambda x, m: x.query("i > 1"),
    "nunique_approx": lambda x, m: x.i.nunique_approx(),
    "align": lambda x, m: x.i.align(x.f)[0],
    "squeeze": lambda x, m: x[["i"]].squeeze(),
    "pop-like getitem": lambda x, m: x[["s", "i"]]["i"],
    "where(other series)": lambda x, m: x.i.where(x.b, x.f),
    "add(fill_value)": lambda x, m: x.i.add(x.f, fill_value=0),
    "frame.add(series,axis=0)": lambda x, m: x[["i", "u"]].add(x.i, axis=0),
    "radd str": lambda x, m: "x" + x.s,
    "i.to_frame.T-free sum": lambda x, m: x[["i"]].sum().to_frame(),
}

# ----------------------------------------------------------------------------- the missing-value family
# Every operation whose RESULT DTYPE depends on whether a missing value has to be inserted (int -> float, bool -> object):
# the metadata of such an operation must be derived from a NON-empty stand-in (meta_nonempty), an empty meta keeps the
# input dtypes.  Frame-wide on a frame that always holds int, uint, bool, float, object/str and datetime columns, and per
# column; run on sources with a unique sorted index and partitions of >= 3 rows (shift / diff / rolling need partitions at
# least as long as their window) with known divisions.
NAN_COLS = ["i", "u", "b", "f", "s", "t"]
NUM_COLS = ["i", "u", "b", "f"]


def _other_index(m):
    """A second collection on ANOTHER index (labels 12 and, for short frames, 9 are missing in the source)."""
    pdf = pd.DataFrame({"i": np.array([1, 2, 3, 4], dtype="int64"), "b": [True, False, True, False], "u": np.array([1, 2, 3, 4], dtype="uint8"),
                        "w": [1.5, 2.5, 3.5, 4.5]}, index=pd.Index([0, 4, 9, 12], dtype="int64"))
    return m.from_pandas(pdf, npartitions=2)


def _nan_family():
    fam = {}

    def add(name, fn):
        fam["nan:" + name] = fn

    for k in (1, -1, 2, 0):
        add("shift(%d):frame" % k, lambda x, m, k=k: x[NAN_COLS].shift(k))
        for c in NAN_COLS:
            add("shift(%d):%s" % (k, c), lambda x, m, k=k, c=c: x[c].shift(k))
    add("shift(1):all columns", lambda x, m: x.shift(1))
    add("shift(1):frame[i,b]", lambda x, m: x[["i", "b"]].shift(1))
    for k in (1, -1, 2):
        add("diff(%d):frame" % k, lambda x, m, k=k: x[["i", "u", "b", "f", "t", "d"]].diff(k))
        for c in ("i", "u", "b", "f", "t"):
            add("diff(%d):%s" % (k, c), lambda x, m, k=k, c=c: x[c].diff(k))
    for agg in ("sum", "mean", "max", "min", "count", "std"):
        add("rolling.%s:frame" % agg, lambda x, m, agg=agg: getattr(x[NUM_COLS].rolling(2), agg)())
    for c in NUM_COLS:
        add("rolling.sum:%s" % c, lambda x, m, c=c: x[c].rolling(2).sum())
        add("rolling.max:%s" % c, lambda x, m, c=c: x[c].rolling(2).max())
    add("rolling(3,min_periods=1).sum:frame", lambda x, m: x[NUM_COLS].rolling(3, min_periods=1).sum())
    for op in ("cumsum", "cumprod", "cummax", "cummin"):
        add("%s:frame" % op, lambda x, m, op=op: getattr(x[NUM_COLS], op)())
        for c in NUM_COLS:
            add("%s:%s" % (op, c), lambda x, m, op=op, c=c: getattr(x[c], op)())
    add("cummax:frame[i,t]", lambda x, m: x[["i", "t"]].cummax())
    add("cummin:t", lambda x, m: x.t.cummin())
    for op in ("ffill", "bfill"):
        add("%s:frame" % op, lambda x, m, op=op: getattr(x[NAN_COLS], op)())
        add("%s:f" % op, lambda x, m, op=op: getattr(x.f, op)())
    # reindex-like: alignment with a collection on another index inserts missing values into BOTH operands
    add("align(other index):frame", lambda x, m: x[["i", "b", "u"]].align(_other_index(m)[["i", "b", "u"]])[0])
    add("align(other index):i", lambda x, m: x.i.align(_other_index(m).i)[0])
    add("align(other index):b", lambda x, m: x.b.align(_other_index(m).b)[0])
    add("binop(other index):frame", lambda x, m: x[["i", "u"]] + _other_index(m)[["i", "u"]])
    add("binop(other index):i", lambda x, m: x.i + _other_index(m).i)
    add("binop(other index):b", lambda x, m: x.b & _other_index(m).b)
    add("add(fill_value, other index):i", lambda x, m: x.i.add(_other_index(m).i, fill_value=0))
    add("combine_first(other index):frame", lambda x, m: x[["i", "b", "u"]].combine_first(_other_index(m)[["i", "b", "u"]]))
    add("combine_first(other index):i", lambda x, m: x.i.combine_first(_other_index(m).i))
    add("concat(axis=1, other index)", lambda x, m: m.concat([x[["i", "b", "u"]], _other_index(m)[["w"]]], axis=1))
    add("join(outer, other index)", lambda x, m: x[["i", "b", "u"]].join(_other_index(m)[["w"]], how="outer"))
    add("join(left, other index)", lambda x, m: x[["i", "b"]].join(_other_index(m)[["w", "u"]].rename(columns={"u": "u2"}), how="left"))
    add("assign(other index)", lambda x, m: x[["i", "b"]].assign(z=_other_index(m).i, y=_other_index(m).b))
    add("where(cond on other index):frame", lambda x, m: x[["i", "b", "u"]].where(_other_index(m).w > 2))
    add("where(cond on other index):i", lambda x, m: x.i.where(_other_index(m).w > 2))
    add("mask(cond on other index):u", lambda x, m: x.u.mask(_other_index(m).w > 2))
    # per group
    add("groupby.shift:frame", lambda x, m: x.groupby("k")[["i", "b", "u", "s"]].shift(1))
    add("groupby.shift:i", lambda x, m: x.groupby("k").i.shift(1))
    add("groupby.first:frame", lambda x, m: x.groupby("k")[["i", "b", "u", "s", "t"]].first())
    add("groupby.last:frame", lambda x, m: x.groupby("k")[["i", "b", "u", "s", "t"]].last())
    add("groupby.cumsum:frame", lambda x, m: x.groupby("k")[["i", "b", "u", "f"]].cumsum())
    add("groupby.ffill:frame", lambda x, m: x.groupby("k")[["i", "f", "b"]].ffill())
    return fam


NAN_MENU = _nan_family()
MENU.update(NAN_MENU)


# ----------------------------------------------------------------------------- aligned operations, unknown divisions
# Index-aligned operations between two collections that are NOT co-aligned, with DIFFERENT partition counts in both orders
# (fewer first / more first) and unknown divisions on one or both sides: the declared npartitions / divisions must describe the
# partitions the lowered (shuffled / repartitioned) graph really builds.  Both operands carry the same unique labels 0..11, so
# no missing value is inserted (the dtype question belongs to the family above).  The entries do not read the source frame.
def _pair(m, na, nb, unknown):
    pa = pd.DataFrame({"i": np.arange(12, dtype="int64"), "f": np.arange(12) * 0.5, "b": np.arange(12) % 2 == 0}, index=pd.Index(range(12), dtype="int64"))
    pb = pd.DataFrame({"i": np.arange(12, dtype="int64") * 10, "f": np.arange(12) * 1.5, "b": np.arange(12) % 3 == 0}, index=pd.Index(range(12), dtype="int64"))
    a, b = m.from_pandas(pa, npartitions=na), m.from_pandas(pb, npartitions=nb)
    if unknown in ("both", "first"):
        a = a.clear_divisions()
    if unknown in ("both", "second"):
        b = b.clear_divisions()
    return a, b


def _align_family():
    ops = {
        "series+series": lambda a, b: a.i + b.i,
        "frame+frame": lambda a, b: a[["i", "f"]] + b[["i", "f"]],
        "add(fill_value)": lambda a, b: a.i.add(b.i, fill_value=0),
        "where": lambda a, b: a.f.where(b.b, 0.0),
        "mask": lambda a, b: a[["i", "f"]].mask(b.b, 0),
        "assign": lambda a, b: a.assign(z=b.i),
        "fillna(series)": lambda a, b: a.f.fillna(b.f),
        "filter(by other)": lambda a, b: a[b.b],
        "combine_first": lambda a, b: a[["i", "f"]].combine_first(b[["i", "f"]]),
        "loc(by other)": lambda a, b: a.loc[b.b],
    }
    fam = {}
    for (na, nb) in ((2, 4), (4, 2), (1, 3), (3, 1), (2, 3)):
        for unknown in ("both", "first", "second"):
            for name, f in ops.items():
                fam["align-unknown:%s:%dvs%d:%s" % (name, na, nb, unknown)] = (lambda x, m, f=f, na=na, nb=nb, unknown=unknown: f(*_pair(m, na, nb, unknown)))
    return fam


ALIGN_MENU = _align_family()
MENU.update(ALIGN_MENU)


def nan_site(opname):
    """Call site of a missing-value-family entry: the method and whether it runs frame-wide or on which column - not the period."""
    body = opname[4:]
    head, _, target = body.partition(":")
    target = "frame" if (not target or target.startswith("frame") or target == "all columns") else target
    base = head.split("(")[0]
    if base == "join":
        return "merge/join(unmatched rows)"
    if "other index" in head:
        # align / binary operators / add(fill_value) / assign / where / mask / combine_first / concat(axis=1) with an operand on
        # ANOTHER index - ONE root cause whatever the operation: the metadata of an aligned (outer-joined) expression is
        # evaluated on the operands' empty metas, where alignment inserts nothing, and keeps int / bool where NaN is inserted
        return "nan:alignment(other index)"
    if base in ("cumsum", "cumprod", "cummax", "cummin"):
        return "nan:cumulative:%s" % target
    method = base if base in ("shift", "diff") else head
    return "nan:%s:%s" % (method, target)


# documented limitations (message fragments): a program that hits one is skipped and counted, never judged
LIMITATIONS = ["Can only rolling dataframes with known divisions", "All NaN partition encountered", "Partition size is less than",
               "Not all divisions are known",
               "attempt to get arg",        # idxmin / idxmax of an EMPTY frame (two-step programs): pandas raises the same ValueError
               "cannot reindex on an axis with duplicate labels",      # combine_first / align on duplicate labels: pandas raises the same
               "Reindexing only valid with uniquely valued Index",       # concat(axis=1) / align on duplicate labels: pandas raises the same
               "Unable to concatenate DataFrame with unknown division",  # concat(axis=1) documents that it needs known divisions
               "Encountered all NA values"]  # idxmin / idxmax with an all-NaN partition raise (a result question: C37), nothing to describe

# call sites: menu entries that exercise ONE code path of dask share a site, so one root cause has one signature
SITE = {}
for _site, _names in {
    "where/mask(other=NaN)": ["i.where(b)", "i.mask(b)", "u.where(b)", "b.where(i>1)", "frame.where(frame>1)", "s.where(b)", "t.where(b)",
                              "where(other series)"],
    "map(dict, unmatched keys)": ["i.map(dict some)", "s.map(dict)", "i.map(dict all)", "i.map(dict->str)"],
    "str-accessor(int result)": ["str.len", "str.count", "str.find"],
    "merge/join(unmatched rows)": ["merge(outer)", "merge(right)", "merge(left)", "merge(index,outer)", "merge(indicator)", "join(outer)", "join"],
    "reduction(min/max)": ["i.min", "t.max", "s.min", "frame.min(num)", "frame.max(i,u)"],
    "cumulative(empty partition)": ["frame.cumsum", "i.cumsum", "u.cumsum", "i.cumprod", "i.cummax", "f.cumsum"],
    "cumulative(bool)": ["b.cumsum"],
}.items():
    for _n in _names:
        SITE[_n] = _site


def site_of(opname):
    if opname.startswith("align-unknown:"):
        return "aligned(unknown divisions, different partition counts)"      # one call site: the divisions / lowering of aligned expressions
    if opname.startswith("nan:"):
        return nan_site(opname)
    return SITE.get(opname, opname)


# first steps of the two-step programs: row-wise operations that keep all columns
FIRST = {
    "filter(i>0)": lambda x, m: x[x.i > 0],
    "filter(nothing)": lambda x, m: x[x.i < 0],
    "head(3)": lambda x, m: x.head(3, npartitions=-1, compute=False),
    "assign(f=f.fillna)": lambda x, m: x.assign(f=x.f.fillna(1.0)),
    "loc[1:4]": lambda x, m: x.loc[1:4],
    "repartition(1)": lambda x, m: x.repartition(npartitions=1),
    "map_partitions(identity)": lambda x, m: x.map_partitions(lambda df: df),
}


# ----------------------------------------------------------------------------- programs on real dask
def rich_source(spec):
    """spec {seed, n, layout, mode} -> dask frame."""
    import random
    ddm = dd()
    rng = random.Random(spec["seed"])
    pdf = rich_frame(rng, spec["n"])
    if spec.get("uniq"):
        pdf.index = pd.Index(range(spec["n"]), dtype="int64")      # unique sorted labels: partitions of exactly the given sizes
    if spec["mode"] == "from_pandas":
        return ddm.from_pandas(pdf, npartitions=max(1, len(spec["layout"])), sort=bool(pdf.index.is_monotonic_increasing))
    divs = None
    if spec["mode"] == "known":
        parts = split_rows(pdf, spec["layout"])
        divs = tuple(p.index[0] for p in parts) + (parts[-1].index[-1],)
    return parts_collection(split_rows(pdf, spec["layout"]), divs, key=("C42", spec["seed"], list(spec["layout"]), spec["mode"]))


def known_ok(pdf, layout):
    if not pdf.index.is_monotonic_increasing or not all(layout):
        return False
    pos = 0
    for k in layout[:-1]:
        pos += k
        if not pdf.index[pos - 1] < pdf.index[pos]:
            return False
    return True


def run_menu_program(prog):
    """prog {pid, src, first, op} -> list of records (one per step)."""
    ddm = dd()
    out = []
    try:
        with time_limit(60):
            x = rich_source(prog["src"])
            if "loc[" in prog["op"] + prog["first"] and not x.index.compute().is_monotonic_increasing:
                return [{"skip": "precondition: label slices need a sorted index"}]
            steps = ([("first:" + prog["first"], FIRST[prog["first"]])] if prog["first"] else []) + [(prog["op"], MENU[prog["op"]])]
            for i, (name, fn) in enumerate(steps):
                try:
                    x = fn(x, ddm)
                    obs = observe(x)
                except NotImplementedError as ex:
                    out.append({"skip": "NotImplementedError: %s" % str(ex)[:50]})
                    return out
                except Exception as ex:  # noqa: BLE001
                    if is_shim_error(ex):
                        out.append({"skip": "pyarrow shim"})
                        return out
                    lim = next((l for l in LIMITATIONS if l in str(ex)), None)
                    if lim:
                        out.append({"skip": "documented limitation: %s" % lim})
                        return out
                    out.append({"pid": prog["pid"], "step": i, "opname": name, "raised": type(ex).__name__, "msg": str(ex)[:160], "prog": prog})
                    return out
                out.append({"pid": prog["pid"], "step": i, "opname": name, "obs": obs, "prog": prog})
                if obs["meta"]["kind"] != "frame":
                    break
    except CallTimeout as ex:
        out.append({"pid": prog["pid"], "step": len(out), "opname": prog["op"], "raised": "CallTimeout", "msg": str(ex), "prog": prog})
    return out


def run_pipeline_program(prog):
    """A seeded C36 pipeline: every intermediate described.  Raising programs are C36's business (skipped here)."""
    out = []
    try:
        with time_limit(60):
            x = C36.build(prog["T"], prog["layout"], prog["mode"], prog["divs"], ("C42p", prog["pid"]))
            for i, op in enumerate(prog["steps"]):
                x = apply_op(x, op, lazy=True)
                obs = observe(x)
                out.append({"pid": "p%d" % prog["pid"], "step": i, "opname": pipeline_site(op, prog["steps"][:i + 1]), "obs": obs,
                            "prog": {k: prog[k] for k in ("pid", "T", "layout", "mode", "divs", "steps")}})
    except Exception as ex:  # noqa: BLE001 - includes NotImplementedError / shim errors / CallTimeout
        out.append({"skip": "pipeline step raised (%s): judged by C36" % type(ex).__name__})
    return out


def pipeline_site(op, prefix=()):
    """Call site of a C36 pipeline step: the data-dependent-dtype expression it contains, else its operation tag."""
    if any(C36.has_expr(o, "idx") for o in prefix):
        return "raw-index-array"       # a comparison on a dask Index yields a dask Array (see the C36 finding of that name)
    if C36.has_expr(op, "where") or C36.has_expr(op, "mask"):
        return "i.where(b)"            # -> site where/mask(other=NaN)
    if C36.has_expr(op, "map"):
        return "i.map(dict some)"      # -> site map(dict, unmatched keys)
    return C36.op_tag(op)


def _work(prog):
    if "steps" in prog:
        return run_pipeline_program(prog)
    return run_menu_program(prog)


# ----------------------------------------------------------------------------- classification
def classify(rec, clauses):
    """Call site = the operation that produced the collection; the failing clause group; whether only
    single partitions disagree (an empty / special partition) or the whole result does."""
    cs = set(clauses)
    if rec["opname"] == "raw-index-array":
        return "raw-index-array"          # one input class (see the C36 finding), whatever field disagrees
    if "Raised" in cs:
        return "%s:raised" % site_of(rec["opname"])
    whole = cs & {"Kind", "Cols", "Dtypes", "IName", "IDtype"}
    use = whole or cs
    group = ("kind" if use & {"Kind", "PKind"} else "columns" if use & {"Cols", "PCols"} else "dtypes" if use & {"Dtypes", "PDtypes"}
             else "index-name" if use & {"IName", "PIName"} else "index-dtype" if use & {"IDtype", "PIDtype"} else "npartitions")
    # ONE signature per (call site, field): whether a given sample shows the disagreement in the computed whole or only in some
    # partitions depends on the data (which partition holds a missing value), not on the root cause.  (The historical
    # "...:partition-only" entries of known_findings.d/C42.json are therefore no longer produced.)
    return "%s:%s:computed" % (site_of(rec["opname"]), group)


# ----------------------------------------------------------------------------- run
def design_check(ctx):
    spec, cfg = ctx.model(ctx.spec("frame", "FrameMetaMC.tla"), {"Classes": {"i", "f", "s"}, "Names": {"a", "b"}},
                          invariants=["BasesWellFormed", "TruthfulAccepted", "Bites", "BlamesOnlyTheCorruptedField"])
    cases, _ = ctx.tlc_cases(spec, cfg, label="design:invariant accepts truthful, blames corrupted field", timeout=900)
    ctx.extra["design_observations_enumerated"] = len(cases)


def gen_programs(ctx, n_layouts, n_two, n_pipes, n_nan=2):
    from .C44 import weak_comp
    rng = ctx.rng
    progs = []
    srcs = []
    for j in range(n_layouts):
        n = rng.randint(5, 10)
        seed = rng.randint(0, 10 ** 6)
        import random
        pdf = rich_frame(random.Random(seed), n)
        layout = [n] if j % 3 == 0 else ([2, 0, n - 2] if j % 3 == 1 else weak_comp(rng, n, rng.randint(2, 4)))
        mode = ["unknown", "known", "from_pandas"][j % 3]
        if mode == "known" and not known_ok(pdf, layout):
            mode = "unknown"
        srcs.append({"seed": seed, "n": n, "layout": layout, "mode": mode})
    for name in ALIGN_MENU:                 # these entries build their own operands: once each
        progs.append({"pid": "m%d" % len(progs), "src": {"seed": 1, "n": 5, "layout": [5], "mode": "from_pandas"}, "first": "", "op": name})
    for name in MENU:
        if name in NAN_MENU or name in ALIGN_MENU:
            continue
        for s in srcs:
            progs.append({"pid": "m%d" % len(progs), "src": s, "first": "", "op": name})
    # the missing-value family on sources whose partitions are long enough for every window (>= 3 rows, known divisions)
    nan_srcs = []
    for j in range(n_nan):
        n = rng.randint(8, 10)
        layout = [[n], [4, n - 4], [3, 3, n - 6], [n - 3, 3]][j % 4]
        nan_srcs.append({"seed": rng.randint(0, 10 ** 6), "n": n, "layout": layout, "mode": "known" if j % 2 else "from_pandas", "uniq": True})
    for name in NAN_MENU:
        for s in nan_srcs:
            progs.append({"pid": "m%d" % len(progs), "src": s, "first": "", "op": name})
    names, firsts = sorted(MENU), sorted(FIRST)
    gentle = ["assign(f=f.fillna)", "map_partitions(identity)"]      # keep every partition as long as it was
    for _ in range(n_two):
        name = rng.choice(names)
        if name in ALIGN_MENU:
            continue
        if name in NAN_MENU:
            progs.append({"pid": "m%d" % len(progs), "src": rng.choice(nan_srcs), "first": rng.choice(gentle), "op": name})
        else:
            progs.append({"pid": "m%d" % len(progs), "src": rng.choice(srcs), "first": rng.choice(firsts), "op": name})
    pipes = [C36.gen_program(rng, i) for i in range(n_pipes)]
    return progs, pipes


def decide(ctx, recs, label):
    """-> {id: clauses}; identical observations share one verdict."""
    uniq, ids = {}, {}
    for r in recs:
        key = json.dumps(r["obs"], sort_keys=True)
        uid = uniq.setdefault(key, "u%d" % len(uniq))
        ids.setdefault(uid, []).append(r)
    spec, cfg = ctx.model(ctx.spec("frame", "FrameMetaTrace.tla"), {})
    ulist = [{"id": uid, "obs": json.loads(key)} for key, uid in uniq.items()]
    rej = ctx.tlc_validate(spec, ulist, cfg, label=label, timeout=2400) if ulist else {}
    ctx.traces += len(recs) - len(ulist)
    out = []
    for uid, texts in rej.items():
        clauses = [c for c in CLAUSES if '"%s"' % c in " ".join(texts)]
        for r in ids[uid]:
            out.append((r, clauses))
    return out


def check_programs(ctx, progs, label):
    """-> (violations [(rec, clauses)], records, skips)."""
    recs, skips, raised = [], [], []
    for prog, out in zip(progs, pmap(_work, progs, chunk=8)):
        for r in out:
            if "skip" in r:
                skips.append(r["skip"])
            elif "raised" in r:
                raised.append(r)
            else:
                recs.append(r)
    bad = decide(ctx, recs, label)
    # only the FIRST failing step of a program is reported: later steps inherit its metadata
    first = {}
    for r, cl in bad:
        if r["pid"] not in first or r["step"] < first[r["pid"]][0]["step"]:
            first[r["pid"]] = (r, cl)
    viol = list(first.values()) + [(r, ["Raised"]) for r in raised if r["pid"] not in first]
    return viol, recs, skips


def run(ctx):
    dd()
    C36.quiet()
    import dask
    dask.config.set({"temporary-directory": ctx.scratch})
    design_check(ctx)
    progs, pipes = gen_programs(ctx, n_layouts=ctx.pick(3, 9), n_two=ctx.pick(160, 3000), n_pipes=ctx.pick(90, 1500), n_nan=ctx.pick(2, 8))
    viol, recs, skips = check_programs(ctx, progs + pipes, "observations: _meta vs computed object vs partitions")
    for s in skips:
        ctx.skip(s)
    for r in recs:
        ctx.count((r["pid"], r["step"]), True)
    for r, clauses in viol:
        what = ("%s: %s (meta %s | computed %s)" % (r["opname"], clauses, r["obs"]["meta"], r["obs"]["whole"])) if "obs" in r else \
               ("%s raised %s: %s" % (r["opname"], r["raised"], r.get("msg", "")))
        ctx.violation(classify(r, clauses), what[:600], {"prog": r["prog"], "step": r["step"], "opname": r["opname"], "clauses": clauses,
                                                        "observed": r.get("obs", {"raised": r.get("raised")})})
    for r in recs[:2]:
        ctx.sample({"op": r["opname"], "meta": r["obs"]["meta"], "nparts": r["obs"]["nparts"]})
    ctx.exhaustive = False
    ctx.extra["program_counts"] = {"menu_entries": len(MENU), "missing_value_family_entries": len(NAN_MENU), "aligned_unknown_divisions_entries": len(ALIGN_MENU), "menu_programs": len(progs), "c36_pipelines": len(pipes), "records": len(recs)}
    ctx.rule = ("cases = collections produced by recorded programs (menu entry x seeded source / partitioning, two-step programs, every "
                "intermediate of seeded C36 pipelines); each is one observation (meta, computed, partitions); distinct by (program, step)")
    ctx.assumptions = ["TLC evaluates the invariant correctly", "the description projection maps dtypes to classes as documented",
                       "a program that raises is judged by the operator checks, not here (menu programs excepted)"]


# ----------------------------------------------------------------------------- replay
def replay(ctx, obj):
    dd()
    import dask
    dask.config.set({"temporary-directory": ctx.scratch})
    C36.quiet()
    c = obj["case"]
    out = _work(c["prog"])
    recs = [r for r in out if "obs" in r and r["step"] == c["step"]]
    for r in out:
        print({k: v for k, v in r.items() if k != "prog"})
    if any("raised" in r and r["step"] == c["step"] for r in out):
        return True
    bad = decide(ctx, recs, "replay")
    print("rejected clauses:", [cl for _, cl in bad])
    return bool(bad)


# ----------------------------------------------------------------------------- selftest
_MUTANTS = {}
_LAST_TAG = [None]


class patched_attr:
    """Temporarily set a class attribute (in-memory mutant); an attribute the class only inherits is removed again."""

    def __init__(self, targets, name, value):
        self.targets, self.name, self.value = list(targets), name, value

    def __enter__(self):
        self.saved = [vars(t).get(self.name, patched_attr) for t in self.targets]
        for t in self.targets:
            setattr(t, self.name, self.value)

    def __exit__(self, *a):
        for t, v in zip(self.targets, self.saved):
            if v is patched_attr:
                delattr(t, self.name)
            else:
                setattr(t, self.name, v)


def _work_tagged(pair):
    """selftest worker: one program on the unmutated code or under the in-memory mutant named by its tag."""
    import gc
    tag, prog = pair
    if _LAST_TAG[0] != tag:
        gc.collect()                 # expression objects (and their cached _meta) of the previous mutant must not be reused
        _LAST_TAG[0] = tag
    if tag in _MUTANTS:
        targets, attr, mut = _MUTANTS[tag]
        with patched_attr(targets, attr, mut):
            return _work(prog)
    return _work(prog)


def selftest(ctx):
    """Binding demonstration: the design check, then a small program set on the unmutated code and under in-memory
    mutants of the lazy-metadata code (the `_meta` of single expression classes), and corrupted copies of a genuine
    observation - all decided by ONE TLC run."""
    import functools
    dd()
    C36.quiet()
    import dask
    dask.config.set({"temporary-directory": ctx.scratch})       # disk-based shuffles must not litter /tmp
    import dask.dataframe.dask_expr._expr as ex
    from ..divisions import mutate
    design_check(ctx)
    srcs = [{"seed": 5, "n": 8, "layout": [3, 0, 5], "mode": "unknown"}, {"seed": 11, "n": 9, "layout": [4, 5], "mode": "from_pandas"}]
    names = ["project[i,s]", "project[s,i] (reordered)", "filter(i>1)", "assign(f+i)", "i+f", "i.astype(f4)", "f.astype(str)", "frame.astype(dict)", "b.astype(i8)", "rename(cols)",
             "series.rename", "reset_index", "series.reset_index", "rename_axis", "to_frame", "to_frame(name)", "f.fillna(0)", "isna", "i.sum",
             "frame.sum(num)", "gb.sum", "gb.i.sum", "merge(on k)", "concat(rows)", "set_index(k)", "sort_values(i)", "str.upper", "dt.year", "cat.codes",
             "i.cumsum", "drop(cols)", "index", "loc[1:3,cols]"]
    progs = [{"pid": "m%d" % i, "src": src, "first": "", "op": name} for i, (src, name) in enumerate((a, b) for a in srcs for b in names)]
    # the missing-value family on a source with long partitions (shift / diff need partitions as long as their window)
    nan_src = {"seed": 7, "n": 10, "layout": [3, 3, 4], "mode": "known", "uniq": True}
    nan_names = ["nan:shift(1):frame", "nan:shift(-1):frame", "nan:shift(0):frame", "nan:shift(1):i", "nan:shift(1):b", "nan:shift(1):f", "nan:shift(1):s",
                 "nan:shift(1):all columns", "nan:diff(1):frame", "nan:diff(1):i", "nan:diff(-1):b", "nan:rolling.sum:frame", "nan:ffill:frame",
                 "nan:groupby.shift:frame"]
    progs += [{"pid": "n%d" % i, "src": nan_src, "first": "", "op": name} for i, name in enumerate(nan_names)]
    align_names = [n for n in ALIGN_MENU if n.split(":")[1] in ("series+series", "where", "assign", "filter(by other)") and n.split(":")[2] in ("2vs4", "4vs2")]
    progs += [{"pid": "a%d" % i, "src": srcs[1], "first": "", "op": name} for i, name in enumerate(align_names)]

    def meta_prop(fn):
        cp = functools.cached_property(fn)
        cp.__set_name__(None, "_meta")
        return cp

    def uses(*subs):
        return lambda p: any(x in p["op"] for x in subs)

    mutants = [
        ("AsType._meta: the conversion is dropped from the metadata (meta = the input's meta)", [ex.AsType], "_meta",
         meta_prop(lambda self: self.frame._meta), uses("astype")),
        ("RenameFrame._meta: renamed columns missing from the metadata", [ex.RenameFrame], "_meta",
         meta_prop(lambda self: self.frame._meta), uses("rename(cols)")),
        ("Projection._meta: list projection keeps the input column ORDER instead of the requested one", [ex.Projection], "_meta",
         meta_prop(lambda self: (lambda m, c: m[[x for x in m.columns if x in c]] if isinstance(c, list) else m[c])(self.frame._meta, self.operand("columns"))),
         uses("loc[1:3,cols]", "project[", "frame.astype", "frame.sum")),
        ("RenameAxis._meta: the new index name is missing from the metadata", [ex.RenameAxis], "_meta",
         meta_prop(lambda self: self.frame._meta), uses("rename_axis")),
        ("ToFrame._meta: the name= argument is ignored in the metadata", [ex.ToFrame], "_meta",
         meta_prop(lambda self: self.frame._meta.to_frame()), uses("to_frame(name)")),
        ("calc_divisions_for_align: unknown divisions declared with the partition count of the FIRST operand instead of the largest", [ex],
         "calc_divisions_for_align", mutate(ex.calc_divisions_for_align, "max(df.npartitions for df in dfs)", "dfs[0].npartitions"), uses("align-unknown:")),
        ("Shift._meta: evaluated on the EMPTY meta instead of meta_nonempty (no missing value to insert: int / bool dtypes kept)", [ex.Shift], "_meta",
         meta_prop(lambda self: ex.make_meta(self.frame._meta.shift(**self.kwargs))), uses("nan:shift")),
    ]
    tagged = [("baseline", p) for p in progs]
    for name, targets, attr, mut, select in mutants:
        _MUTANTS[name] = (targets, attr, mut)
        tagged += [(name, p) for p in progs if select(p)]
    try:
        results = pmap(_work_tagged, tagged, chunk=16)
    finally:
        _MUTANTS.clear()
    recs, raised = [], []
    for (tag, prog), out in zip(tagged, results):
        for r in out:
            if "obs" in r:
                r["obs"] = dict(r["obs"], tag=tag)       # records of different mutants are never pooled
                recs.append(r)
            elif "raised" in r:
                raised.append((tag, r))
    # corrupted copies of a genuine observation
    good = next(r for r in recs if r["obs"]["tag"] == "baseline" and r["opname"] == "rename(cols)" and len(r["obs"]["parts"]) >= 2)
    o = {k: v for k, v in good["obs"].items() if k != "tag"}
    variants = {
        "genuine": o,
        "computed kind changed": dict(o, whole=dict(o["whole"], kind="series")),
        "column order of the metadata changed": dict(o, meta=dict(o["meta"], cols=o["meta"]["cols"][::-1])),
        "dtype class of one partition changed": dict(o, parts=[o["parts"][0]] + [dict(o["parts"][1], dtypes=["M"] + o["parts"][1]["dtypes"][1:], rows=3)] + o["parts"][2:]),
        "index name of the computed object changed": dict(o, whole=dict(o["whole"], iname="zz")),
        "a partition lost (event dropped)": dict(o, parts=o["parts"][:-1]),
    }
    for name, ob in variants.items():
        recs.append({"pid": "rec", "step": 0, "opname": "record", "obs": dict(ob, tag="record:" + name), "prog": {}})
    bytag = {}
    for r, clauses in decide(ctx, recs, "selftest"):
        tag = r["obs"]["tag"]
        if tag.startswith("record:"):
            bytag.setdefault(tag, {})[str(clauses)] = 1
            continue
        sig = classify(r, clauses)
        if sig not in ctx.known:
            d = bytag.setdefault(tag, {})
            d[sig] = d.get(sig, 0) + 1
    for tag, r in raised:
        sig = classify(r, ["Raised"])
        if sig not in ctx.known:
            bytag.setdefault(tag, {})[sig] = 1
    ok = True
    base = bytag.get("baseline", {})
    print("selftest C42 baseline (unmutated code, %d programs): violations outside known findings %s -> %s" % (len(progs), base, "ok" if not base else "UNEXPECTED"))
    ok &= not base
    for name, *_ in mutants:
        got = bytag.get(name, {})
        print("selftest C42 mutant [%s]: %s -> %s" % (name, dict(list(got.items())[:3]), "DETECTED" if got else "MISSED"))
        ok &= bool(got)
    acc = "record:genuine" not in bytag
    print("selftest C42 trace: genuine observation accepted -> %s" % ("ok" if acc else "UNEXPECTED %s" % bytag.get("record:genuine")))
    ok &= acc
    for name in list(variants)[1:]:
        got = bytag.get("record:" + name)
        print("selftest C42 corrupted record [%s]: %s" % (name, "REJECTED %s" % list(got) if got else "ACCEPTED (missed)"))
        ok &= bool(got)
    print("selftest C42: %s" % ("all binding demonstrations hold" if ok else "FAILED"))
    return 0 if ok else 1
