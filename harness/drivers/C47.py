"""C47 - dataframe file round trips preserve data (CSV half; the parquet half is NOT decided: pyarrow is absent).

specs/frame/CsvBlocks.tla: CSV texts as byte sequences, ParseCsv (quote-aware), WriteCsv (pandas' QUOTE_MINIMAL),
block-wise reading = TextBlocks' delimiter-aligned blocks (C50) each parsed with the header line in front, and the
typed-frame <-> files round trip of to_csv / read_csv.  TLC (CsvBlocksMC.tla) enumerates every small table over a menu
of cell strings (quoted commas, embedded quotes, empty fields, cells that begin like the header) and proves, for EVERY
blocksize, that the block-wise read equals the parse of the whole text; it enumerates the harness-chosen typed frames x
every partitioning x single_file x write_index with the files that must be written and the rows that must come back.
Every case is replayed into dask (read_csv with every / sampled blocksize; to_csv + read_csv), and every observation is
decided by TLC (CsvBlocksTrace.tla) with a Python twin as cross-check.  pandas is only the reference *guard*."""
from __future__ import annotations

import csv
import gc
import glob
import io
import itertools
import math
import os
import random
import shutil

from ..core import TLA, MachineryError
from ..par import pmap
from ..tlc import tla_value

META = {
    "title": "DataFrame file round trips preserve data (CSV decided; parquet not reachable)",
    "design_ref": "DESIGN.md §4.4 C47",
    "technique": "TLA+ semantics of CSV parsing / writing and of block-wise reading (reusing the read_bytes contract of C50); TLC "
                 "enumerates all small tables x every blocksize and typed frames x all partitionings x writer options; replay into "
                 "dd.read_csv / to_csv + TLC validation of every recorded call",
    "level_text": "CSV half only. Small-scope: TLC enumerates every table of 1 column x <= 3 rows (thorough 4), 2 x <= 2 (quick: a 4-string menu), 3 x <= 1 over a "
                  "menu of 7 cell strings (digit, letters, quoted comma, embedded quote, empty, two cells that begin like the header) "
                  "written as a text of <= 24 bytes, with and without final newline, and proves parse(write) = table and block-wise "
                  "read = whole parse for EVERY blocksize 1..len+1; seeded typed frames (<= 4 rows x <= 3 columns of ints, dyadic floats "
                  "k/8, strings with commas / quotes / spaces, NA) x every partitioning into <= 4 partitions x single_file x write_index "
                  "with the files to be written and the rows to come back. dask: read_csv(dtype=str) of the texts for every blocksize "
                  "(the shortest texts and a seeded selection; a few blocksizes for the others) with sample default/False; to_csv (single file, glob + name_function, directory) and "
                  "read_csv back (inferred / explicit dtypes, default / tiny blocksize). Reader options: header in {infer,0,1,2,None} x names "
                  "absent/given x skiprows in {0,1,2,[0],[1]} x comment='#' absent/given (100 combinations) x seeded small files with junk / "
                  "comment / blank lines before the header and blank lines between the rows; the TLA+ reference ReadOpts (which physical "
                  "lines are skipped, which remaining line is the header, which are data) is guarded by pandas.read_csv with the same "
                  "options on the whole file, and dask is run for every blocksize of a seeded selection (a few blocksizes for the others), "
                  "with the default sample, sample=False and a sample of a few bytes. TLC decides every record.",
    "level_note": "NOT DECIDED: the parquet half (to_parquet / read_parquet need pyarrow, which is not installed and cannot be; "
                  "dask.dataframe itself is imported through an inert pyarrow shim). Trusted: TLC, the byte-level projection of frames, "
                  "pandas' own parser / writer inside one block (guarded: pandas.read_csv and pandas.to_csv must agree with the TLA+ "
                  "parse / write on every case), Python's csv module in the twin judge. Not modelled: line terminators inside quoted "
                  "fields (documented as unsupported with blocks), CRLF, partial-line comments, skip_blank_lines=False, skipfooter, "
                  "callable skiprows, header lists (documented restrictions), compression, include_path_column, "
                  "datetimes, partition_on (parquet only). Values are compared, not dtypes (an int column read back as float or object "
                  "with equal values passes); 'Mismatched dtypes' errors of read_csv's sample-based inference are a documented "
                  "limitation and are skipped; so are reader-option cases in which skiprows is given and the first block, or the sample "
                  "(cut down to the blocksize by read_pandas), does not hold the skipped lines and the header line ('Unexpected behavior "
                  "can result from passing skiprows when blocksize is smaller than sample size'), and 'Sample is not large enough'. "
                  "Where pandas raises on the whole file nothing is demanded.",
}

MENU = [[97, 44, 98], [97, 98], [49], [], [120, 34, 121], [98, 55], [97]]     # a,b  ab  1  (empty)  x"y  b7  a
STRMENU = ["a", "a,b", 'x"y', "b c"]                                             # CsvBlocks!StrMenu
NAMES = ["a", "b", "c"]
_TMP = None
_SEQ = itertools.count()


def _dir():
    d = os.path.join(_TMP, "p%d" % os.getpid())
    os.makedirs(d, exist_ok=True)
    return d


def _enc(s):
    return list(s.encode("utf-8"))


# ---------------------------------------------------------------- text family

def pandas_parse(text_bytes):
    import pandas as pd
    if not text_bytes:
        return None
    df = pd.read_csv(io.BytesIO(text_bytes), dtype=str, keep_default_na=False)
    return [_enc(c) for c in df.columns], [[_enc(v) for v in row] for row in df.values.tolist()]


def observe_blocks(call):
    """dd.read_csv(file, blocksize=bs, dtype=str, keep_default_na=False) -> {raised, hdr, rows}"""
    from ..frames import dd, is_shim_error
    ddm = dd()
    # a fresh name per call: dask names (and caches) expressions by path / size / mtime tokens
    p = os.path.join(_dir(), "t%d.csv" % next(_SEQ))
    with open(p, "wb") as f:
        f.write(bytes(call["text"]))
    try:
        kw = {"blocksize": call["bs"], "dtype": str, "keep_default_na": False}
        if call["sample"] is False:
            kw["sample"] = False
        g = ddm.read_csv(p, **kw).compute(scheduler="sync")
        hdr = [_enc(str(c)) for c in g.columns]
        rows = [[_enc(v) if isinstance(v, str) else [0] for v in row] for row in g.values.tolist()]
        return {"raised": False, "hdr": hdr, "rows": rows}
    except NotImplementedError as ex:
        return {"skip": "NotImplementedError: " + str(ex)[:60]}
    except Exception as ex:  # noqa: BLE001
        if is_shim_error(ex):
            raise MachineryError("pyarrow shim: %r" % (ex,))
        return {"raised": True, "hdr": [], "rows": [], "msg": "%s: %s" % (type(ex).__name__, str(ex)[:160])}
    finally:
        try:
            os.remove(p)
        except OSError:
            pass


def text_feature(text):
    lines = bytes(text).split(b"\n")
    hdr, rest = lines[0], [x for x in lines[1:] if x]
    if any(x == hdr for x in rest):
        return "row-equals-header-line"
    if any(x.startswith(hdr.rstrip()) for x in rest):
        return "row-begins-with-header-text"
    if not bytes(text).endswith(b"\n"):
        return "no-final-newline"
    if b'""' in bytes(text)[len(hdr):]:
        return "embedded-quote-or-empty-quoted"
    if b'"' in bytes(text):
        return "quoted-field"
    return "plain"


# ---------------------------------------------------------------- reader-option family

GIVEN = ["m", "n", "o"]


def option_universe():
    """header in {infer, 0, 1, 2, None} x names in {absent, given} x skiprows in {0, 1, 2, [0], [1]} x comment in {no, '#'}
    (o.hdr: -1 infer, -2 None; o.skip: the skipped physical line numbers; o.sf: how skiprows is spelled)"""
    out = []
    for hdr in (-1, 0, 1, 2, -2):
        for names in (False, True):
            for skip, sf in (([], "none"), ([0], "int"), ([0, 1], "int"), ([0], "list"), ([1], "list")):
                for comment in (False, True):
                    out.append({"hdr": hdr, "names": names, "skip": skip, "sf": sf, "comment": comment})
    return out


def random_optfile(rng, nc=None):
    """a small file: 0..2 junk / comment / blank lines, the header line, 1..3 data rows (an optional blank line between
    them), with or without final newline; every line has nc fields whatever it is used as"""
    nc = nc or rng.choice([1, 1, 2])
    if nc == 1:
        junk, com, hdr, menu = "q", "#c", "a", ["1", "ab", '"a,b"', "b7", "7"]
    else:
        junk, com, hdr, menu = "x,y", "#c,d", "a,b", ["1,2", "ab,b7", '"a,b",z', "3,w"]
    top = [rng.choice([junk, junk, com, ""]) for _ in range(rng.choice([0, 1, 1, 2, 2]))]
    rows = [rng.choice(menu) for _ in range(rng.choice([1, 2, 2, 3]))]
    if len(rows) > 1 and rng.random() < 0.25:
        rows.insert(rng.randint(1, len(rows) - 1), "")
    text = "\n".join(top + [hdr] + rows) + ("\n" if rng.random() < 0.8 else "")
    return list(text.encode())


def opt_kwargs(o, nc):
    kw = {}
    if o["hdr"] == -2:
        kw["header"] = None
    elif o["hdr"] >= 0:
        kw["header"] = o["hdr"]
    if o["names"]:
        kw["names"] = GIVEN[:nc]
    if o["skip"]:
        kw["skiprows"] = len(o["skip"]) if o["sf"] == "int" else list(o["skip"])
    if o["comment"]:
        kw["comment"] = "#"
    return kw


def ncols_of(text):
    """number of fields of the lines of an option file (all lines that are not blank have the same number)"""
    for line in bytes(text).decode().split("\n"):
        if line:
            return len(next(csv.reader([line])))
    return 1


def _frame_obs(g):
    hdr = [_enc(str(c)) for c in g.columns]
    rows = [[_enc(v) if isinstance(v, str) else [0] for v in row] for row in g.values.tolist()]
    return hdr, rows


def pandas_opts(text, o):
    """pandas.read_csv on the whole file with the same options: (err, hdr, rows)"""
    import pandas as pd
    try:
        df = pd.read_csv(io.BytesIO(bytes(text)), dtype=str, keep_default_na=False, **opt_kwargs(o, ncols_of(text)))
    except Exception:  # noqa: BLE001
        return True, [], []
    hdr, rows = _frame_obs(df)
    return False, hdr, rows


def observe_opts(call):
    """dd.read_csv(file, blocksize=bs, <options>, dtype=str, keep_default_na=False) -> {raised, hdr, rows}"""
    import warnings

    from ..frames import dd, is_shim_error
    ddm = dd()
    p = os.path.join(_dir(), "o%d.csv" % next(_SEQ))
    with open(p, "wb") as f:
        f.write(bytes(call["text"]))
    try:
        kw = {"blocksize": call["bs"], "dtype": str, "keep_default_na": False}
        kw.update(opt_kwargs(call["o"], ncols_of(call["text"])))
        if call["sample"] is not None:
            kw["sample"] = call["sample"]
        with warnings.catch_warnings():
            warnings.simplefilter("ignore")
            g = ddm.read_csv(p, **kw).compute(scheduler="sync")
        hdr, rows = _frame_obs(g)
        return {"raised": False, "hdr": hdr, "rows": rows}
    except NotImplementedError as ex:
        return {"skip": "NotImplementedError: " + str(ex)[:60]}
    except Exception as ex:  # noqa: BLE001
        if is_shim_error(ex):
            raise MachineryError("pyarrow shim: %r" % (ex,))
        if isinstance(ex, ValueError) and "Sample is not large enough" in str(ex):
            return {"skip": "read_csv: 'Sample is not large enough to include at least one row of data' (documented; increase sample=)"}
        return {"raised": True, "hdr": [], "rows": [], "msg": "%s: %s" % (type(ex).__name__, str(ex)[:160])}
    finally:
        try:
            os.remove(p)
        except OSError:
            pass


# ---------------------------------------------------------------- frame family

def random_frames(rng, n, tiny):
    """typed frames: [{types, names, rows: [{idx, cells}]}]; `tiny`: also every 0/1-row frame of the simplest types"""
    types_menu = [[1], [3], [2], [1, 3], [2, 3], [3, 1], [3, 3], [1, 2, 3], [3, 2, 1]]

    def cell(t, allow_na=True):
        if t == 1:
            return [1, rng.choice([0, 7, 12, 3])]
        if t == 2:
            return [0, 0] if allow_na and rng.random() < 0.2 else [2, rng.choice([1, 4, 12, 16, 27, 0])]
        return [0, 0] if allow_na and rng.random() < 0.2 else [3, rng.randint(1, len(STRMENU))]
    frames = []
    if tiny:
        for ts in types_menu[:5]:
            frames.append({"types": ts, "names": [_enc(x) for x in NAMES[:len(ts)]], "rows": []})
            frames.append({"types": ts, "names": [_enc(x) for x in NAMES[:len(ts)]], "rows": [{"idx": 5, "cells": [cell(t, False) for t in ts]}]})
        frames.append({"types": [3], "names": [_enc("a")], "rows": [{"idx": 0, "cells": [[0, 0]]}, {"idx": 1, "cells": [[3, 1]]}]})
    while len(frames) < n:
        ts = rng.choice(types_menu)
        nr = rng.choice([1, 2, 2, 3, 3, 4, 4, 4])
        idxs = rng.sample(range(0, 13), nr) if rng.random() < 0.5 else list(range(nr))
        frames.append({"types": ts, "names": [_enc(x) for x in NAMES[:len(ts)]],
                       "rows": [{"idx": i, "cells": [cell(t) for t in ts]} for i in idxs]})
    return frames


def to_pandas(fr):
    import numpy as np
    import pandas as pd
    cols = {}
    for j, (t, name) in enumerate(zip(fr["types"], fr["names"])):
        vals = [r["cells"][j] for r in fr["rows"]]
        if t == 1:
            cols[bytes(name).decode()] = pd.Series([v[1] for v in vals], dtype="int64")
        elif t == 2:
            cols[bytes(name).decode()] = pd.Series([np.nan if v[0] == 0 else v[1] / 8 for v in vals], dtype="float64")
        else:
            cols[bytes(name).decode()] = pd.Series([None if v[0] == 0 else STRMENU[v[1] - 1] for v in vals], dtype=object)
    df = pd.DataFrame(cols)
    df.index = pd.Index([r["idx"] for r in fr["rows"]], dtype="int64")
    return df


def typed(v, t):
    """a value read back -> typed cell of the specification ([9, 0] = not representable)"""
    try:
        if v is None or (isinstance(v, float) and math.isnan(v)):
            return [0, 0]
        if t == 1:
            if isinstance(v, str) or isinstance(v, bool):
                return [9, 0]
            return [1, int(v)] if float(v) == int(v) and v >= 0 else [9, 0]
        if t == 2:
            if isinstance(v, str) or isinstance(v, bool):
                return [9, 0]
            k = float(v) * 8
            return [2, int(k)] if k == int(k) and k >= 0 else [9, 0]
        return [3, STRMENU.index(v) + 1] if isinstance(v, str) and v in STRMENU else [9, 0]
    except Exception:  # noqa: BLE001
        return [9, 0]


def typed_rows(df, types, wi):
    ts = ([1] if wi else []) + list(types)
    rows = df.values.tolist() if len(df.columns) else [[] for _ in range(len(df))]
    out = []
    for row in rows:
        if len(row) != len(ts):
            out.append([[9, 0]])
        else:
            out.append([typed(v, t) for v, t in zip(row, ts)])
    return out


def _pad(i):
    return "p%02d" % i


def observe_roundtrip(call):
    """to_csv then read_csv -> {raised, files (bytes), back (typed rows)[, msg, skip]}"""
    from ..frames import dd, from_parts, is_shim_error, split_rows
    ddm = dd()
    fr, lay = call["fr"], call["lay"]
    d = os.path.join(_dir(), "rt%d" % next(_SEQ))
    shutil.rmtree(d, ignore_errors=True)
    os.makedirs(d)
    try:
        pdf = to_pandas(fr)
        ddf = from_parts(split_rows(pdf, lay))
        ckw = {"compute_kwargs": {"scheduler": "sync"}}
        if call["single"]:
            target, pattern = os.path.join(d, "out.csv"), os.path.join(d, "out.csv")
            names = ddf.to_csv(target, single_file=True, index=call["wi"], **ckw)
        elif call["how"] == "dir":
            target, pattern = os.path.join(d, "sub"), os.path.join(d, "sub", "*.part")
            names = ddf.to_csv(target, index=call["wi"], **ckw)
        else:
            target = pattern = os.path.join(d, "x-*.csv")
            names = ddf.to_csv(target, index=call["wi"], name_function=_pad if call["how"] == "pad" else None, **ckw)
        files = []
        for n in names:
            with open(n, "rb") as f:
                files.append(list(f.read()))
        on_disk = sorted(glob.glob(pattern))
        if [os.path.normpath(x) for x in on_disk] != [os.path.normpath(x) for x in names]:
            files.append([33])           # a file nobody announced / wrong order: makes the Files clause fail
        rkw = {}
        if call["typed"]:
            cols = ([("Unnamed: 0", "int64")] if call["wi"] else []) + [
                (bytes(nm).decode(), {1: "int64", 2: "float64", 3: object}[t]) for nm, t in zip(fr["names"], fr["types"])]
            rkw["dtype"] = dict(cols)
        if call["rbs"]:
            rkw["blocksize"] = call["rbs"]
        back = ddm.read_csv(pattern, **rkw).compute(scheduler="sync")
        return {"raised": False, "files": files, "back": typed_rows(back, fr["types"], call["wi"])}
    except NotImplementedError as ex:
        return {"skip": "NotImplementedError: " + str(ex)[:60]}
    except Exception as ex:  # noqa: BLE001
        if is_shim_error(ex):
            raise MachineryError("pyarrow shim: %r" % (ex,))
        msg = "%s: %s" % (type(ex).__name__, str(ex)[:200])
        if isinstance(ex, ValueError) and "Mismatched dtypes found" in str(ex):
            return {"skip": "read_csv: 'Mismatched dtypes found' (sample-based dtype inference, documented; pass dtype=)"}
        return {"raised": True, "files": [], "back": [], "msg": msg}
    finally:
        shutil.rmtree(d, ignore_errors=True)


def pandas_guard_frame(fr, wi, e_single_file):
    """pandas alone must round-trip the frame, and its text must parse to the records the spec writes"""
    import pandas as pd
    pdf = to_pandas(fr)
    text = pdf.to_csv(index=wi)
    recs = [[_enc(x) for x in rec] for rec in csv.reader(io.StringIO(text))]
    if recs != e_single_file:
        return "pandas.to_csv writes %r, the specification %r" % (recs, e_single_file)
    back = pd.read_csv(io.StringIO(text))
    got = typed_rows(back, fr["types"], wi)
    want = [([[1, r["idx"]]] if wi else []) + r["cells"] for r in fr["rows"]]
    # an all-NA / empty column loses its type in pandas itself: such cells still compare equal (NA)
    if got != want:
        return "pandas does not round-trip the frame itself: %r -> %r" % (want, got)
    return None


# ---------------------------------------------------------------- Python twin of CsvBlocksTrace!Bad

def py_records(file_bytes):
    return [[_enc(x) for x in rec] for rec in csv.reader(io.StringIO(bytes(file_bytes).decode("utf-8"), newline="")) if rec != []]


def py_bad(rec, expect):
    obs = rec["obs"]
    if rec["kind"] == "opts":
        e = expect["r"]
        if e["err"]:
            return set()            # pandas raises on the whole file: don't-care
        if obs["raised"]:
            return set() if e["lax"] else {"Raised"}
        return ({"Header"} if obs["hdr"] != e["hdr"] else set()) | ({"Rows"} if obs["rows"] != e["rows"] else set())
    if obs["raised"]:
        return {"Raised"}
    bad = set()
    if rec["kind"] == "blocks":
        if obs["hdr"] != expect["hdr"]:
            bad.add("Header")
        if obs["rows"] != expect["rows"]:
            bad.add("Rows")
    else:
        ok = len(obs["files"]) == len(expect["files"])
        if ok:
            try:
                ok = all(py_records(f) == w for f, w in zip(obs["files"], expect["files"]))
            except Exception:  # noqa: BLE001
                ok = False
        if not ok:
            bad.add("Files")
        if obs["back"] != expect["back"]:
            bad.add("ReadBack")
    return bad


HEADER_FEATURES = ("row-equals-header-line", "row-begins-with-header-text")


def covered(call):
    """does the first block hold the whole top of the file (skipped lines and header line), per the specification"""
    cov = call["expect"]["cov"]
    return call["bs"] > len(cov) or bool(cov[call["bs"] - 1])


def sample_holds_top(call):
    """does the sample read_pandas looks at hold the whole top of the file?  The sample is `sample` bytes extended to the
    next line end; with skiprows it is cut down to the blocksize ('Setting sample=blocksize'); sample=False is the first block"""
    if call["sample"] is False:
        return covered(call)
    n = 256000 if call["sample"] is None else call["sample"]
    if call["o"]["skip"] and call["bs"] < n:
        n = call["bs"]
    text = bytes(call["text"])
    end = text.find(b"\n", max(0, n - 1))
    held = len(text) if end < 0 or n >= len(text) else end + 1
    return held >= call["expect"]["top"]


def blank_or_comment_before_header(call):
    """is there, among the physical lines up to the header line, a blank line that is not skipped, or (with comment=) a
    comment line: the places where the physical line number and pandas' count of remaining lines part"""
    o = call["o"]
    lines = bytes(call["text"]).decode().split("\n")[:call["expect"]["toplines"]]
    return any((x == "" and i not in o["skip"]) or (o["comment"] and x.startswith("#")) for i, x in enumerate(lines))


def opts_class(call, clause=""):
    """input class of a reader-option case (never concrete numbers).  Two classes are root causes of their own:
    the top of the file split across blocks, and a blank / comment line before the header line."""
    o = call["o"]
    if not covered(call):
        return "top-of-file-split-across-blocks"
    if o["comment"] and (o["skip"] or o["hdr"] > 0):
        return "comment-with-skiprows-or-header-row"
    if blank_or_comment_before_header(call):
        return "blank-or-comment-line-before-header"
    if o["sf"] == "list" and o["hdr"] > 0:
        return "skiprows-list-with-header-row"
    if o["hdr"] == -2 and not o["names"] and clause == "Raised":
        # no header line to put in front: a later block that is empty (blocksize below the line length) or holds only
        # blank / comment lines is handed to pandas as it is -> EmptyDataError
        return "header-None-later-block-without-data"
    hdr = {-1: "infer", -2: "None", 0: "0"}.get(o["hdr"], "k>0")
    lines = bytes(call["text"]).decode().split("\n")
    feats = []
    if "" in lines[:-1]:
        feats.append("blank-line")
    if any(x.startswith("#") for x in lines):
        feats.append("comment-line" if o["comment"] else "hash-line")
    return "header=%s:%s:skiprows=%s:%s:sample=%s" % (
        hdr, "names" if o["names"] else "nonames", o["sf"], "+".join(feats) or "plain",
        {None: "default", False: "False"}.get(call["sample"], "small"))


def classify(call, clauses, obs=None):
    """family : clause : input class.  A text / written file in which a data row begins with the text of the header
    line, read with a blocksize smaller than the file, is one input class of its own (one root cause)."""
    order = ["Rows", "ReadBack", "Files", "Header", "Raised", "ErrorExpected"]
    clause = sorted(clauses, key=lambda c: order.index(c) if c in order else 99)[0]
    if call["kind"] == "opts":
        oc = opts_class(call, clause)
        return "opts:%s" % oc if "=" not in oc else "opts:%s:%s" % (clause, oc)
    if call["kind"] == "blocks":
        feat = text_feature(call["text"])
        if feat in HEADER_FEATURES and call["bs"] >= len(call["text"]):
            feat = "single-block"
        return "blocks:%s:%s" % (clause, feat)
    fr, lay = call["fr"], call["lay"]
    if call["rbs"] and obs and not obs.get("raised") and clause == "ReadBack":
        fs = {text_feature(f) for f in obs["files"] if f and call["rbs"] < len(f)}
        for hf in HEADER_FEATURES:
            if hf in fs:
                return "roundtrip:ReadBack:%s" % hf
    feats = []
    if lay and lay[0] == 0 and sum(lay) > 0:
        feats.append("empty-first-partition")
    elif 0 in lay:
        feats.append("empty-partition")
    if any(c[0] == 0 for r in fr["rows"] for c in r["cells"]):
        feats.append("na")
    if call["rbs"]:
        feats.append("small-blocksize")
    return "roundtrip:%s:%s:%s:%s:%s" % (clause, "single" if call["single"] else call["how"], "index" if call["wi"] else "noindex",
                                         "typed" if call["typed"] else "inferred", "+".join(feats) or "plain")


# ---------------------------------------------------------------- core

def _work(call):
    fn = {"blocks": observe_blocks, "opts": observe_opts, "roundtrip": observe_roundtrip}[call["kind"]]
    return call, fn(call)


def _tla_opt(o):
    return {"hdr": o["hdr"], "names": o["names"], "nc": o["nc"], "skip": list(o["skip"]), "comment": o["comment"]}


def export_cases(ctx, shapes, frames, maxtext, label, optcases=()):
    consts = {"Shapes": TLA(shapes), "Menu": MENU, "MaxText": maxtext, "MaxParts": 4,
              "Frames": TLA("<<" + ", ".join(tla_value(f) for f in frames) + ">>"),
              "OptCases": TLA("<<" + ", ".join(tla_value({"text": t, "o": _tla_opt(o)}) for t, o in optcases) + ">>")}
    spec, cfg = ctx.model(ctx.spec("frame", "CsvBlocksMC.tla"), consts,
                          invariants=["ParseInvertsWrite", "BlocksizeInvariant", "RoundTripStrings", "FilesBlocksizeInvariant",
                                      "RenderInjective", "OptsBlocksizeInvariant", "OptsDefaultIsParse"])
    cases, _ = ctx.tlc_cases(spec, cfg, label=label, timeout=2400)
    texts = sorted((c for c in cases if c["c"]["fam"] == "text"), key=lambda c: (len(c["e"]["text"]), c["e"]["text"]))
    fcases = sorted((c for c in cases if c["c"]["fam"] == "frame"),
                    key=lambda c: (c["c"]["f"], c["c"]["lay"], c["c"]["single"], c["c"]["wi"]))
    ocases = {c["c"]["k"]: c["e"] for c in cases if c["c"]["fam"] == "opts"}
    if len(ocases) != len(optcases):
        raise MachineryError("TLC exported %d of %d reader-option cases" % (len(ocases), len(optcases)))
    return texts, fcases, [(t, o, ocases[k + 1]) for k, (t, o) in enumerate(optcases)]


def plan_optcases(rng, per_option, core_files):
    """(text, options): every option combination x `per_option` seeded files, plus all combinations on a few fixed files"""
    fixed = [list(b"q\na\n1\nab\n"), list(b"x,y\n#c,d\na,b\n1,2\nab,b7\n"), list(b"\na\n1\n\nb7\n7\n")][:core_files]
    out = []
    for o in option_universe():
        for f in fixed + [random_optfile(rng) for _ in range(per_option)]:
            out.append((f, dict(o, nc=ncols_of(f))))
    return out


def guard_opts(ocases):
    """ReadOpts of the specification against pandas.read_csv with the same options on the whole file"""
    for text, o, e in ocases:
        err, hdr, rows = pandas_opts(text, o)
        r = e["r"]
        if err != r["err"] or (not err and (hdr != r["hdr"] or rows != r["rows"])):
            raise MachineryError("ReadOpts disagrees with pandas.read_csv(%r) on %r: pandas %r, specification %r"
                                 % (opt_kwargs(o, ncols_of(text)), bytes(text), (err, hdr, rows), r))


def guard(texts, fcases, frames):
    """the TLA+ parse / write against pandas (a disagreement is a machinery error, never a violation)"""
    for c in texts:
        pp = pandas_parse(bytes(c["e"]["text"]))
        if pp is None or pp[0] != c["e"]["hdr"] or pp[1] != c["e"]["rows"]:
            raise MachineryError("ParseCsv disagrees with pandas.read_csv on %r: pandas %r, specification %r"
                                 % (bytes(c["e"]["text"]), pp, (c["e"]["hdr"], c["e"]["rows"])))
    seen = set()
    for c in fcases:
        key = (c["c"]["f"], c["c"]["wi"])
        if c["c"]["single"] and key not in seen:
            seen.add(key)
            why = pandas_guard_frame(frames[c["c"]["f"] - 1], c["c"]["wi"], c["e"]["files"][0])
            if why:
                raise MachineryError("frame %r: %s" % (frames[c["c"]["f"] - 1], why))


def plan(rng, texts, fcases, frames, all_bs_texts, ntext, nbs, nframe, ocases=(), all_bs_opts=0, nbs_opts=3):
    calls = []
    # reader options: every blocksize for a seeded selection (block boundaries inside the skipped / header region
    # included), a few blocksizes for the others; the sample is the default, the first block, or a few bytes
    pick = set(rng.sample(range(len(ocases)), min(all_bs_opts, len(ocases))))
    for i, (text, o, e) in enumerate(ocases):
        n = len(text)
        bss = list(range(1, n + 2)) if i in pick else sorted(set(rng.sample(range(1, n + 2), min(nbs_opts, n + 1))))
        for bs in bss:
            calls.append({"kind": "opts", "text": text, "o": o, "bs": bs, "sample": rng.choice([None, None, None, False, 4]),
                          "expect": e})
    pick_all = set(rng.sample(range(len(texts)), min(all_bs_texts, len(texts))))
    # the shortest texts and a seeded selection get EVERY blocksize; further texts a few blocksizes
    some = set(rng.sample(range(len(texts)), min(ntext, len(texts))))
    for i, c in enumerate(texts):
        n = len(c["e"]["text"])
        if i in pick_all or n <= 6:
            bss = list(range(1, n + 2))
        elif i in some:
            bss = sorted(set(rng.sample(range(1, n + 2), min(nbs, n + 1))))
        else:
            continue
        for bs in bss:
            calls.append({"kind": "blocks", "text": c["e"]["text"], "bs": bs, "sample": rng.choice([None, None, False]),
                          "expect": {"hdr": c["e"]["hdr"], "rows": c["e"]["rows"]}})
    sel = fcases if nframe >= len(fcases) else rng.sample(fcases, nframe)
    for c in sel:
        cc = c["c"]
        calls.append({"kind": "roundtrip", "fr": frames[cc["f"] - 1], "lay": cc["lay"], "single": cc["single"], "wi": cc["wi"],
                      "how": rng.choice(["glob", "pad", "dir"]), "typed": rng.random() < 0.5,
                      "rbs": rng.choice([None, None, 3, 7, 16]), "expect": c["e"]})
    return calls


def documented_limit(call, obs):
    """a rejected reader-option record that falls under a documented restriction of block-wise reading (counted as a
    skip, not judged): the top of the file - the skipped lines and the header line - must lie in the first block and in
    the sample (read_pandas warns 'Unexpected behavior can result from passing skiprows when blocksize is smaller than
    sample size' and asks for a larger sample=)"""
    if not covered(call) and call["o"]["skip"]:
        return "skiprows with a block boundary inside the skipped / header region (documented: unexpected behavior)"
    if not sample_holds_top(call) and (call["o"]["skip"] or call["sample"] not in (None, False)):
        return "the sample (sample= bytes; cut down to the blocksize when skiprows is given) does not hold the top of the file " \
               "(documented: increase sample= / 'unexpected behavior ... Setting sample=blocksize')"
    return None


def collect(ctx, calls, parallel=True, prefix=""):
    """run dask on every call and record: (records, owner)"""
    results = pmap(_work, calls, chunk=50) if parallel else [_work(c) for c in calls]
    recs, owner = [], {}
    for call, obs in results:
        if "skip" in obs:
            ctx.skip(obs["skip"])
            continue
        rid = "%sr%d" % (prefix, len(recs))
        if call["kind"] == "opts":
            rec = {"id": rid, "kind": "opts", "text": call["text"], "o": _tla_opt(call["o"]),
                   "obs": {"raised": obs["raised"], "hdr": obs["hdr"], "rows": obs["rows"]}}
            ctx.count(("opts", call["text"], call["o"], call["bs"], call["sample"]),
                      call["bs"] < len(call["text"]) and not call["expect"]["r"]["err"] and len(call["expect"]["r"]["rows"]) >= 1)
        elif call["kind"] == "blocks":
            rec = {"id": rid, "kind": "blocks", "text": call["text"],
                   "obs": {"raised": obs["raised"], "hdr": obs["hdr"], "rows": obs["rows"]}}
            ctx.count(("blocks", call["text"], call["bs"], call["sample"]), call["bs"] < len(call["text"]) and len(call["expect"]["rows"]) >= 2)
        else:
            rec = {"id": rid, "kind": "roundtrip", "fr": call["fr"], "lay": call["lay"], "single": call["single"], "wi": call["wi"],
                   "obs": {"raised": obs["raised"], "files": obs["files"], "back": obs["back"]}}
            ctx.count(("rt", call["fr"], call["lay"], call["single"], call["wi"], call["how"], call["typed"], call["rbs"]),
                      len(call["fr"]["rows"]) >= 2 and len(call["lay"]) >= 2)
        owner[rid] = (call, obs)
        recs.append(rec)
    return recs, owner


def decide(ctx, recs, owner, report):
    """TLC decides every record, cross-checked by the Python twin; report(signature, what, replay, record id)"""
    tspec, tcfg = ctx.model(ctx.spec("frame", "CsvBlocksTrace.tla"), {})
    nviol = 0
    for lo in range(0, len(recs), 10000):
        part = recs[lo:lo + 10000]
        rej = ctx.tlc_validate(tspec, part, tcfg, timeout=1800)
        for rec in part:
            tl = set()
            for c in rej.get(rec["id"], []):
                tl |= {x.strip().strip('"') for x in c.strip("{}").split(",") if x.strip()}
            call, obs = owner[rec["id"]]
            py = py_bad(rec, call["expect"])
            if tl != py:
                raise MachineryError("TLC and the Python twin disagree on %r: TLC %r, Python %r" % (rec, sorted(tl), sorted(py)))
            why = documented_limit(call, obs) if tl and call["kind"] == "opts" else None
            if why:
                ctx.skip(why)
            elif tl:
                nviol += 1
                what = "TLC rejects a recorded %s call (%s)%s" % (rec["kind"], ", ".join(sorted(tl)), (": " + obs["msg"]) if obs.get("msg") else "")
                report(classify(call, tl, obs), what, {"call": call, "observed": obs}, rec["id"])
    return nviol, len(recs)


def core(ctx, calls, report, parallel=True):
    recs, owner = collect(ctx, calls, parallel)
    return decide(ctx, recs, owner, lambda sig, what, rep, rid: report(sig, what, rep))


def run(ctx):
    global _TMP
    _TMP = ctx.scratch
    rng = ctx.rng
    frames = random_frames(rng, ctx.pick(40, 200), True)
    shapes = ctx.pick("{<<1, 3, 7>>, <<2, 1, 7>>, <<2, 2, 4>>, <<3, 1, 5>>}", "{<<1, 4, 7>>, <<2, 2, 7>>, <<3, 1, 7>>}")
    optcases = plan_optcases(rng, ctx.pick(5, 60), 3)
    texts, fcases, ocases = export_cases(ctx, shapes, frames, 24, "design+cases", optcases)
    guard(texts, fcases, frames)
    guard_opts(ocases)
    calls = plan(rng, texts, fcases, frames, all_bs_texts=ctx.pick(60, 1500), ntext=ctx.pick(450, 10 ** 9), nbs=4,
                 nframe=ctx.pick(1200, 8000), ocases=ocases, all_bs_opts=ctx.pick(80, 1500), nbs_opts=ctx.pick(3, 5))
    _, nrec = core(ctx, calls, ctx.violation)
    ctx.sample({"text": bytes(texts[len(texts) // 2]["e"]["text"]).decode(), "parse": "hdr %r rows %r" % (
        [bytes(x).decode() for x in texts[len(texts) // 2]["e"]["hdr"]],
        [[bytes(x).decode() for x in r] for r in texts[len(texts) // 2]["e"]["rows"]])})
    if fcases:
        c = fcases[len(fcases) // 2]
        ctx.sample({"frame": frames[c["c"]["f"] - 1], "partition_sizes": c["c"]["lay"], "single_file": c["c"]["single"],
                    "write_index": c["c"]["wi"], "files_as_records": [[[bytes(x).decode() for x in r] for r in f] for f in c["e"]["files"]]})
    ctx.exhaustive = False
    ctx.rule = ("case = (CSV text enumerated by TLC, blocksize, sample mode) and (typed frame, partitioning, single_file, write_index) x "
                "(file naming, inferred / explicit dtypes, read blocksize); non-trivial = text with >= 2 data rows read with a "
                "blocksize smaller than the file / frame with >= 2 rows in >= 2 partitions")
    ctx.extra["texts_enumerated_by_tlc"] = len(texts)
    ctx.extra["frame_cases_enumerated_by_tlc"] = len(fcases)
    ctx.extra["reader_option_cases_evaluated_by_tlc"] = len(ocases)
    ctx.extra["records_decided_by_tlc"] = nrec
    ctx.extra["parquet_half"] = "NOT DECIDED: pyarrow is not installed; to_parquet / read_parquet cannot run"
    ctx.assumptions = ["pandas parses / writes one block correctly (guarded against the TLA+ parse / write on every case)",
                       "TLC evaluates the specification correctly (cross-checked by a Python twin on every record)",
                       "the inert pyarrow shim does not influence CSV I/O"]


def replay(ctx, obj):
    global _TMP
    _TMP = ctx.scratch
    call = obj["case"]["call"]
    _, obs = _work(call)
    print("call:", {k: v for k, v in call.items() if k != "expect"}, "\nexpected:", call["expect"], "\nobserved:", obs)
    if "skip" in obs:
        return False
    rec = {"id": "r0", "kind": call["kind"]}
    if call["kind"] == "opts":
        rec.update(text=call["text"], o=_tla_opt(call["o"]), obs={"raised": obs["raised"], "hdr": obs["hdr"], "rows": obs["rows"]})
        print("pandas.read_csv on the whole file:", pandas_opts(call["text"], call["o"]), "documented limit:", documented_limit(call, obs))
    elif call["kind"] == "blocks":
        rec.update(text=call["text"], obs={"raised": obs["raised"], "hdr": obs["hdr"], "rows": obs["rows"]})
    else:
        rec.update(fr=call["fr"], lay=call["lay"], single=call["single"], wi=call["wi"],
                   obs={"raised": obs["raised"], "files": obs["files"], "back": obs["back"]})
    tspec, tcfg = ctx.model(ctx.spec("frame", "CsvBlocksTrace.tla"), {})
    rej = ctx.tlc_validate(tspec, [rec], tcfg)
    print("TLC:", rej)
    return bool(rej) and not (call["kind"] == "opts" and documented_limit(call, obs))


def selftest(ctx):
    global _TMP
    _TMP = ctx.scratch
    from ..frames import dd
    from ..mutate import source_mutant
    dd()                                   # dask.dataframe is only importable through the shim
    import dask.bytes.core as BYC
    import dask.dataframe.io.csv as CSV
    ok = True
    rng = random.Random(3)
    frames = random_frames(rng, 14, True)
    texts, fcases, ocases = export_cases(ctx, "{<<1, 3, 7>>, <<2, 1, 7>>}", frames, 16, "selftest-cases",
                                         plan_optcases(random.Random(5), 1, 2))
    guard(texts, fcases, frames)
    guard_opts(ocases)
    calls = plan(random.Random(4), texts, fcases, frames, all_bs_texts=8, ntext=30, nbs=3, nframe=60)
    # reader options: for every option combination two blocksizes that split the file AFTER the top of the file
    ocalls, r5 = [], random.Random(6)
    for text, o, e in ocases:
        good = [bs for bs in range(1, len(text) - 1) if e["cov"][bs - 1] and not e["r"]["err"]]
        for bs in r5.sample(good, min(2, len(good))):
            ocalls.append({"kind": "opts", "text": text, "o": o, "bs": bs, "sample": None, "expect": e})
    trials, allrecs, allowner = [], [], {}

    def trial(name, cm, expect=True, which=None):
        # the records of all mutants are decided by ONE TLC run at the end
        tag = "m%d-" % len(trials)
        gc.collect()               # expressions built under the previous mutant must not be reused (dask caches them by name)
        with cm:
            recs, owner = collect(ctx, calls if which is None else which, parallel=False, prefix=tag)
        trials.append((tag, name, expect))
        allrecs.extend(recs)
        allowner.update(owner)

    import contextlib
    trial("(none: unchanged tree, only known findings may appear)", contextlib.nullcontext(), expect=False)
    trial("benign: read_bytes block offsets shifted by one byte", source_mutant(
        BYC, "read_bytes", "off.append(int(place))", "off.append(int(place) + 1)"), expect=False)
    trial("read_pandas: header re-attached without its line terminator", source_mutant(
        CSV, "read_pandas", 'header = b"" if header is None else parts[firstrow] + b_lineterminator',
        'header = b"" if header is None else parts[firstrow]'))
    trial("_read_csv: header not re-attached to later blocks", source_mutant(
        CSV, "_read_csv", "            write_header = True", "            write_header = False"))
    trial("to_csv: single_file appends every partition with its header", source_mutant(
        CSV, "to_csv", 'kwargs["header"] = False\n        for d in dfs[1:]:', 'for d in dfs[1:]:'))
    trial("to_csv: the last partition is not written (multi-file)", source_mutant(
        CSV, "to_csv", "for d, f in zip(dfs[1:], files[1:])", "for d, f in zip(dfs[1:-1], files[1:-1])"))
    trial("(none: unchanged tree on the reader-option calls)", contextlib.nullcontext(), expect=False, which=ocalls)
    trial("read_pandas: integer header REPLACES the first non-skipped row (firstrow = header)", source_mutant(
        CSV, "read_pandas", "firstrow += header", "firstrow = header"), which=ocalls)
    trial("_read_csv: header= dropped for later blocks even when it is None", source_mutant(
        CSV, "_read_csv", 'if rest_kwargs.get("header", 0) is not None:\n            rest_kwargs.pop("header", None)',
        'rest_kwargs.pop("header", None)'), which=ocalls)
    trial("_read_csv: skiprows applied again to every later block", source_mutant(
        CSV, "_read_csv", 'rest_kwargs.pop("skiprows", None)', 'pass'), which=ocalls)
    found = {}
    decide(ctx, allrecs, allowner, lambda sig, what, rep, rid: found.setdefault(rid.split("-")[0] + "-", []).append(sig))
    for tag, name, expect in trials:
        new = [f for f in found.get(tag, []) if f not in ctx.known]
        good = (len(new) > 0) == expect
        ok &= good
        print("mutant %-82s %s (%d violations) %s" % (
            name, ("DETECTED" if new else "no alarm") + ("" if good else "  <-- WRONG"), len(new), sorted(set(new))[:2]))
    tspec, tcfg = ctx.model(ctx.spec("frame", "CsvBlocksTrace.tla"), {})
    text = list(b'a,b\n1,"x,y"\n2,z\n')
    fr = {"types": [1, 3], "names": [[97], [98]], "rows": [{"idx": 4, "cells": [[1, 7], [3, 2]]}, {"idx": 2, "cells": [[1, 0], [0, 0]]}]}
    good_files = [list(b'a,b\n7,"a,b"\n'), list(b"a,b\n0,\n")]
    recs = [
        {"id": "ok-blocks", "kind": "blocks", "text": text,
         "obs": {"raised": False, "hdr": [[97], [98]], "rows": [[[49], [120, 44, 121]], [[50], [122]]]}},
        {"id": "lost-row", "kind": "blocks", "text": text, "obs": {"raised": False, "hdr": [[97], [98]], "rows": [[[49], [120, 44, 121]]]}},
        {"id": "split-field", "kind": "blocks", "text": text,
         "obs": {"raised": False, "hdr": [[97], [98]], "rows": [[[49], [120]], [[50], [122]]]}},
        {"id": "ok-rt", "kind": "roundtrip", "fr": fr, "lay": [1, 1], "single": False, "wi": False,
         "obs": {"raised": False, "files": good_files, "back": [[[1, 7], [3, 2]], [[1, 0], [0, 0]]]}},
        {"id": "rt-wrong-value", "kind": "roundtrip", "fr": fr, "lay": [1, 1], "single": False, "wi": False,
         "obs": {"raised": False, "files": good_files, "back": [[[1, 7], [3, 1]], [[1, 0], [0, 0]]]}},
        {"id": "rt-missing-file", "kind": "roundtrip", "fr": fr, "lay": [1, 1], "single": False, "wi": False,
         "obs": {"raised": False, "files": good_files[:1], "back": [[[1, 7], [3, 2]], [[1, 0], [0, 0]]]}},
    ]
    rej = ctx.tlc_validate(tspec, recs, tcfg)
    good = set(rej) == {"lost-row", "split-field", "rt-wrong-value", "rt-missing-file"}
    print("trace spec: corrupted records rejected, faithful ones accepted: %s %s" % ("OK" if good else "WRONG", sorted(rej)))
    ok &= good
    return 0 if ok else 1
