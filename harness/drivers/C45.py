"""C45 - division planning never splits equal index values.

spec -> code: specs/frame/DivisionLocations.tla is a PlusCal transcription of
sorted_division_locations; TLC runs it from every (sorted sequence, npartitions | chunksize) of the
bounded space, proves transcription => contract (DivLocBad of specs/frame/Divisions.tla),
termination and index safety, and exports every case.  Each case is fed to the REAL function (for
several index dtypes, and through dd.from_pandas), the call is recorded and TLC decides the record
against the contract (DivisionsTrace.tla).  code -> spec: seeded larger sequences and the
quantile-division code (process_val_weights, RepartitionQuantiles, _calculate_divisions) are
recorded and decided by TLC the same way."""
from __future__ import annotations

import numpy as np
import pandas as pd

from ..core import MachineryError
from ..divisions import Verdicts as _Verdicts, mutate, parts_collection, patched_attr as patched
from ..frameobs import partitions_of, plain, rank_map, time_limit, to_rank
from ..frames import dd, is_shim_error, split_rows
from ..par import pmap

META = {
    "title": "Division planning never splits equal index values",
    "design_ref": "DESIGN.md §4.4 C45",
    "technique": "TLA+ contract of sorted_division_locations + PlusCal transcription of its loop proved against the contract "
                 "by TLC on the bounded space; every enumerated case replayed into the real function and the recorded calls "
                 "(also of the quantile-division code) decided by TLC",
    "level_text": "Small-scope exhaustive: every non-decreasing sequence of length <= 7 over 4 labels (thorough: <= 11 over 5) x "
                  "npartitions/chunksize 1..8 (1..12), for int/float/str/datetime indexes (thorough: three of the six input kinds per case, rotating) and through from_pandas; TLC decides the "
                  "contract (locations 0..len strictly increasing, division = label at location, equal labels never split, exact "
                  "npartitions when enough distinct labels) on every recorded call, and proves the same for a PlusCal transcription of "
                  "the loop. Larger random sequences and quantile divisions (non-decreasing, first = min, last = max) are recorded "
                  "and decided by TLC.",
    "level_note": "Trusted: TLC, the label->rank projection, pandas for building inputs. The transcription proof covers the bounded "
                  "space only; whether the transcription still equals the code is reported as transcription_mismatches (0 = the proved "
                  "text is the running code). Quantile divisions are sampled, not exhaustive; null labels are outside the property.",
}

KINDS = ["int-ndarray", "int-index", "float-index", "str-index", "datetime-index", "int-series"]
CLAUSE_ORDER = ["Raised", "Shape", "Span", "Increasing", "DivAtLoc", "NoSplit", "ExactN", "NonDecreasing", "FirstIsMin", "LastIsMax"]


# ----------------------------------------------------------------------------- inputs
def labels_for(ranks, kind):
    """The label that stands for rank r under index dtype `kind` (order preserving)."""
    if kind.startswith("int"):
        return list(ranks)
    if kind.startswith("float"):
        return [r * 0.5 - 1.0 for r in ranks]
    if kind.startswith("str"):
        return ["k%03d" % r for r in ranks]
    if kind.startswith("datetime"):
        t0 = pd.Timestamp("2020-01-01")
        return [t0 + pd.Timedelta(days=int(r)) for r in ranks]
    raise MachineryError("unknown kind " + kind)


def make_seq(ranks, kind):
    labels = labels_for(ranks, kind)
    if kind == "int-ndarray":
        return np.array(labels, dtype="i8"), labels
    if kind == "int-series":
        return pd.Series(labels, dtype="i8"), labels
    if kind == "datetime-index":
        return pd.DatetimeIndex(labels), labels
    return pd.Index(labels), labels


def _ints(xs):
    out = []
    for x in xs:
        out.append(int(x) if isinstance(x, (int, np.integer)) and not isinstance(x, bool) else -1)
    return out


def run_sdl(seq, mode, k, kind):
    """One call of the real sorted_division_locations -> the observation part of a record."""
    import dask.dataframe.io.io as ioio
    obj, labels = make_seq(seq, kind)
    ranks = {plain(lab): r for lab, r in zip(labels, seq)}
    kw = {"npartitions": k} if mode == "n" else {"chunksize": k}
    try:
        with time_limit(2):      # a planning loop that stops advancing would otherwise grow its lists without bound
            divs, locs = ioio.sorted_division_locations(obj, **kw)
        return {"raised": "", "divs": [to_rank(d, ranks) for d in divs], "locs": _ints(locs)}
    except Exception as ex:  # noqa: BLE001 - every exception is an observation
        if is_shim_error(ex):
            return {"skip": "pyarrow shim"}
        return {"raised": type(ex).__name__, "divs": [], "locs": [], "msg": str(ex)[:160]}


def run_from_pandas(seq, mode, k, kind):
    """The same planning observed through dd.from_pandas(sort=True): divisions as declared,
    locations = cumulative lengths of the partitions actually computed."""
    ddm = dd()
    labels = labels_for(seq, kind)
    ranks = {plain(lab): r for lab, r in zip(labels, seq)}
    idx = pd.DatetimeIndex(labels) if kind.startswith("datetime") else pd.Index(labels)
    pdf = pd.DataFrame({"rid": np.arange(len(seq))}, index=idx)
    kw = {"npartitions": k} if mode == "n" else {"chunksize": k}
    try:
        with time_limit(30):
            x = ddm.from_pandas(pdf, sort=True, **kw)
            divs = list(x.divisions)
            parts = partitions_of(x)
        locs = [0]
        for p in parts:
            locs.append(locs[-1] + len(p))
        rids = [int(r) for p in parts for r in p["rid"].tolist()]
        if rids != list(range(len(seq))):
            return {"raised": "", "divs": [to_rank(d, ranks) for d in divs], "locs": [-1] + locs[1:]}   # rows moved: Span fails
        return {"raised": "", "divs": [to_rank(d, ranks) for d in divs], "locs": locs}
    except Exception as ex:  # noqa: BLE001
        if is_shim_error(ex):
            return {"skip": "pyarrow shim"}
        return {"raised": type(ex).__name__, "divs": [], "locs": [], "msg": str(ex)[:160]}


def _sdl_work(item):
    seq, mode, k, kind, via = item
    obs = (run_from_pandas if via == "from_pandas" else run_sdl)(seq, mode, k, kind)
    return obs


# ----------------------------------------------------------------------------- quantile divisions
def q_values(ranks, kind):
    if kind == "int":
        return [int(r) * 3 - 2 for r in ranks]
    if kind == "float":
        return [r * 0.75 - 1.0 for r in ranks]
    return ["k%03d" % r for r in ranks]


def run_quantiles(case):
    """case: layer 'rq' (Series._repartition_quantiles), 'cd' (_calculate_divisions) on a partitioned
    series, or 'pvw' (process_val_weights on a summary)."""
    layer = case["layer"]
    try:
        with time_limit(30):
            return _run_quantiles(case, layer)
    except NotImplementedError as ex:
        return {"skip": "NotImplementedError: " + str(ex)[:50]}
    except Exception as ex:  # noqa: BLE001
        if is_shim_error(ex):
            return {"skip": "pyarrow shim"}
        return {"raised": type(ex).__name__, "data": [0], "divs": [], "msg": str(ex)[:160]}


def _run_quantiles(case, layer):
    if layer == "pvw":
        from dask.dataframe import partitionquantiles as pq
        data = list(case["vals"])
        out = pq.process_val_weights((list(data), list(case["weights"])), case["npartitions"], (np.dtype(case["dtype"]), None))
        res = list(np.asarray(out).tolist())
    else:
        dd()
        data = q_values(case["data"], case["kind"])
        s = pd.Series(data, name="a")
        key = (layer, list(case["data"]), case["kind"], list(case["layout"]))      # deterministic names -> deterministic random percentiles
        if layer == "rq":
            ds = parts_collection(split_rows(s, case["layout"]), key=key)
            res = ds._repartition_quantiles(case["npartitions"], upsample=case.get("upsample", 1.0)).compute(scheduler="sync").tolist()
        else:
            from dask.dataframe.dask_expr import _shuffle
            df = parts_collection(split_rows(s.to_frame(), case["layout"]), key=key)
            res = list(_shuffle._calculate_divisions(df.expr, df["a"].expr, case["npartitions"])[0])
    ranks = rank_map(data, res)
    return {"raised": "", "data": [to_rank(v, ranks) for v in data], "divs": [to_rank(v, ranks) for v in res]}


def weak_comp(rng, n, m):
    """A random weak composition of n into m parts (empty parts likely)."""
    cuts = sorted(rng.randint(0, n) for _ in range(m - 1))
    pts = [0] + cuts + [n]
    return [b - a for a, b in zip(pts, pts[1:])]


def quantile_cases(rng, n_rq, n_cd, n_pvw):
    cases = []
    for i in range(n_rq + n_cd):
        n = rng.randint(1, 10)
        a = rng.randint(1, 5)
        data = [rng.randrange(a) for _ in range(n)]
        if rng.random() < 0.3:
            data.sort()
        cases.append({"layer": "rq" if i < n_rq else "cd", "data": data, "kind": rng.choice(["int", "int", "float", "str"]),
                      "layout": weak_comp(rng, n, rng.randint(1, 4)), "npartitions": rng.randint(1, 6),
                      "upsample": rng.choice([1.0, 1.0, 2.0])})
    for _ in range(n_pvw):
        nv = rng.randint(1, 8)
        vals = sorted(rng.sample(range(-3, 14), nv))
        cases.append({"layer": "pvw", "vals": vals, "weights": [rng.randint(1, 8) * 0.5 for _ in vals],
                      "npartitions": rng.randint(1, 8), "dtype": rng.choice(["int64", "float64"])})
    return cases


# ----------------------------------------------------------------------------- judging (by TLC)
def classify(rec, clauses):
    cl = next((c for c in CLAUSE_ORDER if c in clauses), "Rejected")
    if rec["op"] == "sdl":
        dup = "dup" if len(set(rec["seq"])) < len(rec["seq"]) else "nodup"
        return "sdl:%s:%s:%s:%s" % (rec.get("via", "direct"), cl, "npartitions" if rec["mode"] == "n" else "chunksize", dup)
    return "quantiles:%s:%s" % (rec.get("layer", "?"), cl)


JUDGED = ("op", "seq", "mode", "k", "raised", "divs", "locs", "data")     # the fields TLC sees


def Verdicts():
    return _Verdicts(JUDGED, CLAUSE_ORDER)


def decide(ctx, recs, label):
    v = Verdicts()
    v.add(recs)
    return [(r, c) for r, c, _ in v.decide(ctx, label)]


def sdl_records(items):
    """items: (seq, mode, k, kind, via) -> records (op = sdl); skips are returned separately."""
    obs = pmap(_sdl_work, items, chunk=64 if len(items) < 20000 else 1024)
    recs, skips = [], []
    for (seq, mode, k, kind, via), o in zip(items, obs):
        if "skip" in o:
            skips.append(o["skip"])
            continue
        rec = {"op": "sdl", "seq": list(seq), "mode": mode, "k": k, "kind": kind, "via": via}
        rec.update(o)
        recs.append(rec)
    return recs, skips


def quantile_records(cases):
    obs = pmap(run_quantiles, cases)
    recs, skips = [], []
    for c, o in zip(cases, obs):
        if "skip" in o:
            skips.append(o["skip"])
            continue
        rec = {"op": "quantiles", "layer": c["layer"], "case": c}
        rec.update(o)
        recs.append(rec)
    return recs, skips


def enumerate_cases(ctx, maxlen, alphabet, maxk, label="design+cases:sdl"):
    spec, cfg = ctx.model(ctx.spec("frame", "DivisionLocations.tla"), {"MaxLen": maxlen, "Alphabet": alphabet, "MaxK": maxk},
                          spec="Spec", invariants=["MeetsContract", "LoopInv", "IndCache", "DocExamples"],
                          properties=["Termination"])
    cases, _ = ctx.tlc_cases(spec, cfg, label=label, timeout=3000)
    seen, out = set(), []
    for c in cases:
        if not c:
            continue            # non-terminal states carry out = "{}"
        key = (tuple(c["c"]["seq"]), c["c"]["mode"], c["c"]["k"])
        if key not in seen:     # with liveness checking TLC dumps states twice
            seen.add(key)
            out.append(c)
    want = (sum(_nsorted(n, alphabet) for n in range(1, maxlen + 1))) * 2 * maxk
    if len(out) != want:
        raise MachineryError("TLC exported %d cases, the bounded space has %d" % (len(out), want))
    return out


def _nsorted(n, a):
    from math import comb
    return comb(n + a - 1, a - 1)


# ----------------------------------------------------------------------------- run
WHAT = {"direct": "sorted_division_locations breaks its contract",
        "from_pandas": "from_pandas(sort=True) plans divisions that break the contract",
        "quantiles": "quantile divisions break the contract"}


def run(ctx):
    dd()                      # import dask.dataframe (through the shim) before any fork
    rng = ctx.rng
    maxlen, alphabet, maxk = ctx.pick((7, 4, 8), (11, 5, 12))
    cases = enumerate_cases(ctx, maxlen, alphabet, maxk)
    ctx.extra["cases_enumerated_by_tlc"] = len(cases)
    # spec -> code: every case x every index dtype through the real function
    # (quick: all six dtypes per case; thorough: three per case, rotating, so every dtype meets a sixth of the space twice)
    nk = ctx.pick(len(KINDS), 3)
    items = [(c["c"]["seq"], c["c"]["mode"], c["c"]["k"], KINDS[(i + j) % len(KINDS)], "direct")
             for i, c in enumerate(cases) for j in range(nk)]
    # ... a sample of them observed through from_pandas
    cands = [c for c in cases if len(c["c"]["seq"]) >= 2]
    for c in rng.sample(cands, min(ctx.pick(700, 5000), len(cands))):
        items.append((c["c"]["seq"], c["c"]["mode"], c["c"]["k"],
                      rng.choice(["int-index", "float-index", "str-index", "datetime-index"]), "from_pandas"))
    # code -> spec: larger random sorted sequences
    for _ in range(ctx.pick(2500, 40000)):
        n = rng.randint(maxlen + 1, 60)
        a = rng.randint(1, min(n, 14))
        seq = sorted(rng.randrange(a) for _ in range(n))
        items.append((seq, rng.choice(["n", "c"]), rng.randint(1, n + 3), rng.choice(KINDS), "direct"))
    # is the proved transcription (still) the running code?
    expected = {(tuple(c["c"]["seq"]), c["c"]["mode"], c["c"]["k"]): c["e"] for c in cases}
    pool, mism, shown = Verdicts(), 0, []
    for lo in range(0, len(items), 120000):
        recs, skips = sdl_records(items[lo:lo + 120000])
        for s in skips:
            ctx.skip(s)
        for r in recs:
            ctx.count(("sdl", r["via"], r["seq"], r["mode"], r["k"], r["kind"]), len(set(r["seq"])) >= 2)
            e = expected.get((tuple(r["seq"]), r["mode"], r["k"]))
            if e is not None and r["via"] == "direct" and (r["raised"] or r["divs"] != list(e["divs"]) or r["locs"] != list(e["locs"])):
                mism += 1
                if mism == 1:
                    ctx.extra["transcription_mismatch_example"] = {"case": [r["seq"], r["mode"], r["k"], r["kind"]],
                                                                   "code": [r["divs"], r["locs"], r["raised"]], "transcription": e}
        pool.add(recs)
        shown = recs[-1:] + [x for x in recs if x["via"] == "from_pandas"][:1] or shown
    ctx.extra["transcription_mismatches"] = mism
    if mism:
        print("NOTE C45: the PlusCal transcription differs from the running code on %d calls (transcription stale; "
              "the contract verdicts do not depend on it)" % mism)
    # quantile divisions
    qrecs, qskips = quantile_records(quantile_cases(rng, *ctx.pick((900, 300, 2500), (6000, 2000, 30000))))
    for r in qrecs:
        ctx.count(("q", r["case"]), len(set(r["data"])) >= 2)
    for s in qskips:
        ctx.skip(s)
    pool.add(qrecs)
    # one TLC run decides every recorded call
    for rec, clauses, mult in pool.decide(ctx, "contract:recorded-calls"):
        what = WHAT["quantiles" if rec["op"] == "quantiles" else rec["via"]]
        for _ in range(mult):
            ctx.violation(classify(rec, clauses), "%s: clauses %s fail" % (what, clauses), {"record": rec, "clauses": clauses})
    mid = cases[len(cases) // 2]
    ctx.sample({"case": mid["c"], "transcription_result": mid["e"]})
    for r in shown:
        ctx.sample({"recorded_call": {k: r[k] for k in ("via", "seq", "mode", "k", "kind", "divs", "locs")}})
    if qrecs:
        ctx.sample({"quantile_call": qrecs[0]["case"], "divs_as_ranks": qrecs[0]["divs"], "data_as_ranks": qrecs[0]["data"]})
    ctx.exhaustive = True
    ctx.rule = ("sdl cases = TLC-enumerated (sorted sequence, npartitions|chunksize) x index dtype (all of them, exhaustive), a sample "
                "of them through from_pandas, plus seeded larger sequences; quantile cases = seeded (data, layout, npartitions) "
                "through RepartitionQuantiles / _calculate_divisions / process_val_weights (sampled); non-trivial = at least two "
                "distinct labels; distinct by (case, dtype, route)")
    ctx.assumptions = ["TLC evaluates the contract correctly", "the label -> rank projection preserves order and equality",
                       "labels are non-null and totally ordered"]


# ----------------------------------------------------------------------------- replay
def replay(ctx, obj):
    dd()
    rec = obj["case"]["record"]
    if rec["op"] == "sdl":
        recs, _ = sdl_records([(rec["seq"], rec["mode"], rec["k"], rec["kind"], rec.get("via", "direct"))])
    else:
        recs, _ = quantile_records([rec["case"]])
    bad = decide(ctx, recs, "replay")
    for r in recs:
        print("observed:", {k: r[k] for k in r if k != "case"})
    print("rejected clauses:", [c for _, c in bad])
    return bool(bad)


# ----------------------------------------------------------------------------- selftest
def selftest(ctx):
    """Binding demonstration with ONE TLC run: the same small case set (every sorted sequence <= 5 over 3
    labels x npartitions/chunksize 1..6, a from_pandas sample, quantile cases) is executed on the unmutated
    code and under each in-memory mutant; all records (tagged) plus corrupted copies of a genuine record
    are decided together."""
    import itertools
    dd()
    import dask.dataframe.io.io as ioio
    import dask.dataframe.dask_expr.io.io as exio
    from dask.dataframe import partitionquantiles as pq
    from dask.dataframe.dask_expr import _quantiles as exq
    triples = [(list(seq), mode, k) for n in range(1, 6) for seq in itertools.combinations_with_replacement(range(3), n)
               for mode in ("n", "c") for k in range(1, 7)]
    items = [(seq, mode, k, KINDS[i % len(KINDS)], "direct") for i, (seq, mode, k) in enumerate(triples)]
    fp_items = [(seq, mode, k, "int-index", "from_pandas") for seq, mode, k in triples[::9] if len(seq) >= 2][:120]
    qcases = quantile_cases(ctx.rng, 100, 50, 400)
    tagged = []

    def collect(tag, which):
        if "sdl" in which:
            tagged.extend(dict(r, tag=tag, part="sdl") for r in sdl_records(items)[0])
        if "fp" in which:
            tagged.extend(dict(r, tag=tag, part="fp") for r in sdl_records(fp_items)[0])
        if "q" in which:
            tagged.extend(dict(r, tag=tag, part="q") for r in quantile_records(qcases)[0])

    collect("baseline", {"sdl", "fp", "q"})
    sdl = ioio.sorted_division_locations
    mutants = [
        ("sdl: position of a duplicated label not moved to its first occurrence (pos = i)",
         [ioio, exio], "sorted_division_locations", mutate(sdl, "pos = int(offsets[ind])", "pos = i"), {"sdl", "fp"}),
        ("sdl: enforce_exact boundary (len(offsets) > npartitions instead of >=)",
         [ioio, exio], "sorted_division_locations",
         mutate(sdl, "enforce_exact = npartitions and len(offsets) >= npartitions", "enforce_exact = npartitions and len(offsets) > npartitions"), {"sdl"}),
        ("sdl: residual rows ignored (residual = 0)",
         [ioio, exio], "sorted_division_locations", mutate(sdl, "residual = len(seq) % npartitions", "residual = 0"), {"sdl"}),
        ("sdl: enforce_exact step-back dropped (divs_remain > offs_remain never true)",
         [ioio, exio], "sorted_division_locations", mutate(sdl, "if divs_remain > offs_remain:", "if False:"), {"sdl"}),
        ("quantiles: 0th percentile dropped from the per-partition summary",
         [pq], "sample_percentiles", _drop_first(pq.sample_percentiles), {"q"}),
        ("quantiles: process_val_weights forgets to sort after adding the heavy ('jumbo') values back",
         [pq, exq], "process_val_weights",
         mutate(pq.process_val_weights, "rv = np.concatenate([trimmed, jumbo_vals])\n        rv.sort()", "rv = np.concatenate([trimmed, jumbo_vals])"), {"q"}),
    ]
    for name, targets, attr, mut, which in mutants:
        with patched(targets, attr, mut):
            collect(name, which)
    # (ii) corrupted / truncated records must be rejected by the trace specification
    r0 = sdl_records([([0, 0, 1, 1, 2, 3], "n", 3, "int-index", "direct")])[0][0]
    variants = {
        "genuine": r0,
        "location moved into a run of equal labels": dict(r0, locs=[r0["locs"][0], r0["locs"][1] + 1] + r0["locs"][2:]),
        "last division dropped": dict(r0, divs=r0["divs"][:-1]),
        "division swapped for another label": dict(r0, divs=[r0["divs"][0], r0["divs"][1] + 1] + r0["divs"][2:]),
        "one partition dropped (npartitions not met)": dict(r0, divs=r0["divs"][:1] + r0["divs"][2:], locs=r0["locs"][:1] + r0["locs"][2:]),
        "quantile divisions out of order": {"op": "quantiles", "layer": "pvw", "raised": "", "data": [0, 1, 2, 3], "divs": [0, 2, 1, 3]},
    }
    tagged += [dict(rec, tag="record:" + name, part="rec") for name, rec in variants.items()]
    pool = _Verdicts(JUDGED + ("tag",), CLAUSE_ORDER)
    pool.add(tagged)
    bytag = {}
    for rec, clauses, mult in pool.decide(ctx, "selftest"):
        key = str(clauses) if rec["part"] == "rec" else rec["part"]
        bytag.setdefault(rec["tag"], {})
        bytag[rec["tag"]][key] = bytag[rec["tag"]].get(key, 0) + mult
    ok = True
    base = bytag.get("baseline", {})
    print("selftest C45 baseline (unmutated code, %d calls): rejected %s -> %s"
          % (len(items) + len(fp_items) + len(qcases), base, "ok" if not base else "UNEXPECTED"))
    ok &= not base
    for name, _t, _a, _m, _w in mutants:
        got = bytag.get(name, {})
        print("selftest C45 mutant [%s]: rejected records %s -> %s" % (name, got, "DETECTED" if got else "MISSED"))
        ok &= bool(got)
    acc = "record:genuine" not in bytag
    print("selftest C45 trace: genuine record accepted -> %s" % ("ok" if acc else "UNEXPECTED %s" % bytag.get("record:genuine")))
    ok &= acc
    for name in list(variants)[1:]:
        got = bytag.get("record:" + name)
        print("selftest C45 corrupted record [%s]: %s" % (name, "REJECTED %s" % list(got) if got else "ACCEPTED (missed)"))
        ok &= bool(got)
    print("selftest C45: %s" % ("all binding demonstrations hold" if ok else "FAILED"))
    return 0 if ok else 1


def _drop_first(orig):
    def sample_percentiles(*a, **kw):
        return orig(*a, **kw)[1:]
    return sample_percentiles
