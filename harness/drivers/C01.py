"""C01 - Local schedulers compute exactly the values the task graph denotes.  See harness/schedrun.py (shared by C01-C04) and specs/sched/LocalScheduler*.tla."""
from .. import schedrun as R

META = dict(R.META_COMMON, title="Local schedulers compute exactly the values the task graph denotes", level_text="TLC model-checks ResultCorrect/CacheValues on every interleaving of batch completions for a seeded sample of all graphs over <= 4 keys (tasks, literals, aliases, nested-list arguments; legacy and task-spec form), every request nesting, num_workers 1-3, chunksize 1/k/-1; every behaviour of a configuration subset is replayed through the real get_async (value of every posttask and the packed result compared with the graph's denotation computed in TLA+); real threaded/executor/sync runs are validated by TLC.")


def run(ctx):
    R.run_property(ctx, "C01")


def replay(ctx, obj):
    return R.replay_case(ctx, "C01", obj)


def selftest(ctx):
    return R.selftest_property(ctx, "C01")
