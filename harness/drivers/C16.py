"""C16 - graph manipulation keeps values and changes only keys and ordering.

Design + cases: TLC enumerates (specs/graph/GraphManipMC.tla) every configuration of N collections in a
DAG x operation (clone / bind / wait_on / checkpoint) x children / parents / omit sets, and checks that a
reference transcription of dask.graph_manipulation satisfies the contract of specs/graph/GraphManip.tla
(values, disjoint output keys, regenerated keys, happens-before by graph ancestry) - and that the
transcription of Layer.clone as it treats task objects does NOT.  Each configuration is instantiated with
real collections (delayed trees of Task objects, delayed trees of legacy tuples, bags, arrays), the real
function is called, the graphs before / after are materialized and abstracted (every task becomes an
expression over renamed keys), the result is computed, and the bound graph is executed by
dask.local.get_async under the controlled executor with an adversarial schedule (complete a child task
first whenever one is in flight).  TLC decides every record (GraphManipTrace.tla): it computes
denotations and ancestry itself."""
from __future__ import annotations

import random
import warnings

from ..core import TLA, MachineryError
from ..herbrand import Fn, Term
from ..par import pmap

META = {
    "title": "Graph manipulation keeps values and changes only keys and ordering",
    "design_ref": "DESIGN.md §4.2 C16",
    "technique": "TLA+ contract on abstracted task graphs (denotation, key disjointness, ancestry = happens-before); TLC checks a reference "
                 "transcription on all small configurations and decides records of real clone/bind/wait_on/checkpoint calls, incl. event "
                 "logs of adversarially scheduled executions",
    "level_text": "TLC enumerates all configurations of 3 collections (thorough: also 4, without bind) in a dependency DAG x {clone, bind, wait_on, checkpoint} "
                  "x children/parents/omit subsets and proves the contract clauses for the reference transcription (and their violation "
                  "for the transcription that leaves task objects unsubstituted). Every configuration (thorough: a seeded sample of the "
                  "4-collection ones) is instantiated with real dask collections of 4 kinds (delayed trees with Task objects, delayed "
                  "trees with legacy tuples, bags, arrays; <= 40 tasks), random seed / assume_layers / split_every; graphs before/after "
                  "are materialized, abstracted to expressions and decided by TLC (Denotes, Disjoint, Regenerated, HappensBefore), the "
                  "results are computed and compared, and the result graph is run under the controlled executor with an adversarial "
                  "schedule whose start/finish log TLC checks (Order).",
    "level_note": "Trusted: TLC, the abstraction of tasks to expressions (function names + literal digests; chunks.bind / chunks.checkpoint "
                  "are the only interpreted functions), the controlled executor (harness/sched.py). Happens-before is decided by graph "
                  "ancestry (sound for every schedule by C02) plus one adversarial schedule per case, not all schedules. Dataframes and "
                  "third-party collections are not covered; distributed is absent.",
}

KINDS = ("delayed", "legacy", "bag", "array")


# --------------------------------------------------------------------------- real collections for a configuration
def make_colls(case, kind, parts=2):
    """The N collections of a configuration, collection i computed from the collections dag[i]."""
    import dask
    colls = []
    for i, deps_idx in enumerate(case["dag"], 1):
        deps = [colls[d - 1] for d in deps_idx]
        f = Fn("f%d" % i)
        if kind == "delayed":
            c = dask.delayed(f)(*deps) if deps else dask.delayed(f)(7)
        elif kind == "legacy":
            from dask.base import tokenize
            from dask.delayed import Delayed
            from dask.highlevelgraph import HighLevelGraph
            import uuid
            name = "leg%d-%s" % (i, tokenize(uuid.uuid4().hex))
            task = (f,) + tuple(d.key for d in deps) if deps else (f, 7)
            if len(deps) == 2:
                task = (f, deps[0].key, [deps[1].key, 7])         # a key inside a list argument
            c = Delayed(name, HighLevelGraph.from_collections(name, {name: task}, dependencies=deps))
        elif kind == "bag":
            import dask.bag as db
            if deps:
                c = db.map(f, *deps)
            else:
                c = db.from_sequence([10 * i + j for j in range(2 * parts)], npartitions=parts).map(f)
        elif kind == "array":
            import dask.array as da
            import numpy as np
            if deps:
                c = deps[0] * (i + 1)
                for d in deps[1:]:
                    c = c + d
                c = c + i
            else:
                c = da.from_array(np.arange(2 * parts) + 10 * i, chunks=2) + i
        else:
            raise ValueError(kind)
        colls.append(c)
    return colls


# --------------------------------------------------------------------------- abstraction of materialized graphs
def fname(f):
    from dask.graph_manipulation import chunks
    from dask.utils import funcname
    if f is chunks.bind:
        return "BIND"
    if f is chunks.checkpoint:
        return "CHECKPOINT"
    if isinstance(f, Fn):
        return "fn:" + f.label
    try:
        return str(funcname(f))[:48]
    except Exception:  # noqa: BLE001
        return type(f).__name__


def digest(v):
    from dask.base import tokenize
    if v is None or isinstance(v, (bool, int, str)):
        return repr(v)[:40]
    if isinstance(v, Fn):
        return "fn:" + v.label
    if callable(v):
        return "callable:" + fname(v)
    try:
        return "%s:%s" % (type(v).__name__, tokenize(v)[:10])
    except Exception:  # noqa: BLE001
        return "%s:?" % type(v).__name__


def abstract(v, universe, kid):
    """One graph value -> expression of GraphManip.tla.  universe: all keys of both graphs; kid: key -> name."""
    from dask._task_spec import Alias, DataNode, GraphNode, Task, TaskRef

    def ref(k):
        return {"t": "ref", "k": kid(k)}

    def walk(x, top=False):
        if isinstance(x, TaskRef):
            return ref(x.key)
        if isinstance(x, Alias):
            return ref(x.target)
        if isinstance(x, DataNode):
            return {"t": "lit", "s": digest(x.value)}
        if isinstance(x, Task):
            args = [walk(a) for a in x.args]
            for name in sorted(k for k in x.kwargs if k != "constructor"):
                args.append({"t": "call", "f": "kw:" + str(name), "a": [walk(x.kwargs[name])]})
            f = x.func
            label = fname(f) if type(x) is Task else "container:" + type(x).__name__
            return {"t": "call", "f": label, "a": args}
        if isinstance(x, GraphNode):
            return {"t": "call", "f": "node:" + type(x).__name__, "a": [ref(d) for d in sorted(x.dependencies, key=str)]}
        if type(x) is tuple and x and callable(x[0]):
            return {"t": "call", "f": fname(x[0]), "a": [walk(a) for a in x[1:]]}
        if type(x) is list:
            return {"t": "list", "a": [walk(a) for a in x]}
        try:
            if x in universe:
                return ref(x)
        except TypeError:
            pass
        return {"t": "lit", "s": digest(x)}

    return walk(v, True)


def materialize(colls):
    from dask.utils import ensure_dict
    g = {}
    for c in colls:
        g.update(ensure_dict(c.__dask_graph__()))
    return g


def flat_keys(colls):
    from dask.core import flatten
    out = []
    for c in colls:
        out.extend(flatten(c.__dask_keys__()))
    return out


def same_values(a, b):
    import numpy as np
    if len(a) != len(b):
        return False
    for x, y in zip(a, b):
        if isinstance(x, np.ndarray) or isinstance(y, np.ndarray):
            if not (isinstance(x, np.ndarray) and isinstance(y, np.ndarray) and x.shape == y.shape and x.dtype == y.dtype and np.array_equal(x, y)):
                return False
        elif type(x) is not type(y) or x != y:
            return False
    return True


# --------------------------------------------------------------------------- the adversarial execution
def needed(g, keys):
    from dask._task_spec import convert_legacy_graph
    gg = convert_legacy_graph(g)
    seen, work = set(), list(keys)
    while work:
        k = work.pop()
        if k in seen or k not in gg:
            continue
        seen.add(k)
        work.extend(gg[k].dependencies)
    return seen


def is_blocker(v):
    f = getattr(v, "func", None)
    if f is None and type(v) is tuple and v and callable(v[0]):
        f = v[0]
    return f is not None and fname(f) == "CHECKPOINT"


def controlled_run(g2, out2, waiters, nworkers=3):
    """Run the result graph with dask.local.get_async; whenever a waiter is in flight it completes first."""
    import dask.local as L
    from ..sched import Controlled
    events = []

    def chooser(heads):
        for i, h in enumerate(heads):
            if h in waiters:
                return i
        return len(heads) - 1

    ctl = Controlled(chooser=chooser)
    pre = lambda key, dsk, state: events.append(("start", key))
    post = lambda key, res, dsk, state, wid: events.append(("finish", key))
    old = L.queue_get
    L.queue_get = ctl.queue_get
    try:
        L.get_async(ctl.submit, nworkers, dict(g2), list(out2), callbacks=[(None, None, pre, post, None)])
    finally:
        L.queue_get = old
    return events


# --------------------------------------------------------------------------- one case
def run_case(case, kind, seed, assume_layers, split_every, parts=2):
    """Instantiate, call the real function, observe.  Returns the record for TLC (without id)."""
    import dask
    from dask import graph_manipulation as GM
    from dask._task_spec import GraphNode
    op = case["op"]
    rec = {"op": op, "g": [], "g2": [], "out": [], "out2": [], "omitout": [], "keep": [], "parents": [],
           "obs": {"raised": "", "same": False, "events": []}, "msg": "", "taskobj": False, "blockwise": False, "stage": ""}
    with warnings.catch_warnings():
        warnings.simplefilter("ignore")
        colls = make_colls(case, kind, parts)
        children = [colls[i - 1] for i in case["children"]]
        parents = [colls[i - 1] for i in case["parents"]]
        omit = [colls[i - 1] for i in case["omit"]]
        # does a non-Blockwise layer hold task OBJECTS that refer to other keys?  (input class of a known finding)
        from dask.blockwise import Blockwise
        for c in children:
            hlg = c.__dask_graph__()
            for layer in getattr(hlg, "layers", {}).values():
                if isinstance(layer, Blockwise):
                    rec["blockwise"] = True
                elif any(isinstance(v, GraphNode) and v.dependencies for v in layer.values()):
                    rec["taskobj"] = True
        g = materialize(colls)
        out = flat_keys(children)
        try:
            rec["stage"] = "call"
            if op == "clone":
                res = GM.clone(*children, omit=omit or None, seed=seed, assume_layers=assume_layers)
                res = [res] if len(children) == 1 else list(res)
            elif op == "bind":
                res = GM.bind(tuple(children), parents, omit=omit or None, seed=seed, assume_layers=assume_layers, split_every=split_every)
                res = list(res)
            elif op == "wait_on":
                res = GM.wait_on(*children, split_every=split_every)
                res = [res] if len(children) == 1 else list(res)
            else:
                res = [GM.checkpoint(*children, split_every=split_every)]
            rec["stage"] = "materialize"
            g2 = materialize(res)
            out2 = flat_keys(res)
        except Exception as ex:  # noqa: BLE001 - an exception of dask is an observation
            rec["obs"]["raised"] = type(ex).__name__
            rec["msg"] = "%s: %s" % (rec["stage"], str(ex)[:150])
            return rec
        universe = set(g) | set(g2)
        names = {}
        kid = lambda k: names.setdefault(k, "k%d" % (len(names) + 1))
        rec["g"] = [{"k": kid(k), "e": abstract(v, universe, kid)} for k, v in g.items()]
        rec["g2"] = [{"k": kid(k), "e": abstract(v, universe, kid)} for k, v in g2.items()]
        rec["out"] = [kid(k) for k in out]
        rec["out2"] = [kid(k) for k in out2]
        rec["omitout"] = [kid(k) for k in flat_keys(omit)]
        rec["parents"] = [kid(k) for k in flat_keys(parents)]
        rec["keep"] = rec["omitout"] + (rec["parents"] if op == "bind" else [])
        rec["ntasks"] = len(g2)
        try:
            rec["stage"] = "compute"
            want = [None] if op == "checkpoint" else list(dask.compute(*children, scheduler="sync"))
            got = list(dask.compute(*res, scheduler="sync"))
            rec["obs"]["same"] = same_values(want, got)
            if op != "clone":
                rec["stage"] = "controlled-run"
                nd2 = needed(g2, out2)
                waiters = {k for k in nd2 if k not in g and not is_blocker(g2[k])} if op == "bind" else set(out2)
                ev = controlled_run(g2, out2, waiters)
                rec["obs"]["events"] = [{"e": e, "k": kid(k)} for e, k in ev]
        except Exception as ex:  # noqa: BLE001
            rec["obs"]["raised"] = type(ex).__name__
            rec["msg"] = "%s: %s" % (rec["stage"], str(ex)[:150])
    return rec


def _work(item):
    i, case, kind, seed, al, se, parts = item
    rec = run_case(case, kind, seed, al, se, parts)
    rec["id"] = "c%d" % i
    rec["kind"] = kind
    rec["params"] = [repr(seed), al, repr(se), parts]
    return rec


def classify(case, rec, clause):
    """Signature = input class of the call; classes behind recorded known findings first."""
    op = case["op"]
    assume_layers = rec["params"][1]
    if op in ("clone", "bind") and rec["taskobj"]:
        return "%s:task-object-layer" % op
    if op in ("clone", "bind") and not assume_layers and case["omit"] and rec["blockwise"]:
        return "%s:assume_layers=False+omit:blockwise" % op
    if op == "bind" and rec["kind"] == "bag" and clause == "Computes":
        return "bind:bag:lazified-reify"
    return "%s:%s:%s:omit=%s" % (op, rec["kind"], clause, bool(case["omit"]))


FIELDS = ("id", "op", "g", "g2", "out", "out2", "omitout", "keep", "parents", "obs")


def check_cases(ctx, cases, rng, kinds=KINDS):
    """Instantiate every configuration once (kind and parameters drawn by rng), let TLC decide."""
    before = len(ctx.violations)
    items = []
    for i, c in enumerate(cases):
        kind = kinds[i % len(kinds)] if rng.random() < 0.5 else rng.choice(kinds)
        items.append((i, c, kind, rng.choice([None, 123, "seed"]), rng.random() < 0.6, rng.choice([None, 2, 3, False]), rng.choice([2, 2, 3])))
    recs = pmap(_work, items, chunk=30)
    spec, cfg = ctx.model(ctx.spec("graph", "GraphManipTrace.tla"), {})
    for lo in range(0, len(recs), 1500):
        part = recs[lo:lo + 1500]
        rej = ctx.tlc_validate(spec, [{k: r[k] for k in FIELDS} for r in part], cfg, timeout=1500)
        for r in part:
            case = cases[int(r["id"][1:])]
            ctx.count((case, r["kind"], r["params"]), case["op"] != "clone" or len(case["regen"]) > 1)
            if r["id"] in rej:
                clauses = rej[r["id"]][0]
                cl = clauses.strip('{} "').split('"')[0].split(",")[0] or "Rejected"
                ctx.violation(classify(case, r, cl),
                              "dask.graph_manipulation.%s on %s collections %s (children %s, parents %s, omit %s; seed/assume_layers/"
                              "split_every/partitions %s): TLC rejects the record %s%s"
                              % (case["op"], r["kind"], case["dag"], case["children"], case["parents"], case["omit"], r["params"], clauses,
                                 (" - %s %s" % (r["obs"]["raised"], r["msg"])) if r["obs"]["raised"] else ""),
                              {"case": case, "kind": r["kind"], "params": [items[int(r["id"][1:])][k] for k in (3, 4, 5, 6)], "clauses": clauses,
                               "raised": r["obs"]["raised"], "msg": r["msg"]})
    if recs:
        r = recs[len(recs) // 2]
        ctx.sample({"config": cases[int(r["id"][1:])], "kind": r["kind"], "tasks_after": r.get("ntasks"), "events": len(r["obs"]["events"]),
                    "same_values": r["obs"]["same"]})
    ctx.extra["calls_recorded"] = ctx.extra.get("calls_recorded", 0) + len(recs)
    ctx.extra["max_tasks_in_result_graph"] = max([ctx.extra.get("max_tasks_in_result_graph", 0)] + [r.get("ntasks", 0) for r in recs])
    ctx.extra["executions_under_adversarial_schedule"] = ctx.extra.get("executions_under_adversarial_schedule", 0) + \
        sum(1 for r in recs if r["obs"]["events"])
    return len(ctx.violations) - before


INVS = ["RefDenotes", "RefDisjoint", "RefRegenerated", "RefHappensBefore", "RefBindsSomething"]
ALLOPS = '{"clone", "bind", "wait_on", "checkpoint"}'


def enumerate_cases(ctx, n, ops=ALLOPS):
    spec, cfg = ctx.model(ctx.spec("graph", "GraphManipMC.tla"), {"N": n, "P": 2, "Ops": TLA(ops), "Impl": "ref"}, invariants=INVS)
    cases, _ = ctx.tlc_cases(spec, cfg, label="design(reference satisfies the contract)+configurations:N=%d" % n, timeout=1500)
    # the clauses have teeth: the transcription that leaves task objects unsubstituted must violate them
    spec2, cfg2 = ctx.model(ctx.spec("graph", "GraphManipMC.tla"), {"N": min(n, 3), "P": 2, "Ops": TLA('{"clone", "bind"}'), "Impl": "unsubstituted"},
                            invariants=["RefRegenerated", "RefHappensBefore"])
    r2 = ctx.tlc(spec2, cfg2, allow_violation=True, label="design(unsubstituted task objects) must fail", count=False)
    if not r2.violated:
        raise MachineryError("vacuity: TLC no longer finds the counterexample for unsubstituted task objects")
    ctx.extra["configurations_enumerated_by_tlc"] = ctx.extra.get("configurations_enumerated_by_tlc", 0) + len(cases)
    return cases


def run(ctx):
    rng = ctx.rng
    cases = enumerate_cases(ctx, 3)
    sampled = False
    if not ctx.quick:
        # 4 collections: bind has 2 * 10^5 configurations there - clone / wait_on / checkpoint only
        more = enumerate_cases(ctx, 4, '{"clone", "wait_on", "checkpoint"}')
        cap = 5000
        if len(more) > cap:
            more = rng.sample(more, cap)
            sampled = True
        cases = cases + more
    check_cases(ctx, cases, rng)
    ctx.exhaustive = not sampled
    ctx.rule = ("a case = one configuration (DAG of collections, operation, children/parents/omit) instantiated with one kind of real "
                "collection and one choice of seed / assume_layers / split_every / partitions; non-trivial = the operation has to touch "
                "more than one task layer or orders tasks; distinct by (configuration, kind, parameters)")
    ctx.assumptions = ["uninterpreted task functions: equal terms mean equal values", "graph ancestry implies execution order (C02)",
                       "one adversarial schedule per bound graph, not all schedules"]


def replay(ctx, obj):
    c = obj["case"]
    seed, al, se, parts = c["params"]
    rec = run_case(c["case"], c["kind"], seed, al, se, parts)
    rec["id"] = "c0"
    spec, cfg = ctx.model(ctx.spec("graph", "GraphManipTrace.tla"), {})
    rej = ctx.tlc_validate(spec, [{k: rec[k] for k in FIELDS}], cfg)
    print("configuration:", c["case"], "kind:", c["kind"], "params:", c["params"], "\nraised:", rec["obs"]["raised"], rec["msg"],
          "\nsame values:", rec["obs"]["same"], "\nrejected:", rej)
    return bool(rej)


def selftest(ctx):
    import copy
    import glob
    import os
    import sys

    import dask.blockwise  # noqa: F401
    import dask.graph_manipulation  # noqa: F401
    import dask.highlevelgraph  # noqa: F401
    from ..mutate import source_mutant
    GM, HLG, BW = sys.modules["dask.graph_manipulation"], sys.modules["dask.highlevelgraph"], sys.modules["dask.blockwise"]
    ok = True
    rdir = os.path.join(os.path.dirname(os.path.dirname(os.path.dirname(os.path.abspath(__file__)))), "replays")
    before = set(glob.glob(os.path.join(rdir, "C16-*.json")))
    cases = enumerate_cases(ctx, 3)
    cases = random.Random(3).sample(cases, min(len(cases), 220))
    kinds = ("legacy", "bag", "array")

    def attempt(name):
        n = check_cases(ctx, cases, random.Random(5), kinds)
        sigs = sorted({s for s, _, _ in ctx.violations})
        del ctx.violations[:]
        ctx.viol_count.clear()
        print("mutant %s: %s (%d violations; e.g. %s)" % (name, "DETECTED" if n else "MISSED", n, sigs[:3]))
        return n > 0

    n = check_cases(ctx, cases, random.Random(5), kinds)
    print("unchanged dask on the self-test case set (%d configurations): %d violations outside the known findings %s"
          % (len(cases), n, sorted(ctx.known_hit)))
    ok &= n == 0
    # mutant 1: materialized layers never inject the blocker (bind does not bind)
    orig_clone = HLG.Layer.clone
    HLG.Layer.clone = lambda self, keys, seed, bind_to=None: orig_clone(self, keys, seed, None)
    try:
        ok &= attempt("layer-clone-ignores-bind_to")
    finally:
        HLG.Layer.clone = orig_clone
    # mutant 2: the recursive aggregation of checkpoint loses one key per round
    with source_mutant(GM, "_checkpoint_one", "map_keys = map_keys[split_every:] + [k]", "map_keys = map_keys[split_every + 1:] + [k]"):
        ok &= attempt("checkpoint-reduction-drops-a-key")
    # mutant 3: wait_on forgets to depend on the blocker
    with source_mutant(GM, "wait_on", "chunks.bind, prev_name, new_name, coll, dependencies=(blocker,)",
                       "chunks.bind, prev_name, new_name, coll, dependencies=()"):
        ok &= attempt("wait_on-without-blocker")
    # mutant 4: regenerated keys are not new (clone_key returns the key)
    saved = GM.clone_key, HLG.clone_key, BW.clone_key
    GM.clone_key = HLG.clone_key = BW.clone_key = lambda key, seed: key
    try:
        ok &= attempt("clone_key-identity")
    finally:
        GM.clone_key, HLG.clone_key, BW.clone_key = saved
    # binding of the trace spec: untouched accepted; a parent's finish moved behind a child's start, and an
    # output key of the result replaced by the original one, are rejected
    case = [c for c in cases if c["op"] == "bind" and len(c["parents"]) >= 1 and not c["omit"]][0]
    rec = run_case(case, "legacy", 1, True, None, 2)
    rec["id"] = "ok"
    base = {k: rec[k] for k in FIELDS}
    bad1 = copy.deepcopy(base)
    bad1["id"] = "order"
    ev = bad1["obs"]["events"]
    pk = bad1["parents"][0]
    fin = [i for i, e in enumerate(ev) if e["e"] == "finish" and e["k"] == pk][0]
    ev.append(ev.pop(fin))
    bad2 = copy.deepcopy(base)
    bad2["id"] = "key"
    bad2["out2"][0] = bad2["out"][0]
    spec, cfg = ctx.model(ctx.spec("graph", "GraphManipTrace.tla"), {})
    rej = ctx.tlc_validate(spec, [base, bad1, bad2], cfg)
    print("untouched record: %s; parent finish moved to the end: %s; output key replaced by the original: %s"
          % (rej.get("ok", "accepted"), rej.get("order", "accepted"), rej.get("key", "accepted")))
    ok &= "ok" not in rej and "order" in rej and "key" in rej
    for f in set(glob.glob(os.path.join(rdir, "C16-*.json"))) - before:
        os.remove(f)
    return 0 if ok else 1
