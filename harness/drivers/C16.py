"""C16 - graph manipulation keeps values and changes only keys and ordering.

Design + cases: TLC enumerates (specs/graph/GraphManipMC.tla) every configuration of N collections in a
DAG x operation (clone / bind / wait_on / checkpoint) x children / parents / omit sets, and checks that a
reference transcription of dask.graph_manipulation satisfies the contract of specs/graph/GraphManip.tla
(values, disjoint output keys, regenerated keys, happens-before by graph ancestry) - and that the
transcription of Layer.clone as it treats task objects does NOT.  Each configuration is instantiated with
real collections (delayed trees of Task objects, delayed trees of legacy tuples, bags, arrays), the real
function is called, the graphs before / after are materialized and abstracted (every task becomes an
expression over renamed keys), the result is computed, and the bound graph is executed by
dask.local.get_async under the controlled executor with an adversarial schedule (complete a child task
first whenever one is in flight).  TLC decides every record (GraphManipTrace.tla): it computes
denotations and ancestry itself."""
from __future__ import annotations

import random
import warnings

from ..core import TLA, MachineryError
from ..herbrand import Fn, Term
from ..par import pmap

META = {
    "title": "Graph manipulation keeps values and changes only keys and ordering",
    "design_ref": "DESIGN.md §4.2 C16",
    "technique": "TLA+ contract on abstracted task graphs (denotation, key disjointness, ancestry = happens-before); TLC checks a reference "
                 "transcription on all small configurations and decides records of real clone/bind/wait_on/checkpoint calls, incl. event "
                 "logs of adversarially scheduled executions",
    "level_text": "TLC enumerates all configurations of 3 collections (thorough: also 4, without bind) in a dependency DAG x {clone, bind, wait_on, "
                  "checkpoint} x children/parents/omit subsets, plus configurations with TWO calls that share a member collection (one "
                  "collection in two wait_on / checkpoint groups, one child bound to two different parents, two clones with different seeds) "
                  "whose results are used in one graph, and proves the contract clauses for the reference transcription in the joint graph "
                  "(and their violation for the transcription that leaves task objects unsubstituted). The configurations (quick: all double "
                  "ones up to 500 and a seeded sample of the single ones, 1000 in total; thorough: all of the 3-collection ones and a sample of "
                  "the 4-collection ones) are instantiated with real dask collections of 6 kinds (delayed trees with Task objects and declared "
                  "lengths, delayed trees with legacy tuples incl. list / dict arguments, bags, 1-d arrays, 2-d arrays through creation / "
                  "transposed / new-axis / contraction / reduction layers, arrays whose Blockwise layers take Delayed arguments), random seed / "
                  "assume_layers / split_every / partitions / nesting of the arguments; the graphs before/after (the JOINT graph of all results) "
                  "are materialized, abstracted to expressions and decided by TLC (Denotes, Disjoint, Regenerated, HappensBefore per call), "
                  "the results are computed together and compared (values, type / keys-shape / metadata, seed determinism), and the joint "
                  "result graph is run under the controlled executor with an adversarial schedule whose start/finish log TLC checks (Order).",
    "level_note": "Trusted: TLC, the abstraction of tasks to expressions (function names + literal digests; chunks.bind / chunks.checkpoint "
                  "are the only interpreted functions), the controlled executor (harness/sched.py). Happens-before is decided by graph "
                  "ancestry (sound for every schedule by C02) plus one adversarial schedule per case, not all schedules. Dataframes and "
                  "third-party collections are not covered; distributed is absent.",
}

KINDS = ("delayed", "legacy", "bag", "array", "array2", "array_delayed")


# --------------------------------------------------------------------------- real collections for a configuration
def make_colls(case, kind, parts=2):
    """The N collections of a configuration, collection i computed from the collections dag[i]."""
    import dask
    colls = []
    for i, deps_idx in enumerate(case["dag"], 1):
        deps = [colls[d - 1] for d in deps_idx]
        f = Fn("f%d" % i)
        if kind == "delayed":
            # every third collection has a declared length (delayed(f, nout=n)): metadata the result must keep
            df = dask.delayed(f, nout=(i % 3) or None)
            c = df(*deps) if deps else df(7)
        elif kind == "legacy":
            from dask.base import tokenize
            from dask.delayed import Delayed
            from dask.highlevelgraph import HighLevelGraph
            import uuid
            name = "leg%d-%s" % (i, tokenize(uuid.uuid4().hex))
            task = (f,) + tuple(d.key for d in deps) if deps else (f, 7)
            if len(deps) == 2:
                # a key inside a list argument / inside a dict argument
                task = (f, deps[0].key, [deps[1].key, 7]) if i % 2 else (f, {"a": deps[0].key, "b": [deps[1].key]}, 7)
            c = Delayed(name, HighLevelGraph.from_collections(name, {name: task}, dependencies=deps))
        elif kind == "bag":
            import dask.bag as db
            if deps:
                c = db.map(f, *deps)
            else:
                c = db.from_sequence([10 * i + j for j in range(2 * parts)], npartitions=parts).map(f)
        elif kind == "array":
            import dask.array as da
            import numpy as np
            if deps:
                c = deps[0] * (i + 1)
                for d in deps[1:]:
                    c = c + d
                c = c + i
            else:
                c = da.from_array(np.arange(2 * parts) + 10 * i, chunks=2) + i
        elif kind == "array_delayed":
            # Blockwise layers with NON-array arguments: odd leaves are Delayed scalars, every other collection is an
            # array computed by map_blocks / blockwise from its array dependencies and its Delayed dependencies
            import dask.array as da
            import numpy as np
            from dask.delayed import Delayed
            arrs = [d for d in deps if not isinstance(d, Delayed)]
            dels = [d for d in deps if isinstance(d, Delayed)]
            if not deps and i % 2:
                c = dask.delayed(_scalar)(10 * i)
            elif not deps:
                c = da.from_array(np.arange(2 * parts) + 10 * i, chunks=2) + i
            else:
                base = arrs[0] if arrs else da.from_array(np.arange(2 * parts) + 10 * i, chunks=2)
                if i % 2 or not dels:
                    c = da.map_blocks(_addall, base, *arrs[1:], *dels, dtype=base.dtype) * (i + 1)
                else:
                    args = []
                    for a in arrs[1:]:
                        args += [a, "i"]
                    for d in dels:
                        args += [d, None]
                    c = da.blockwise(_addall, "i", base, "i", *args, dtype=base.dtype) + i
        elif kind == "array2":
            # 2-d arrays through the other Blockwise paths: creation layers (io_deps), transposed indices,
            # reductions (tree of non-Blockwise layers), broadcasting of a 0-d / keepdims result
            import dask.array as da
            import numpy as np
            if not deps:
                if i % 2:
                    c = da.ones((2 * parts, 2), chunks=(2, 1)) * (10 * i)
                else:
                    c = da.from_array(np.arange(4 * parts).reshape(2 * parts, 2) + 10 * i, chunks=(2, 2)) + i
            elif len(deps) == 1:
                d = deps[0]
                wide = da.map_blocks(_add_axis, d, new_axis=2, chunks=d.chunks + ((1,),), dtype=d.dtype)     # new_axes
                c = d.T.T * (i + 1) + d.sum(axis=0, keepdims=True) + wide.sum(axis=2)
            else:
                prod = da.matmul(deps[0], deps[1].T)                                               # contraction (concatenate)
                c = deps[0] + deps[1].T.T + deps[1].max() + prod.sum(axis=1, keepdims=True)
        else:
            raise ValueError(kind)
        colls.append(c)
    return colls


def _scalar(x):
    return x


def _addall(block, *others):
    out = block
    for o in others:
        out = out + o
    return out


def _add_axis(block):
    return block[:, :, None]


def meta_sig(coll):
    """Type, shape of __dask_keys__ and the metadata a manipulated collection must keep (names excluded)."""
    def shape(keys):
        return [shape(k) for k in keys] if isinstance(keys, list) else 0
    mod = type(coll).__module__
    if mod.startswith("dask.array"):
        md = [list(coll.shape), str(coll.dtype), [list(c) for c in coll.chunks]]
    elif mod.startswith("dask.bag"):
        md = [getattr(coll, "npartitions", None)]
    elif mod.startswith("dask.delayed"):
        try:
            n = len(coll)
        except TypeError:
            n = "no length"
        try:
            parts = len([x for x in coll])
        except TypeError:
            parts = "not iterable"
        md = [n, parts]
    else:
        md = []
    return [type(coll).__name__ if not mod.startswith("dask.delayed") else "Delayed", shape(coll.__dask_keys__()), md]


def nest(colls, how):
    """The collections as the (possibly nested) argument structure handed to the function."""
    if how == 0 or not colls:
        return list(colls)
    if how == 1:
        return [{"a": colls[0], "rest": list(colls[1:])}]
    return [(colls[0],)] + [[c] for c in colls[1:]]


def unnest(obj, acc=None):
    """Collections of a returned structure in traversal order."""
    from dask.base import is_dask_collection
    acc = [] if acc is None else acc
    if is_dask_collection(obj):
        acc.append(obj)
    elif isinstance(obj, dict):
        for v in obj.values():
            unnest(v, acc)
    elif isinstance(obj, (list, tuple)):
        for v in obj:
            unnest(v, acc)
    return acc


# --------------------------------------------------------------------------- abstraction of materialized graphs
def fname(f):
    from dask.graph_manipulation import chunks
    from dask.utils import funcname
    if f is chunks.bind:
        return "BIND"
    if f is chunks.checkpoint:
        return "CHECKPOINT"
    if isinstance(f, Fn):
        return "fn:" + f.label
    try:
        return str(funcname(f))[:48]
    except Exception:  # noqa: BLE001
        return type(f).__name__


def digest(v):
    from dask.base import tokenize
    if v is None or isinstance(v, (bool, int, str)):
        return repr(v)[:40]
    if isinstance(v, Fn):
        return "fn:" + v.label
    if callable(v):
        return "callable:" + fname(v)
    try:
        return "%s:%s" % (type(v).__name__, tokenize(v)[:10])
    except Exception:  # noqa: BLE001
        return "%s:?" % type(v).__name__


def abstract(v, universe, kid):
    """One graph value -> expression of GraphManip.tla.  universe: all keys of both graphs; kid: key -> name."""
    from dask._task_spec import Alias, DataNode, GraphNode, Task, TaskRef

    def ref(k):
        return {"t": "ref", "k": kid(k)}

    def walk(x, top=False):
        if isinstance(x, TaskRef):
            return ref(x.key)
        if isinstance(x, Alias):
            return ref(x.target)
        if isinstance(x, DataNode):
            return {"t": "lit", "s": digest(x.value)}
        if isinstance(x, Task):
            args = [walk(a) for a in x.args]
            for name in sorted(k for k in x.kwargs if k != "constructor"):
                args.append({"t": "call", "f": "kw:" + str(name), "a": [walk(x.kwargs[name])]})
            f = x.func
            label = fname(f) if type(x) is Task else "container:" + type(x).__name__
            return {"t": "call", "f": label, "a": args}
        if isinstance(x, GraphNode):
            return {"t": "call", "f": "node:" + type(x).__name__, "a": [ref(d) for d in sorted(x.dependencies, key=str)]}
        if type(x) is tuple and x and callable(x[0]):
            return {"t": "call", "f": fname(x[0]), "a": [walk(a) for a in x[1:]]}
        if type(x) is list:
            return {"t": "list", "a": [walk(a) for a in x]}
        if type(x) is dict and x:
            ks = sorted(x, key=repr)
            return {"t": "call", "f": "dict:" + ",".join(repr(k)[:20] for k in ks), "a": [walk(x[k]) for k in ks]}
        try:
            if x in universe:
                return ref(x)
        except TypeError:
            pass
        return {"t": "lit", "s": digest(x)}

    return walk(v, True)


def materialize(colls):
    from dask.utils import ensure_dict
    g = {}
    for c in colls:
        g.update(ensure_dict(c.__dask_graph__()))
    return g


def flat_keys(colls):
    from dask.core import flatten
    out = []
    for c in colls:
        out.extend(flatten(c.__dask_keys__()))
    return out


def same_values(a, b):
    import numpy as np
    if len(a) != len(b):
        return False
    for x, y in zip(a, b):
        if isinstance(x, np.ndarray) or isinstance(y, np.ndarray):
            if not (isinstance(x, np.ndarray) and isinstance(y, np.ndarray) and x.shape == y.shape and x.dtype == y.dtype and np.array_equal(x, y)):
                return False
        elif type(x) is not type(y) or x != y:
            return False
    return True


# --------------------------------------------------------------------------- the adversarial execution
def needed(g, keys):
    from dask._task_spec import convert_legacy_graph
    gg = convert_legacy_graph(g)
    seen, work = set(), list(keys)
    while work:
        k = work.pop()
        if k in seen or k not in gg:
            continue
        seen.add(k)
        work.extend(gg[k].dependencies)
    return seen


def is_blocker(v):
    f = getattr(v, "func", None)
    if f is None and type(v) is tuple and v and callable(v[0]):
        f = v[0]
    return f is not None and fname(f) == "CHECKPOINT"


def controlled_run(g2, out2, waiters, nworkers=3):
    """Run the result graph with dask.local.get_async; whenever a waiter is in flight it completes first."""
    import dask.local as L
    from ..sched import Controlled
    events = []

    def chooser(heads):
        for i, h in enumerate(heads):
            if h in waiters:
                return i
        return len(heads) - 1

    ctl = Controlled(chooser=chooser)
    pre = lambda key, dsk, state: events.append(("start", key))
    post = lambda key, res, dsk, state, wid: events.append(("finish", key))
    old = L.queue_get
    L.queue_get = ctl.queue_get
    try:
        L.get_async(ctl.submit, nworkers, dict(g2), list(out2), callbacks=[(None, None, pre, post, None)])
    finally:
        L.queue_get = old
    return events


# --------------------------------------------------------------------------- one case
def run_case(case, kind, seed, assume_layers, split_every, parts=2, nesting=0):
    """Instantiate, call the real function, observe.  Returns the record for TLC (without id)."""
    import dask
    from dask import graph_manipulation as GM
    from dask._task_spec import GraphNode
    op = case["op"]
    rec = {"op": op, "g": [], "g2": [], "ms": [],
           "obs": {"raised": "", "same": False, "meta": True, "seed": True, "events": []}, "msg": "", "taskobj": False, "blockwise": False,
           "stage": ""}
    with warnings.catch_warnings():
        warnings.simplefilter("ignore")
        colls = make_colls(case, kind, parts)
        children = [colls[i - 1] for i in case["children"]]
        parents = [colls[i - 1] for i in case["parents"]]
        omit = [colls[i - 1] for i in case["omit"]]
        # does a non-Blockwise layer hold task OBJECTS that refer to other keys?  (input class of a known finding)
        from dask.blockwise import Blockwise
        for c in children:
            hlg = c.__dask_graph__()
            for layer in getattr(hlg, "layers", {}).values():
                if isinstance(layer, Blockwise):
                    rec["blockwise"] = True
                elif any(isinstance(v, GraphNode) and v.dependencies for v in layer.values()):
                    rec["taskobj"] = True
        g = materialize(colls)
        out = flat_keys(children)
        try:
            rec["stage"] = "call"
            def call(sd):
                ch = nest(children, nesting)
                om = (nest(omit, nesting) if nesting else omit) or None
                if op == "clone":
                    r = GM.clone(*ch, omit=om, seed=sd, assume_layers=assume_layers)
                    return unnest(r)
                if op == "bind":
                    pa = {"p": parents} if nesting == 1 else parents
                    return unnest(GM.bind(tuple(ch), pa, omit=om, seed=sd, assume_layers=assume_layers, split_every=split_every))
                if op == "wait_on":
                    return unnest(GM.wait_on(*ch, split_every=split_every))
                return [GM.checkpoint(*ch, split_every=split_every)]
            res = call(seed)
            if op in ("clone", "bind"):
                # the seed: the same seed regenerates the same keys, another seed (or none) other keys
                k1 = flat_keys(res)
                same = flat_keys(call(seed)) if seed is not None else k1
                other = flat_keys(call("another seed" if seed is not None else None))
                rec["obs"]["seed"] = same == k1 and not (set(other) & (set(k1) - set(flat_keys(omit))))
            groups = [(children, parents, res)]
            second = [colls[i - 1] for i in case.get("second", [])]
            if second:
                # a second call that shares a member with the first; both results are used in one graph
                first_children, first_parents = children, parents
                if op == "bind":
                    parents = second
                elif op != "clone":
                    children = second
                res2 = call("second seed" if seed is not None else None)
                groups.append((children, parents, res2))
                children, parents = first_children, first_parents
            metas = []
            for ch_, pa_, rs_ in groups:
                if op != "checkpoint":
                    metas.append(len(rs_) == len(ch_) and all(meta_sig(a) == meta_sig(b) for a, b in zip(rs_, ch_)))
                else:
                    metas.append(meta_sig(rs_[0])[0] == "Delayed" and meta_sig(rs_[0])[2] == ["no length", "not iterable"])
            rec["obs"]["meta"] = all(metas)
            rec["stage"] = "materialize"
            allres = [r for _, _, rs_ in groups for r in rs_]
            g2 = materialize(allres)                      # the joint graph, merged the way one dask.compute merges it
            out2 = flat_keys(allres)
        except Exception as ex:  # noqa: BLE001 - an exception of dask is an observation
            rec["obs"]["raised"] = type(ex).__name__
            rec["msg"] = "%s: %s" % (rec["stage"], str(ex)[:150])
            return rec
        universe = set(g) | set(g2)
        names = {}
        kid = lambda k: names.setdefault(k, "k%d" % (len(names) + 1))
        rec["g"] = [{"k": kid(k), "e": abstract(v, universe, kid)} for k, v in g.items()]
        rec["g2"] = [{"k": kid(k), "e": abstract(v, universe, kid)} for k, v in g2.items()]
        omitout = [kid(k) for k in flat_keys(omit)]
        rec["ms"] = []
        for ch_, pa_, rs_ in groups:
            pk = [kid(k) for k in flat_keys(pa_)]
            rec["ms"].append({"out": [kid(k) for k in flat_keys(ch_)], "out2": [kid(k) for k in flat_keys(rs_)], "omitout": omitout,
                              "keep": omitout + (pk if op == "bind" else []), "parents": pk})
        rec["ntasks"] = len(g2)
        try:
            rec["stage"] = "compute"
            want = [None] * len(groups) if op == "checkpoint" else list(dask.compute(*[c for ch_, _, _ in groups for c in ch_], scheduler="sync"))
            got = list(dask.compute(*allres, scheduler="sync"))
            rec["obs"]["same"] = same_values(want, got)
            if op != "clone":
                rec["stage"] = "controlled-run"
                nd2 = needed(g2, out2)
                waiters = {k for k in nd2 if k not in g and k in g2 and not is_blocker(g2[k])} if op == "bind" else set(out2)
                ev = controlled_run(g2, out2, waiters)
                rec["obs"]["events"] = [{"e": e, "k": kid(k)} for e, k in ev]
        except Exception as ex:  # noqa: BLE001
            rec["obs"]["raised"] = type(ex).__name__
            rec["msg"] = "%s: %s" % (rec["stage"], str(ex)[:150])
    return rec


def _work(item):
    i, case, kind, seed, al, se, parts, nesting = item
    rec = run_case(case, kind, seed, al, se, parts, nesting)
    rec["id"] = "c%d" % i
    rec["kind"] = kind
    rec["params"] = [repr(seed), al, repr(se), parts, nesting]
    return rec


def classify(case, rec, clause):
    """Signature = input class of the call; classes behind recorded known findings first."""
    op = case["op"]
    assume_layers = rec["params"][1]
    if op in ("clone", "bind") and rec["taskobj"]:
        return "%s:task-object-layer" % op
    if op in ("clone", "bind") and not assume_layers and case["omit"] and rec["blockwise"]:
        return "%s:assume_layers=False+omit:blockwise" % op
    if op == "bind" and rec["kind"] == "bag" and clause == "Computes":
        return "bind:bag:lazified-reify"
    return "%s%s:%s:%s:omit=%s" % (op, "+second-call" if case.get("second") else "", rec["kind"], clause, bool(case["omit"]))


FIELDS = ("id", "op", "g", "g2", "ms", "obs")


def check_cases(ctx, cases, rng, kinds=KINDS):
    """Instantiate every configuration once (kind and parameters drawn by rng), let TLC decide."""
    before = len(ctx.violations)
    items = []
    for i, c in enumerate(cases):
        kind = kinds[i % len(kinds)] if rng.random() < 0.5 else rng.choice(kinds)
        parts = 2 if kind == "array2" else rng.choice([2, 2, 3, 3, 5] if kind in ("bag", "array") else [2, 3])
        items.append((i, c, kind, rng.choice([None, 123, "seed"]), rng.random() < 0.6, rng.choice([None, 2, 3, False]), parts, rng.choice([0, 0, 1, 2])))
    recs = pmap(_work, items, chunk=30)
    spec, cfg = ctx.model(ctx.spec("graph", "GraphManipTrace.tla"), {})
    for lo in range(0, len(recs), 1500):
        part = recs[lo:lo + 1500]
        rej = ctx.tlc_validate(spec, [{k: r[k] for k in FIELDS} for r in part], cfg, timeout=1500)
        for r in part:
            case = cases[int(r["id"][1:])]
            ctx.count((case, r["kind"], r["params"]), case["op"] != "clone" or len(case["regen"]) > 1 or bool(case["second"]))
            if r["id"] in rej:
                clauses = rej[r["id"]][0]
                cl = clauses.strip('{} "').split('"')[0].split(",")[0] or "Rejected"
                ctx.violation(classify(case, r, cl),
                              "dask.graph_manipulation.%s on %s collections %s (children %s, parents %s, omit %s, second call %s; seed/"
                              "assume_layers/split_every/partitions/nesting %s): TLC rejects the record %s%s"
                              % (case["op"], r["kind"], case["dag"], case["children"], case["parents"], case["omit"], case["second"] or "-",
                                 r["params"], clauses,
                                 (" - %s %s" % (r["obs"]["raised"], r["msg"])) if r["obs"]["raised"] else ""),
                              {"case": case, "kind": r["kind"], "params": [items[int(r["id"][1:])][k] for k in (3, 4, 5, 6, 7)], "clauses": clauses,
                               "raised": r["obs"]["raised"], "msg": r["msg"]})
    if recs:
        r = recs[len(recs) // 2]
        ctx.sample({"config": cases[int(r["id"][1:])], "kind": r["kind"], "tasks_after": r.get("ntasks"), "events": len(r["obs"]["events"]),
                    "same_values": r["obs"]["same"]})
    ctx.extra["calls_recorded"] = ctx.extra.get("calls_recorded", 0) + len(recs)
    ctx.extra["max_tasks_in_result_graph"] = max([ctx.extra.get("max_tasks_in_result_graph", 0)] + [r.get("ntasks", 0) for r in recs])
    ctx.extra["executions_under_adversarial_schedule"] = ctx.extra.get("executions_under_adversarial_schedule", 0) + \
        sum(1 for r in recs if r["obs"]["events"])
    return len(ctx.violations) - before


INVS = ["RefDenotes", "RefDisjoint", "RefRegenerated", "RefHappensBefore", "RefBindsSomething", "RefSeparate"]
ALLOPS = '{"clone", "bind", "wait_on", "checkpoint"}'


def enumerate_cases(ctx, n, ops=ALLOPS):
    spec, cfg = ctx.model(ctx.spec("graph", "GraphManipMC.tla"), {"N": n, "P": 2, "Ops": TLA(ops), "Impl": "ref"}, invariants=INVS)
    cases, _ = ctx.tlc_cases(spec, cfg, label="design(reference satisfies the contract)+configurations:N=%d" % n, timeout=1500)
    # the clauses have teeth: the transcription that leaves task objects unsubstituted must violate them
    spec2, cfg2 = ctx.model(ctx.spec("graph", "GraphManipMC.tla"), {"N": min(n, 3), "P": 2, "Ops": TLA('{"clone", "bind"}'), "Impl": "unsubstituted"},
                            invariants=["RefRegenerated", "RefHappensBefore"])
    r2 = ctx.tlc(spec2, cfg2, allow_violation=True, label="design(unsubstituted task objects) must fail", count=False)
    if not r2.violated:
        raise MachineryError("vacuity: TLC no longer finds the counterexample for unsubstituted task objects")
    ctx.extra["configurations_enumerated_by_tlc"] = ctx.extra.get("configurations_enumerated_by_tlc", 0) + len(cases)
    return cases


def run(ctx):
    rng = ctx.rng
    cases = enumerate_cases(ctx, 3)
    sampled = False
    if ctx.quick:
        # every configuration with two calls sharing a member, and a seeded sample of the single calls
        double = [c for c in cases if c["second"]]
        single = [c for c in cases if not c["second"]]
        cap = 1000
        if len(double) > cap // 2:
            double = rng.sample(double, cap // 2)
            sampled = True
        if len(single) > cap - len(double):
            single = rng.sample(single, cap - len(double))
            sampled = True
        cases = single + double
    else:
        # 4 collections: bind has 2 * 10^5 configurations there - clone / wait_on / checkpoint only
        more = enumerate_cases(ctx, 4, '{"clone", "wait_on", "checkpoint"}')
        cap = 5000
        if len(more) > cap:
            more = rng.sample(more, cap)
            sampled = True
        cases = cases + more
    check_cases(ctx, cases, rng)
    ctx.exhaustive = not sampled
    ctx.rule = ("a case = one configuration (DAG of collections, operation, children/parents/omit, optionally a second call sharing a "
                "member) instantiated with one kind of real collection and one choice of seed / assume_layers / split_every / partitions "
                "/ argument nesting; non-trivial = the operation has to touch more than one task layer or orders tasks; distinct by "
                "(configuration, kind, parameters)")
    ctx.assumptions = ["uninterpreted task functions: equal terms mean equal values", "graph ancestry implies execution order (C02)",
                       "one adversarial schedule per bound graph, not all schedules"]


def replay(ctx, obj):
    c = obj["case"]
    seed, al, se, parts, nesting = (list(c["params"]) + [0])[:5]
    rec = run_case(c["case"], c["kind"], seed, al, se, parts, nesting)
    rec["id"] = "c0"
    spec, cfg = ctx.model(ctx.spec("graph", "GraphManipTrace.tla"), {})
    rej = ctx.tlc_validate(spec, [{k: rec[k] for k in FIELDS}], cfg)
    print("configuration:", c["case"], "kind:", c["kind"], "params:", c["params"], "\nraised:", rec["obs"]["raised"], rec["msg"],
          "\nsame values:", rec["obs"]["same"], "\nrejected:", rej)
    return bool(rej)


def selftest(ctx):
    import copy
    import glob
    import os
    import sys

    import dask.blockwise  # noqa: F401
    import dask.graph_manipulation  # noqa: F401
    import dask.highlevelgraph  # noqa: F401
    from ..mutate import source_mutant
    GM, HLG, BW = sys.modules["dask.graph_manipulation"], sys.modules["dask.highlevelgraph"], sys.modules["dask.blockwise"]
    ok = True
    rdir = os.path.join(os.path.dirname(os.path.dirname(os.path.dirname(os.path.abspath(__file__)))), "replays")
    before = set(glob.glob(os.path.join(rdir, "C16-*.json")))
    cases = enumerate_cases(ctx, 3)
    r3 = random.Random(3)
    cases = r3.sample([c for c in cases if not c["second"]], 170) + r3.sample([c for c in cases if c["second"]], 110)
    kinds = ("legacy", "bag", "array", "array_delayed", "delayed")

    def attempt(name):
        n = check_cases(ctx, cases, random.Random(5), kinds)
        sigs = sorted({s for s, _, _ in ctx.violations})
        del ctx.violations[:]
        ctx.viol_count.clear()
        print("mutant %s: %s (%d violations; e.g. %s)" % (name, "DETECTED" if n else "MISSED", n, sigs[:3]))
        return n > 0

    n = check_cases(ctx, cases, random.Random(5), kinds)
    print("unchanged dask on the self-test case set (%d configurations): %d violations outside the known findings %s"
          % (len(cases), n, sorted(ctx.known_hit)))
    ok &= n == 0
    # mutant 1: materialized layers never inject the blocker (bind does not bind)
    orig_clone = HLG.Layer.clone
    HLG.Layer.clone = lambda self, keys, seed, bind_to=None: orig_clone(self, keys, seed, None)
    try:
        ok &= attempt("layer-clone-ignores-bind_to")
    finally:
        HLG.Layer.clone = orig_clone
    # mutant 2: the recursive aggregation of checkpoint loses one key per round
    with source_mutant(GM, "_checkpoint_one", "map_keys = map_keys[split_every:] + [k]", "map_keys = map_keys[split_every + 1:] + [k]"):
        ok &= attempt("checkpoint-reduction-drops-a-key")
    # mutant 3: wait_on forgets to depend on the blocker
    with source_mutant(GM, "wait_on", "chunks.bind, prev_name, new_name, coll, dependencies=(blocker,)",
                       "chunks.bind, prev_name, new_name, coll, dependencies=()"):
        ok &= attempt("wait_on-without-blocker")
    # mutant 4: regenerated keys are not new (clone_key returns the key)
    saved = GM.clone_key, HLG.clone_key, BW.clone_key
    GM.clone_key = HLG.clone_key = BW.clone_key = lambda key, seed: key
    try:
        ok &= attempt("clone_key-identity")
    finally:
        GM.clone_key, HLG.clone_key, BW.clone_key = saved
    # mutant 5: the layers of wait_on are named after the collection alone, not after the group it waits for
    with source_mutant(GM, "wait_on", "tok = tokenize(coll, blocker)", "tok = tokenize(coll)"):
        ok &= attempt("wait_on-name-ignores-the-group")
    # mutant 6: Blockwise.clone forgets the references to non-array arguments (TaskRef indices)
    import inspect
    import textwrap
    src = textwrap.dedent(inspect.getsource(BW.Blockwise.clone))
    anchor = "elif isinstance(k, TaskRef) and k.key in names:"
    if src.count(anchor) != 1:
        raise MachineryError("mutant anchor not found in Blockwise.clone")
    ns = {}
    exec(compile(src.replace(anchor, "elif False:"), "<mutant Blockwise.clone>", "exec"), BW.__dict__, ns)
    orig_bclone = BW.Blockwise.clone
    BW.Blockwise.clone = ns["clone"]
    try:
        ok &= attempt("blockwise-clone-forgets-taskref-arguments")
    finally:
        BW.Blockwise.clone = orig_bclone
    # binding of the trace spec: untouched accepted; a parent's finish moved behind a child's start, and an
    # output key of the result replaced by the original one, are rejected
    case = [c for c in cases if c["op"] == "bind" and len(c["parents"]) >= 1 and not c["omit"] and not c["second"]][0]
    rec = run_case(case, "legacy", 1, True, None, 2)
    rec["id"] = "ok"
    base = {k: rec[k] for k in FIELDS}
    bad1 = copy.deepcopy(base)
    bad1["id"] = "order"
    ev = bad1["obs"]["events"]
    pk = bad1["ms"][0]["parents"][0]
    fin = [i for i, e in enumerate(ev) if e["e"] == "finish" and e["k"] == pk][0]
    ev.append(ev.pop(fin))
    bad2 = copy.deepcopy(base)
    bad2["id"] = "key"
    bad2["ms"][0]["out2"][0] = bad2["ms"][0]["out"][0]
    spec, cfg = ctx.model(ctx.spec("graph", "GraphManipTrace.tla"), {})
    rej = ctx.tlc_validate(spec, [base, bad1, bad2], cfg)
    print("untouched record: %s; parent finish moved to the end: %s; output key replaced by the original: %s"
          % (rej.get("ok", "accepted"), rej.get("order", "accepted"), rej.get("key", "accepted")))
    ok &= "ok" not in rej and "order" in rej and "key" in rej
    for f in set(glob.glob(os.path.join(rdir, "C16-*.json"))) - before:
        os.remove(f)
    return 0 if ok else 1
