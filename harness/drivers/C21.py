"""C21 - array item assignment equals NumPy assignment, and the chunks are unchanged.

spec -> code: TLC enumerates (specs/array/SetItemMC.tla) assignments x[idx] = v - every 1-d slice
(start/stop/step incl. None, out of range, negative) over every chunking of small extents, a menu of
slice/int/list/bool components over every chunking of small n-d shapes, full boolean masks - with
values of fresh ids in every broadcastable shape and form (Python scalar, NumPy array, dask array),
together with the content demanded by the TLA+ reference semantics (specs/array/SetItem.tla, which
reuses the selection semantics of Indexing.tla).  Each case is run on a real dask array with exactly
that chunking, every block computed through its own key.
code -> spec: seeded random sequences of assignments to larger arrays are recorded step by step and
TLC decides every step (SetItemTrace.tla).  NumPy is only the reference *guard*."""
from __future__ import annotations

import warnings

import numpy as np

from ..arrayobs import meta_clauses, numpy_obs, observe_full, raised_obs, trim_clauses
from ..arrays import py_chunks
from ..core import TLA, MachineryError
from ..par import pmap

META = {
    "title": "Array item assignment equals NumPy assignment",
    "design_ref": "DESIGN.md §4.3 C21",
    "technique": "TLA+ reference semantics of x[idx] = v over the selection semantics of Indexing.tla; TLC enumerates all "
                 "chunkings x indices x value shapes/forms of small arrays; replay into dask + TLC validation of recorded "
                 "assignment sequences",
    "level_text": "Small-scope exhaustive: TLC enumerates every 1-d slice (start/stop/step incl. None, out-of-range, negative) "
                  "over every chunking of extents 0..N, a menu of slice/int/list/bool components (at most one list per index) "
                  "over every chunking of small 2-d/3-d shapes and full-shape boolean masks (NumPy / dask with every chunking), "
                  "each with values of fresh ids in every broadcastable shape as Python scalar, NumPy array and dask array; "
                  "the TLA+ reference gives the content or the error; dask is replayed on each case block by block, chunks "
                  "and dtype must be unchanged.  Random sequences of assignments on larger arrays are decided by TLC.",
    "level_note": "Trusted: TLC, the TLA+ reference (cross-checked against NumPy on every case and recorded step; a "
                  "disagreement is a machinery error, not a violation), the block-assembly projection.  Index classes: those "
                  "dask's setitem accepts (no None/newaxis, at most one list per index); int64 arrays and values only.",
}

NONE = 99
FRESH = 1000


# ------------------------------------------------------------------ building and applying
def _sl(c):
    f = lambda v: None if v == NONE else v
    return slice(f(c["a"]), f(c["b"]), c["st"])


def py_index(idx, shape, indexer="list", ellipsis=False, lib="da"):
    """Spec index -> Python index.  indexer: how list/bool components and masks are spelled
    ('list' Python list, 'np' ndarray, 'da' dask array)."""
    import dask.array as da
    if idx["k"] == "mask":
        m = np.array(idx["m"], dtype=bool).reshape(tuple(shape))
        if lib == "np" or idx["f"] == "n":
            return m
        return da.from_array(m, chunks=py_chunks(idx["ch"]))
    out = []
    for c in idx["comps"]:
        k = c["k"]
        if k == "s":
            out.append(_sl(c))
        elif k == "i":
            out.append(c["i"])
        else:
            arr = np.array(c["v"], dtype=bool if k == "b" else np.intp)
            if lib == "np" or indexer == "np":
                out.append(arr)
            elif indexer == "list":
                out.append(arr.tolist())
            else:
                out.append(da.from_array(arr, chunks=max(1, (len(arr) + 1) // 2)))
    if ellipsis:
        while out and isinstance(out[-1], slice) and out[-1] == slice(None, None, 1):
            out.pop()
        out.append(Ellipsis)
    return tuple(out)


def py_value(val, lib="da"):
    import dask.array as da
    if val["f"] == "s":
        return int(val["v"][0])
    a = np.array(val["v"], dtype=np.int64).reshape(tuple(val["sh"]))
    if lib == "np" or val["f"] == "n":
        return a
    return da.from_array(a, chunks=py_chunks(val["ch"]))


def start_cells(case):
    n = int(np.prod(case["shape"])) if case["shape"] else 1
    return case.get("cur") or list(range(n))


def np_reference(case):
    a = np.array(start_cells(case), dtype=np.int64).reshape(tuple(case["shape"]))
    try:
        a[py_index(case["idx"], case["shape"], lib="np")] = py_value(case["val"], lib="np")
        return {"err": False, "arr": a}
    except (IndexError, ValueError, TypeError) as ex:
        return {"err": True, "msg": "%s: %s" % (type(ex).__name__, str(ex)[:80])}


def guard(case, exp):
    ref = np_reference(case)
    if ref["err"] != exp["err"]:
        return "error status: numpy=%r spec=%r" % (ref, exp)
    if not ref["err"] and ref["arr"].ravel().tolist() != list(exp["cells"]):
        return "numpy gives %s, spec %r" % (ref["arr"].ravel().tolist(), exp)
    return None


UNKNOWN_SIZE = ("nan", "unknown")


def assign(x, case, indexer="list", ellipsis=False):
    """The real assignment on the dask array x."""
    x[py_index(case["idx"], case["shape"], indexer, ellipsis)] = py_value(case["val"])
    return x


def run_dask(case, indexer="list", ellipsis=False, x=None):
    """Apply the case to a real dask array with exactly the chunks; returns (obs, full, x)."""
    import dask.array as da
    try:
        with warnings.catch_warnings():
            warnings.simplefilter("ignore")
            if x is None:
                a = np.array(start_cells(case), dtype=np.int64).reshape(tuple(case["shape"]))
                x = da.from_array(a, chunks=py_chunks(case["chunks"]))
            assign(x, case, indexer, ellipsis)
            obs, full = observe_full(x)
        obs["cells"] = [int(v) for v in np.asarray(full).ravel()] if full is not None else []
        return obs, full, x
    except NotImplementedError as ex:
        return {"skip": "NotImplementedError: " + str(ex)[:70]}, None, None
    except Exception as ex:  # noqa: BLE001 - every other exception is an observation
        msg = str(ex)
        if case["idx"]["k"] == "mask" and case["idx"]["f"] == "d" and case["val"]["sh"] != []:
            # documented in Array.__setitem__ ("this is valid in numpy but raises here"): a dask boolean
            # mask makes the selection size unknown, so only 0-d values can be assigned through it
            return {"skip": "ValueError: value with ndim > 0 assigned through a dask boolean mask (unknown size)"}, None, None
        o = raised_obs(ex)
        o["cells"] = []
        o["msg"] = msg[:200]
        return o, None, None


def judge(case, exp, obs, full):
    """Python mirror of SetItemTrace!Bad."""
    if exp.get("free"):
        return []
    if exp["err"]:
        return [] if obs["raised"] else ["ErrorExpected"]
    if obs["raised"]:
        return ["UnexpectedRaise"]
    bad = []
    if obs["whole"]["s"] != list(case["shape"]):
        bad.append("Shape")
    if obs["cells"] != list(exp["cells"]):
        bad.append("Content")
    if obs["chunks"] != [list(c) for c in case["chunks"]]:
        bad.append("ChunksKept")
    if obs["dt"] != case.get("dt", "int64"):
        bad.append("DtypeKept")
    return bad + meta_clauses(obs)


ORDER = ["Shape", "Content", "ChunksKept", "DtypeKept", "Keys", "BlockShape", "LazyShape", "Dtype", "Reassemble"]


# ------------------------------------------------------------------ signatures
def sel_shape(case):
    try:
        return list(np.empty(tuple(case["shape"]), dtype=np.int8)[py_index(case["idx"], case["shape"], lib="np")].shape)
    except IndexError:
        return None


def features(case, variant):
    idx = case["idx"]
    v = case["val"]
    sel = sel_shape(case)
    feats = []
    if idx["k"] == "mask":
        feats.append("mask-" + idx["f"] + ("-nd" if len(case["shape"]) > 1 else ""))
        if idx["f"] == "d" and any(s == 1 and 0 in c for s, c in zip(case["shape"], case["chunks"])):
            feats.append("mask+zero-chunk-on-unit-axis")
        if idx["f"] == "d" and [list(c) for c in idx["ch"]] != [list(c) for c in case["chunks"]]:
            feats.append("mask-chunks-differ")
    else:
        comps = idx["comps"]
        kinds = [c["k"] for c in comps]
        neg = any(c["k"] == "s" and c["st"] < 0 for c in comps)
        if "i" in kinds and neg:
            feats.append("int+negstep")
        elif neg:
            feats.append("negstep")
        if "i" in kinds and ("l" in kinds or "b" in kinds):
            pos = [i for i, k in enumerate(kinds) if k in ("i", "l", "b")]
            # NumPy moves the broadcast advanced axes first when a slice separates them
            feats.append("int+array-separated" if pos[-1] - pos[0] + 1 != len(pos) else "int+array")
        elif "l" in kinds:
            feats.append("list")
        elif "b" in kinds:
            feats.append("bool")
        if "i" in kinds and sel is not None and len(v["sh"]) > len(sel):
            feats.append("int+lead1-value")
        if any(c["k"] == "l" and len(set(c["v"])) < len(c["v"]) for c in comps):
            feats.append("dup")
        if ("l" in kinds or "b" in kinds) and variant[0] == "da":
            feats.append("dask-indexer")
            if any(c["k"] == "l" and any(not -n <= i < n for i in c["v"]) for c, n in zip(comps, case["shape"])):
                feats.append("dask-int-indexer-out-of-bounds")
            if "b" in kinds and v["sh"] and sel is not None and list(v["sh"]) != sel:
                feats.append("dask-bool-indexer+broadcast-value")
        if len(comps) < len(case["shape"]):
            feats.append("short")
    if sel is not None and 0 in sel and v["sh"]:
        feats.append("empty-selection+array-value")
    if any(0 in c and s > 0 for c, s in zip(case["chunks"], case["shape"])):
        feats.append("zero-chunk")
    feats.append("v" + v["f"] + ("0" if not v["sh"] else ""))
    return feats


ROOTS = [   # (feature, clauses it can show up as), most specific first
    ("mask-n-nd", ("UnexpectedRaise",)),
    ("mask+zero-chunk-on-unit-axis", ("Shape", "Content", "BlockShape", "LazyShape", "Reassemble", "UnexpectedRaise")),
    ("dask-int-indexer-out-of-bounds", ("ErrorExpected",)),
    ("mask-chunks-differ", ("ChunksKept",)),
    ("empty-selection+array-value", ("UnexpectedRaise",)),
    ("int+lead1-value", ("UnexpectedRaise", "Content")),
    ("dask-bool-indexer+broadcast-value", ("UnexpectedRaise", "Content", "ErrorExpected")),
    ("int+array-separated", None),
    ("int+negstep", None),
    ("int+array", None),
]


def classify(case, clauses, variant=("list", False)):
    """Signature: failing clause + structural class of index and value (no concrete numbers).
    Input classes behind recorded known findings come first."""
    clauses = [clauses] if isinstance(clauses, str) else list(clauses)
    feats = features(case, variant)
    for root, can in ROOTS:
        if root in feats and (can is None or any(c in can for c in clauses)):
            return "setitem:" + root
    clause = ([c for c in ["ErrorExpected", "UnexpectedRaise"] + ORDER if c in clauses] or clauses)[0]
    return "setitem:%s:%s" % (clause, "+".join(f for f in feats if f not in ("dup", "short")))


# ------------------------------------------------------------------ spec -> code
def _work(item):
    case, exp, variants = item
    g = guard(case, exp)
    if g:
        return [("GUARD", None, g)]
    res = []
    for v in variants:
        obs, full, _x = run_dask(case, *v)
        if "skip" in obs:
            res.append(("SKIP", v, obs["skip"]))
            continue
        bad = judge(case, exp, obs, full)
        res.append((bad, v, {"obs": obs} if bad else None))
    return res


def variants_for(case, rng, thorough):
    idx = case["idx"]
    if idx["k"] == "mask":
        return [("list", False)]
    has_arr = any(c["k"] in ("l", "b") for c in idx["comps"])
    vs = [("list", False)]
    if has_arr:
        vs += [(rng.choice(["np", "da"]), False)]
    if rng.random() < (0.4 if thorough else 0.2):
        vs.append(("list", True))
    return vs


def nontrivial(exp):
    return (not exp["err"]) and any(c >= FRESH for c in exp["cells"])


def replay_cases(ctx, label, cases, variants=None, report=True):
    thorough = not ctx.quick
    items = [(c["c"], c["e"], variants or variants_for(c["c"], ctx.rng, thorough)) for c in cases]
    found = []
    for (case, exp, _v), res in zip(items, pmap(_work, items)):
        for bad, variant, detail in res:
            if bad == "GUARD":
                raise MachineryError("TLA+ reference disagrees with NumPy on %r: %s" % (case, detail))
            if bad == "SKIP":
                ctx.skip(detail)
                continue
            ctx.count((case, variant), nontrivial(exp))
            if bad:
                found.append((case, bad))
                if report:
                    ctx.violation(classify(case, bad, variant), "%s: dask disagrees with the reference on %s" % ("+".join(bad), case.get("fam", label)),
                                  {"case": case, "expected": exp, "variant": list(variant), "observed": detail})
    return found


def constants(ctx, selftest=False):
    if selftest:
        return {"Fams": TLA('{"nd", "mask"}'), "N1": 0, "Shapes2": TLA("{<<5>>, <<2, 3>>}"), "ShapesM": TLA("{<<3>>}"),
                "Lite": True, "Zero": False}
    if ctx.quick:
        return {"Fams": TLA('{"slice1d", "nd", "mask"}'), "N1": 3, "Shapes2": TLA("{<<2, 3>>}"), "ShapesM": TLA("{<<3>>, <<2, 2>>}"),
                "Lite": True, "Zero": False}
    return {"Fams": TLA('{"slice1d", "nd", "mask"}'), "N1": 4, "Shapes2": TLA("{<<2, 3>>, <<3, 2>>}"),
            "ShapesM": TLA("{<<3>>, <<0>>, <<2, 2>>, <<2, 3>>}"), "Lite": False, "Zero": False}


INVS = ["Attributable", "WritesSelection", "ReadBack", "ScalarFills"]
CAPS = {"slice1d": 3500, "nd": 3500, "mask": 600}


def enumerate_cases(ctx, selftest=False):
    spec, cfg = ctx.model(ctx.spec("array", "SetItemMC.tla"), constants(ctx, selftest), invariants=INVS)
    cases, _ = ctx.tlc_cases(spec, cfg, label="design+cases", timeout=3000)
    byfam = {}
    for c in cases:
        byfam.setdefault(c["c"]["fam"], []).append(c)
    return byfam


# ------------------------------------------------------------------ code -> spec
def _rand_chunks(rng, n, zero_p=0.1):
    if n == 0:
        return [0]
    ch, left = [], n
    while left > 0:
        c = rng.randint(1, left)
        ch.append(c)
        left -= c
    if rng.random() < zero_p:
        ch.insert(rng.randint(0, len(ch)), 0)
    return ch


def _rand_index(rng, shape):
    if rng.random() < 0.12:
        n = int(np.prod(shape))
        f = rng.choice(["n", "d", "d"])
        return {"k": "mask", "m": [rng.randint(0, 1) for _ in range(n)], "f": f,
                "ch": [_rand_chunks(rng, s, 0) for s in shape] if f == "d" else []}
    comps, used = [], False
    for s in shape:
        r = rng.random()
        if r < 0.45:
            f = lambda: rng.choice([NONE, NONE] + list(range(-s - 2, s + 3)))
            comps.append({"k": "s", "a": f(), "b": f(), "st": rng.choice([1, 1, 2, 3, -1, -2, -3])})
        elif r < 0.6 and s > 0:
            comps.append({"k": "i", "i": rng.randint(-s, s - 1)})
        elif r < 0.78 and not used and s > 0:
            used = True
            comps.append({"k": "l", "v": [rng.randint(-s, s - 1) for _ in range(rng.randint(0, s + 1))]})
        elif r < 0.88 and not used:
            used = True
            comps.append({"k": "b", "v": [rng.randint(0, 1) for _ in range(s)]})
        else:
            comps.append({"k": "s", "a": NONE, "b": NONE, "st": 1})
    if rng.random() < 0.3:
        while comps and comps[-1] == {"k": "s", "a": NONE, "b": NONE, "st": 1}:
            comps.pop()
    return {"k": "comps", "comps": comps}


def _rand_value(rng, shape, idx, base):
    try:
        sel = list(np.empty(tuple(shape), dtype=np.int8)[py_index(idx, shape, lib="np")].shape)
    except IndexError:
        sel = []
    r = rng.random()
    if r < 0.3 or not sel:
        sh = []
    elif r < 0.65:
        sh = list(sel)
    else:
        sh = [1 if rng.random() < 0.4 else s for s in sel]
        if rng.random() < 0.3:
            sh = sh[rng.randint(0, len(sh) - 1):] if len(sh) > 1 else sh
        if rng.random() < 0.15:
            sh = [1] + sh
    n = int(np.prod(sh)) if sh else 1
    f = rng.choice(["s", "n", "d"]) if not sh else rng.choice(["n", "d"])
    return {"f": f, "sh": sh, "v": [base + j for j in range(n)], "ch": [_rand_chunks(rng, s, 0) for s in sh] if f == "d" else []}


def _sequence(item):
    """One array, 1-3 assignments in a row; every assignment is one record (+ its NumPy guard record)."""
    import random

    import dask.array as da
    sid, seed = item
    rng = random.Random(seed)
    nd = rng.choice([1, 2, 2, 3])
    shape = [rng.choice([1, 2, 3, 4, 5, 6]) for _ in range(nd)]
    if nd == 3:
        shape = [min(s, 4) for s in shape]
    chunks = [_rand_chunks(rng, s) for s in shape]
    cur = list(range(int(np.prod(shape))))
    x = da.from_array(np.array(cur, dtype=np.int64).reshape(tuple(shape)), chunks=py_chunks(chunks))
    out = []
    for step in range(rng.randint(1, 3)):
        idx = _rand_index(rng, shape)
        case = {"fam": "rec", "shape": shape, "chunks": chunks, "dt": "int64", "cur": cur, "idx": idx,
                "val": _rand_value(rng, shape, idx, FRESH * (step + 1))}
        indexer = rng.choice(["list", "np", "da"])
        ell = rng.random() < 0.15 and idx["k"] == "comps"
        x_before = x.copy()
        obs, full, _ = run_dask(case, indexer, ell, x=x)
        if "skip" in obs:
            x = x_before
            continue
        obs.pop("msg", None)
        rec = dict(case, id="a%d.%d" % (sid, step), obs=obs, indexer=indexer, ell=ell)
        ref = np_reference(case)
        g = dict(rec, id="g" + rec["id"])
        if ref["err"]:
            g["obs"] = dict(raised_obs(IndexError()), cells=[])
        else:
            g["obs"] = dict(numpy_obs(ref["arr"]), cells=ref["arr"].ravel().tolist())
            g["chunks"] = g["obs"]["chunks"]
        out.append((rec, g))
        if obs["raised"] or full is None or judge(case, {"err": False, "cells": obs["cells"]}, obs, full):
            break               # the array is no longer in a state the next record could start from
        cur = obs["cells"]
    return out


def record_sequences(ctx, n):
    items = [(i, ctx.rng.randrange(2 ** 40)) for i in range(n)]
    out = []
    for steps in pmap(_sequence, items, chunk=8):
        out.extend(steps)
    return out


def _clause_names(text):
    return [c for c in text.strip("{} ").replace('"', "").split(", ") if c]


def validate(ctx, pairs, report=True, extra=None):
    """TLC decides the recorded assignments.  extra = (records, Python verdicts) of enumerated cases:
    TLC's verdict on them must equal judge()'s (cross-check of the Python verdict function)."""
    spec, cfg = ctx.model(ctx.spec("array", "SetItemTrace.tla"), {})
    found = []
    for lo in range(0, max(len(pairs), 1), 2500):
        part = pairs[lo:lo + 2500]
        recs = [r for p in part for r in p]
        xrecs = extra[0] if (extra and lo == 0) else []
        rej = ctx.tlc_validate(spec, recs + xrecs, cfg, timeout=1800)
        ctx.traces -= len(xrecs)
        for x in xrecs:
            t = sorted(_clause_names(rej.get(x["id"], ["{}"])[0]))
            if t != extra[1][x["id"]]:
                raise MachineryError("Python verdict %r and TLC verdict %r differ on %r" % (extra[1][x["id"]], t, x))
        byid = {r["id"]: r for r in recs}
        for rid, clauses in sorted(rej.items()):
            if rid.startswith("g"):
                raise MachineryError("TLA+ reference rejects what NumPy does on %r: %s" % (byid[rid], clauses))
        for r, _g in part:
            ctx.count(("rec", r["shape"], r["chunks"], r["cur"], r["idx"], r["val"], r["indexer"]),
                      r["obs"]["raised"] == "" and r["obs"]["cells"] != r["cur"])
            if r["id"] in rej:
                names = _clause_names(rej[r["id"]][0])
                found.append((r, names))
                if report:
                    ctx.violation(classify(r, names, (r["indexer"], r["ell"])),
                                  "TLC rejects a recorded assignment (%s)" % rej[r["id"]][0], {"record": r, "clauses": rej[r["id"]]})
    return found


def crosscheck_records(cases):
    """Observations of enumerated cases as trace records + judge()'s verdict on them: judge() (Python)
    and SetItemTrace!Bad (TLC) must agree on the same observations."""
    recs, verdicts = [], {}
    for n, c in enumerate(cases):
        case, exp = dict(c["c"]), c["e"]
        obs, full, _x = run_dask(case)
        if "skip" in obs:
            continue
        obs = dict(obs)
        obs.pop("msg", None)
        rid = "x%d" % n
        recs.append(dict(case, id=rid, dt="int64", cur=start_cells(case), obs=obs))
        verdicts[rid] = trim_clauses(judge(case, exp, obs, full), ORDER)
    return recs, verdicts


def run(ctx):
    byfam = enumerate_cases(ctx)
    total, sampled, cross, chosen = 0, False, [], []
    for fam in sorted(byfam):
        cases = byfam[fam]
        total += len(cases)
        ctx.extra.setdefault("cases_per_family", {})[fam] = len(cases)
        if ctx.quick and len(cases) > CAPS[fam]:
            sampled = True
            cases = ctx.rng.sample(cases, CAPS[fam])
        chosen += cases
        ctx.sample({"case": cases[0]["c"], "expected": cases[0]["e"]})
        cross += ctx.rng.sample(cases, min(len(cases), 60))
    replay_cases(ctx, "the enumerated cases", chosen)          # one worker pool for all families
    pairs = record_sequences(ctx, ctx.pick(400, 8000))
    validate(ctx, pairs, extra=crosscheck_records(cross))
    if pairs:
        ctx.sample({"recorded_assignment": {k: pairs[0][0][k] for k in ("shape", "chunks", "idx", "val", "indexer")}})
    ctx.exhaustive = not sampled
    ctx.rule = ("cases = TLC-enumerated (shape, chunking, index, value shape/form/chunking) x spelling (list / ndarray / "
                "dask-array indexer, Ellipsis), plus recorded steps of random assignment sequences; non-trivial = NumPy "
                "accepts the assignment and at least one cell is written; distinct by (case, spelling)")
    ctx.extra["cases_enumerated_by_tlc"] = total
    ctx.assumptions = ["NumPy per-block kernels are correct", "TLC evaluates the reference semantics correctly",
                       "int64 arrays and values", "shapes bounded as listed in tlc_runs constants"]


def replay(ctx, obj):
    c = obj["case"]
    if "record" in c:
        r = c["record"]
        spec, cfg = ctx.model(ctx.spec("array", "SetItemTrace.tla"), {})
        case = {k: r[k] for k in ("shape", "chunks", "dt", "cur", "idx", "val")}
        obs, _full, _x = run_dask(case, r.get("indexer", "list"), r.get("ell", False))
        obs = dict(obs)
        obs.pop("msg", None)
        rej = ctx.tlc_validate(spec, [dict(case, id="r0", obs=obs)], cfg)
        print("observed:", obs, "\nrejected:", rej)
        return bool(rej)
    case, exp, variant = c["case"], c["expected"], tuple(c["variant"])
    obs, full, _x = run_dask(case, *variant)
    bad = judge(case, exp, obs, full)
    print("case:", case, "\nexpected:", exp, "\nobserved:", obs, "\nclauses:", bad)
    return bool(bad)


def _mutants():
    """(name, module, function, old, new, re-exporting modules): slips that compile, in the anchored functions."""
    import dask.array.core as core
    import dask.array.slicing as slicing
    return [
        ("parse_assignment_indices: reversed negative-step slice loses its last element", slicing, "parse_assignment_indices",
         "stop = start + div_step + 1", "stop = start + div_step", ()),
        ("setitem_array: elements preceding a block not rounded up when the step does not divide", slicing, "setitem_array",
         "                if rem:\n                    n_preceding += 1\n", "                if rem:\n                    n_preceding += 0\n", (core,)),
        ("setitem_array: block start not aligned to the slice step", slicing, "setitem_array",
         "                    start %= index.step\n", "                    start = 0\n", (core,)),
        ("setitem_array: length-1 value axes only broadcast against length-1 selections", slicing, "setitem_array",
         "        if b == 1:\n", "        if b == 1 and a == 1:\n", (core,)),
    ]


def selftest(ctx):
    """Binding demonstration: (i) in-memory mutants of the anchored dask functions are reported as
    violations by the same case loop run() uses; (ii) corrupted recorded observations are rejected by
    the trace specification."""
    import copy

    from ..arrayobs import source_mutant
    ok = True
    byfam = enumerate_cases(ctx, selftest=True)
    cases = [c for fam in sorted(byfam) for c in byfam[fam]]
    cases = ctx.rng.sample(cases, min(len(cases), 700))
    variants = [("list", False)]
    is_known = lambda case, bad: classify(case, bad, variants[0]) in ctx.known
    base = [f for f in replay_cases(ctx, "selftest", cases, variants=variants, report=False) if not is_known(*f)]
    print("selftest C21: %d cases, unchanged tree: %d violations outside the known findings  %s"
          % (len(cases), len(base), "ok" if not base else "FAIL"))
    ok &= not base
    for name, module, fn, old, new, also in _mutants():
        with source_mutant(module, fn, old, new, also=also):
            found = [f for f in replay_cases(ctx, "selftest", cases, variants=variants, report=False) if not is_known(*f)]
        clauses = sorted({c for _case, bad in found for c in bad})
        print("selftest C21 mutant [%s]: %d of %d cases violate (%s)  %s"
              % (name, len(found), len(cases), ",".join(clauses), "detected" if found else "NOT DETECTED"))
        ok &= bool(found)
    pairs = record_sequences(ctx, 40)
    good = [r for r, _g in pairs if not r["obs"]["raised"] and r["obs"]["cells"] != r["cur"]]
    rej = [f for f in validate(ctx, [(r, dict(g)) for r, g in pairs if r in good], report=False)
           if classify(f[0], f[1], (f[0]["indexer"], f[0]["ell"])) not in ctx.known]
    good = [r for r in good if not judge(r, {"err": False, "cells": r["obs"]["cells"]}, r["obs"], True)]
    print("selftest C21 trace: %d recorded assignments, %d rejected unmodified outside the known findings  %s"
          % (len(good), len(rej), "ok" if not rej else "FAIL"))
    ok &= not rej and len(good) >= 4
    corrupt = []
    for n, r in enumerate(good[:8]):
        c = copy.deepcopy(r)
        c["id"] = "c%d" % n
        if n % 4 == 0:
            j = next(i for i, v in enumerate(c["obs"]["cells"]) if v != c["cur"][i])
            c["obs"]["cells"][j] = c["cur"][j]           # one written cell reverted
            want = "Content"
        elif n % 4 == 1:
            c["obs"]["blocks"] = c["obs"]["blocks"][:-1]  # a block is missing
            want = "Keys"
        elif n % 4 == 2:
            c["obs"]["chunks"] = [ch + [0] for ch in c["obs"]["chunks"]]   # chunks changed
            want = "ChunksKept"
        else:
            c["obs"]["dt"] = "float64"
            want = "DtypeKept"
        corrupt.append((c, want))
    spec, cfg = ctx.model(ctx.spec("array", "SetItemTrace.tla"), {})
    # only records the specification accepts unmodified are corrupted
    acc = ctx.tlc_validate(spec, [dict(c, id="u" + c["id"], obs=good[i]["obs"]) for i, (c, _w) in enumerate(corrupt)], cfg, label="selftest originals")
    rejd = ctx.tlc_validate(spec, [c for c, _w in corrupt], cfg, label="selftest corrupted records")
    for c, want in corrupt:
        if "u" + c["id"] in acc:
            continue
        got = rejd.get(c["id"], [""])[0]
        hit = want in got
        print("selftest C21 corrupted record %s (%s): %s  %s" % (c["id"], want, got or "accepted", "rejected" if hit else "NOT REJECTED"))
        ok &= hit
    print("selftest C21: %s" % ("all binding checks hold" if ok else "FAILED"))
    return 0 if ok else 1
