"""C32 - approximate percentiles stay within the data and are monotone; nanpercentile equals NumPy.

(1) Pattern B (contract): TLC enumerates (specs/array/PercentileMC.tla, fam "pct") ALL short data sequences over
a small alphabet plus seeded longer ones x sorted percent vectors with and without 0 / 100 x the five methods,
with all chunkings (incl. an empty chunk for short data), and proves on each that the contract of
specs/array/Percentile.tla is satisfiable (the exact NumPy percentile fulfils it).  da.percentile is run on every
(input, chunking) (quick: a seeded sample) and every call - plus seeded random larger ones - is decided by TLC
against the contract (PercentileTrace.tla): one value per q, within [min, max], non-decreasing in q, q=0 -> min,
q=100 -> max, compared in the fixed-point domain floor(x * 2^10).

(2) Pattern C: nanpercentile / nanquantile along axes.  TLC computes the exact rational result for seeded
NaN-containing fills x q forms x methods x axes x keepdims; dask is replayed on every chunking, block by block
(NumPy is the reference guard), and recorded random calls are decided by TLC.

internal_method is 'default' / 'dask' only ('tdigest' needs crick, which is not installed)."""
from __future__ import annotations

import math
import warnings
from fractions import Fraction

import numpy as np

from ..arrays import observe, py_chunks, raised
from ..core import TLA, MachineryError
from ..par import pmap
from .. import tlc as T
from . import C22
from .C22 import NAN, NONE, _mutate, np_array, py_axis, random_chunks, tla_fill

META = {
    "title": "Approximate percentiles stay within the data and are monotone",
    "design_ref": "DESIGN.md §4.3 C32",
    "technique": "TLA+ contract of da.percentile (Pattern B) checked satisfiable by TLC on all short inputs; every real call on "
                 "TLC-enumerated inputs x all chunkings and on random inputs is decided by TLC against the contract; "
                 "TLA+ reference semantics of nanquantile (exact rationals) replayed into dask",
    "level_text": "Small-scope exhaustive: ALL data sequences over 0..2 of length <= 4 (thorough: 0..3, length <= 5) plus seeded "
                  "sequences of length 5..8 over 0..4, x 8 sorted q vectors (with/without 0 and 100, duplicates, 0.5/99.5) x 5 "
                  "methods x all chunkings (and chunkings with an empty chunk); each da.percentile call is one record decided by "
                  "TLC: length, within [min,max], non-decreasing, q=0 -> min, q=100 -> max in floor(x*2^10). nanpercentile/"
                  "nanquantile: seeded NaN fills of shapes <= (3,3) x q forms x 5 methods x all axes x keepdims x all chunkings "
                  "against the exact rational interpolation of the NaN-free lane.",
    "level_note": "Trusted: TLC, the contract (shown satisfiable by the exact NumPy percentile on every enumerated input), the "
                  "fixed-point projection (monotone; the two equalities allow one unit 2^-10), the TLA+ nanquantile reference "
                  "(cross-checked against NumPy; disagreement = machinery error). tdigest not reachable (crick absent). "
                  "NaN/inf data for da.percentile are outside the statement's NaN-free premise and not generated.",
}

SCALE = 1024
METHODS = ["linear", "lower", "higher", "midpoint", "nearest"]


# ----------------------------------------------------------------------------- (1) contract of da.percentile
def fx(v):
    """floor(v * 2^10) of a float, exact."""
    return math.floor(Fraction(float(v)) * SCALE)


def q_floats(q):
    return [n / d for n, d in q]


def run_percentile(rec):
    """One da.percentile call -> the record TLC decides."""
    import dask.array as da
    d = np.array(rec["d"], dtype=rec.get("dtype", "i8"))
    out, err = [], ""
    try:
        with warnings.catch_warnings():
            warnings.simplefilter("ignore")
            x = da.from_array(d, chunks=py_chunks(rec["chunks"]))
            qs = q_floats(rec["q"])
            kw = {} if rec.get("im", "default") == "default" else {"internal_method": rec["im"]}
            y = da.percentile(x, qs[0] if rec["sq"] else qs, method=rec["method"], **kw)
            if tuple(y.shape) != (() if rec["sq"] else (len(qs),)):
                err = "LazyShape"
            else:
                v = np.asarray(y.compute(scheduler="sync"), dtype="f8").reshape(-1)
                if not np.all(np.isfinite(v)):
                    err = "NonFinite"
                else:
                    out = [fx(t) for t in v]
    except NotImplementedError as ex:
        return None, "NotImplementedError: " + str(ex)[:60]
    except Exception as ex:  # noqa: BLE001 - an exception from dask is an observation
        err = type(ex).__name__
    r = {k: rec[k] for k in ("id", "fam", "d", "q", "sq", "method", "chunks")}
    r["im"] = rec.get("im", "default")
    r["dtype"] = rec.get("dtype", "i8")
    r["out"] = out
    r["raised"] = err
    return r, None


def classify_pct(rec, clause):
    """Signature: failing clause + structural class of the input (never the numbers)."""
    nblocks = sum(1 for c in rec["chunks"][0] if c > 0)
    has0 = [0, 1] in rec["q"]
    has100 = [100, 1] in rec["q"]
    if nblocks > 1 and clause == "Ends":
        return "percentile:ends:multi-chunk"          # q=0 / q=100 carry no weight in merge_percentiles
    if nblocks > 1 and clause == "Monotone" and len(rec["out"]) == len(rec["q"]):
        out, q = rec["out"], rec["q"]
        bad = [i for i in range(len(out) - 1) if out[i] > out[i + 1]]
        if bad and all(q[i] == [0, 1] or q[i + 1] == [100, 1] for i in bad):
            return "percentile:ends:multi-chunk"      # the same root cause seen from the neighbouring percentile
        return "percentile:monotone:interior:" + rec["method"]
    feats = ["multi-chunk" if nblocks > 1 else "one-chunk", rec["method"]]
    if 0 in rec["chunks"][0]:
        feats.append("zero-chunk")
    if has0 or has100:
        feats.append("q-has-ends")
    return "percentile:%s:%s" % (clause, "+".join(feats))


def _pct_work(rec):
    return run_percentile(rec)


def run_calls(ctx, recs):
    good = []
    for r, skip in pmap(_pct_work, recs, chunk=64):
        if skip:
            ctx.skip(skip)
        else:
            good.append(r)
    return good


def validate_pct(ctx, good, on_violation=None):
    """TLC decides every call record against the contract."""
    spec, cfg = ctx.model(ctx.spec("array", "PercentileTrace.tla"), {})
    for lo in range(0, len(good), 8000):
        part = good[lo:lo + 8000]
        rej = ctx.tlc_validate(spec, part, cfg, timeout=1800)
        byid = {r["id"]: r for r in part}
        for r in part:
            ctx.count(("pct", r["d"], r["q"], r["sq"], r["method"], r["chunks"], r["im"]),
                      len(r["d"]) > 1 and sum(1 for c in r["chunks"][0] if c > 0) > 1 and min(r["d"]) < max(r["d"]))
        for rid, clauses in rej.items():
            r = byid[rid]
            names = [c for c in ("Raised", "Length", "Within", "Monotone", "Ends") if '"%s"' % c in clauses[0]]
            cl = names[0] if names else "Rejected"
            if "Ends" in names:
                cl = "Ends"
            sig = classify_pct(r, cl)
            if on_violation:
                on_violation(sig, cl, rid)
            else:
                ctx.violation(sig, "da.percentile breaks the contract (%s)" % clauses[0], {"record": r, "clauses": clauses})
    return good


def decide_pct(ctx, recs, on_violation=None):
    """Run the calls, let TLC decide every record."""
    return validate_pct(ctx, run_calls(ctx, recs), on_violation)


def random_pct(rng, i):
    n = rng.randint(2, 40)
    alphabet = rng.choice([(0, 1, 2, 3, 4), tuple(range(10)), (0, 0, 0, 1, 5, 9), (3, 3, 3, 7)])
    d = [rng.choice(alphabet) for _ in range(n)]
    menu = [[0, 1], [1, 2], [5, 1], [25, 1], [50, 1], [75, 1], [95, 1], [199, 2], [100, 1], [1, 4], [399, 4]]
    k = rng.randint(1, 6)
    q = sorted(rng.sample(menu, k), key=lambda t: Fraction(t[0], t[1]))
    if rng.random() < 0.6:
        if [0, 1] not in q:
            q.insert(0, [0, 1])
        if [100, 1] not in q:
            q.append([100, 1])
    sq = len(q) == 1 and rng.random() < 0.5
    return {"id": "p%d" % i, "fam": "pct", "d": d, "q": q, "sq": sq, "method": rng.choice(METHODS),
            "chunks": random_chunks(rng, [n], zero_p=0.1), "im": rng.choice(["default", "dask"]),
            "dtype": rng.choice(["i8", "f8", "i4"])}


# ----------------------------------------------------------------------------- (2) nanquantile
def nan_call(mod, x, case, spell):
    axis = py_axis(case["ax"])
    qs = [n / d for n, d in case["q"]]
    if spell in ("percentile", "ndpercentile"):
        qs = [100 * v for v in qs]
        q = qs[0] if case["sq"] else qs
        if spell == "ndpercentile":      # percentile of an n-d array along axes (NaN-free data only)
            return mod.percentile(x, q, axis=axis, method=case["method"], keepdims=case["kd"])
        return mod.nanpercentile(x, q, axis=axis, method=case["method"], keepdims=case["kd"])
    q = qs[0] if case["sq"] else qs
    return mod.nanquantile(x, q, axis=axis, method=case["method"], keepdims=case["kd"])


def spellings(case):
    """How the case can be spelled: nanquantile, nanpercentile and - on NaN-free n-d data - percentile(axis=...)."""
    sp = ["quantile", "percentile"]
    if NAN not in case["cells"] and len(case["shape"]) >= 2 and case["ax"] != [NONE]:
        sp.append("ndpercentile")
    return sp


def ccase(case):
    """The case in the vocabulary of the C22 helpers."""
    return dict(case, fam="quant", op="nanquantile")


def nan_guard(case, exp):
    src = np_array(case)
    try:
        with warnings.catch_warnings():
            warnings.simplefilter("ignore")
            with np.errstate(all="ignore"):
                r = np.asarray(nan_call(np, src, case, "quantile"))
    except Exception as ex:  # noqa: BLE001
        return None if exp["err"] else "numpy raises %s: %s" % (type(ex).__name__, ex)
    if exp["err"]:
        return "spec says NumPy raises, numpy returns %r" % (r,)
    if list(r.shape) != list(exp["shape"]):
        return "shape: numpy %r spec %r" % (r.shape, exp["shape"])
    if r.dtype.kind != exp["kind"]:
        return "dtype kind: numpy %r spec %r" % (r.dtype.kind, exp["kind"])
    cc = ccase(case)
    want = [C22.exp_value(cc, e) for e in exp["cells"]]
    if not all(C22.same_value(cc, e, v, False) for e, v in zip(want, r.ravel())):
        return "cells: numpy %r spec %r" % (r.ravel().tolist(), exp["cells"])
    return None


def run_nan(case, chunks, spell):
    import dask.array as da
    try:
        with warnings.catch_warnings():
            warnings.simplefilter("ignore")
            with np.errstate(all="ignore"):
                x = da.from_array(np_array(case), chunks=py_chunks(chunks))
                y = nan_call(da, x, case, spell)
                obs, full = observe(y, whole_too=case.get("whole", False))
        if full is not None:
            obs["ckind"] = np.asarray(full).dtype.kind
        return obs, full
    except NotImplementedError as ex:
        return {"skip": "NotImplementedError: " + str(ex)[:60]}, None
    except Exception as ex:  # noqa: BLE001
        o = raised(ex)
        o["msg"] = str(ex)[:200]
        return o, None


def classify_nan(case, clause, spell):
    nd = len(case["shape"])
    feats = []
    if case["ax"] == [NONE]:
        feats.append("axis=None")
    elif len(case["ax"]) > 1:
        feats.append("multi-axis")
    elif (case["ax"][0] % nd) == nd - 1 and nd > 1:
        feats.append("last-axis")
    feats.append("scalar-q" if case["sq"] else "vector-q")
    if case["kd"]:
        feats.append("keepdims")
    feats.append("linear" if case["method"] == "linear" else "non-linear")
    cells = case["cells"]
    if NAN in cells:
        feats.append("nan")
    feats.append("int-data" if case["kind"] == "i" else "float-data")
    if any((100 * n) % d for n, d in case["q"]):
        feats.append("fractional-percent")
    return "%s:%s:%s" % ("percentile-nd" if spell == "ndpercentile" else "nan" + spell, clause, "+".join(feats))


def _nan_work(item):
    case, exp, chunks, spells = item
    g = nan_guard(case, exp)
    if g is not None:
        return [("GUARD", None, g)]
    res = []
    cc = ccase(case)
    for sp in spells:
        obs, full = run_nan(case, chunks, sp)
        if "skip" in obs:
            res.append(("SKIP", sp, obs["skip"]))
            continue
        cl = C22.judge(cc, exp, obs, full)
        det = {"obs": obs, "got": None if full is None else repr(np.asarray(full).tolist())} if cl else None
        res.append((cl, sp, det))
    return res


def replay_nan(ctx, items, on_violation=None):
    results = pmap(_nan_work, items, chunk=32)
    for (case, exp, chunks, _s), res in zip(items, results):
        for cl, spell, detail in res:
            if cl == "GUARD":
                raise MachineryError("TLA+ nanquantile reference disagrees with NumPy on %r: %s (spec=%r)" % (C22.slim(case), detail, exp))
            if cl == "SKIP":
                ctx.skip(detail)
                continue
            ctx.count(("nanq", C22.slim(case), chunks, spell), (not exp["err"]) and sum(len(c) for c in chunks) > len(chunks)
                      and (NAN in case["cells"] or case["kind"] == "i"))
            if cl:
                sig = classify_nan(case, cl, spell)
                if on_violation:
                    on_violation(sig, cl)
                else:
                    ctx.violation(sig, "%s: da.%s disagrees with the reference" % (cl, "percentile (n-d)" if spell == "ndpercentile" else "nan" + spell),
                                  {"case": C22.slim(case), "chunks": chunks, "expected": exp, "spell": spell, "observed": detail})


def nan_fills(ctx):
    rng = ctx.rng
    shapes = [(3,), (4,), (2, 2), (2, 3), (3, 2)] + ([] if ctx.quick else [(5,), (1, 3), (3, 1), (3, 3), (2, 4)])
    fills = []
    for sh in shapes:
        n = int(np.prod(sh))
        fills.append(C22.gen_fill(rng, sh, "f", nans=1))
        fills.append(C22.gen_fill(rng, sh, "f", nans=max(1, n // 2)))
        if len(sh) == 2:
            fills.append(C22.gen_fill(rng, sh, "f", nan_row=True))
        fills.append(C22.gen_fill(rng, sh, "i"))              # integer data (NaN-free): q must not be scaled in the data's dtype
        if not ctx.quick:
            fills.append(C22.gen_fill(rng, sh, "f", nans=0))
    return fills


def random_nan(rng, i):
    nd = rng.choice([1, 2, 2, 3])
    shape = [rng.randint(1, 9)] if nd == 1 else ([rng.randint(1, 5), rng.randint(1, 5)] if nd == 2 else
                                                  [rng.randint(1, 3), rng.randint(1, 3), rng.randint(1, 4)])
    n = int(np.prod(shape))
    cells = [rng.choice((0, 1, 2, 3)) for _ in range(n)]
    kind = rng.choice(["f", "f", "i"])
    if kind == "f":
        for p in rng.sample(range(n), min(n, rng.choice([0, 1, 2, 3, n // 2]))):
            cells[p] = NAN
        if nd >= 2 and rng.random() < 0.3:
            inner = n // shape[0]
            for j in range(inner):
                cells[j] = NAN
    axes = [[a] for a in range(-nd, nd)] + ([[0, 1]] if nd >= 2 else []) + ([[1, 2], [0, 1, 2]] if nd == 3 else [])
    vec = rng.random() < 0.5
    qvec = rng.choice([[[0, 1], [1, 4], [1, 2], [1, 1]], [[1, 8], [3, 8], [5, 8]], [[1, 16], [7, 8]]])
    case = {"id": "n%d" % i, "fam": "nanq", "shape": shape, "cells": cells, "kind": kind, "ax": rng.choice(axes),
            "kd": rng.random() < 0.4, "method": rng.choice(METHODS + ["linear"]),
            "q": qvec if vec else [rng.choice([[1, 2], [1, 4], [3, 4], [0, 1], [1, 1], [1, 8], [3, 8], [7, 8]])], "sq": not vec,
            "chunks": random_chunks(rng, shape, zero_p=0), "whole": True}
    case["spell"] = rng.choice(spellings(case))
    return case


def _nan_record(case):
    obs, full = run_nan(case, case["chunks"], case["spell"])
    if "skip" in obs:
        return None
    obs = dict(obs)
    obs.pop("msg", None)
    cc = ccase(case)
    cells, close = [], True
    if full is not None:
        for v in np.asarray(full).ravel():
            c, ok = C22.rat_cell(cc, v)
            cells.append(c)
            close = close and ok
    obs.update(cells=cells, close=bool(close))
    obs.setdefault("ckind", "")
    rec = {k: v for k, v in case.items() if k != "whole"}
    rec["obs"] = obs
    return rec


def decide_nan_records(ctx, recs, on_violation=None):
    spec, cfg = ctx.model(ctx.spec("array", "PercentileTrace.tla"), {})
    rej = ctx.tlc_validate(spec, recs, cfg, timeout=1800)
    byid = {r["id"]: r for r in recs}
    for r in recs:
        ctx.count(("nanrec", {k: v for k, v in r.items() if k not in ("obs", "id")}), r["obs"]["raised"] == "" and NAN in r["cells"])
    for rid, clauses in rej.items():
        r = byid[rid]
        cl = clauses[0].strip("{}\" ").split('"')[0] or "Rejected"
        sig = classify_nan(r, cl, r["spell"])
        if on_violation:
            on_violation(sig, cl)
        else:
            ctx.violation(sig, "TLC rejects a recorded nan%s call (%s)" % (r["spell"], clauses[0]), {"record": r, "clauses": clauses})


# ----------------------------------------------------------------------------- TLC
PCT_INVS = ["QsSorted", "ReferenceSatisfies", "ContractBites"]
NAN_INVS = ["NanWithin", "NanCellCount", "NanFreeIsQuantile"]
QVEC = "<< <<0, 1>>, <<1, 4>>, <<1, 2>>, <<1, 1>> >>"
QFRAC = "<< <<1, 8>>, <<3, 8>>, <<5, 8>> >>"          # 12.5 %, 37.5 %, 62.5 %: not integral as percents, exact as floats
QFORMS = ("{[q |-> << <<1, 2>> >>, sq |-> TRUE, kd |-> FALSE], [q |-> << <<3, 8>> >>, sq |-> TRUE, kd |-> TRUE], "
          "[q |-> %s, sq |-> FALSE, kd |-> FALSE], [q |-> %s, sq |-> FALSE, kd |-> TRUE], [q |-> %s, sq |-> FALSE, kd |-> FALSE]}"
          % (QVEC, QVEC, QFRAC))


def consts(fam, maxval=2, upto=4, long_data=(), fills=()):
    return {"Fam": fam, "MaxVal": maxval, "AllUpTo": upto,
            "LongData": TLA("{" + ", ".join(T.tla_value(list(d)) for d in long_data) + "}"),
            "Fills": TLA("{" + ", ".join(tla_fill(f) for f in fills) + "}"), "QForms": TLA(QFORMS)}


def enumerate_pct(ctx, maxval, upto, long_data, label="design+inputs:pct"):
    spec, cfg = ctx.model(ctx.spec("array", "PercentileMC.tla"), consts("pct", maxval, upto, long_data), invariants=PCT_INVS)
    cases, _ = ctx.tlc_cases(spec, cfg, label=label, timeout=3000)
    return [c for c in cases if c]


def enumerate_nan(ctx, fills, label="design+cases:nanq"):
    spec, cfg = ctx.model(ctx.spec("array", "PercentileMC.tla"), consts("nanq", fills=fills), invariants=NAN_INVS)
    cases, _ = ctx.tlc_cases(spec, cfg, label=label, timeout=3000)
    return [c for c in cases if c]


def pct_records(ctx, cases, cap):
    """(input, chunking) pairs of the enumerated inputs -> call records."""
    shared = {}
    for c in cases:
        c["c"]["chunkings"] = shared.setdefault(len(c["c"]["d"]), c["c"]["chunkings"])
    counts = [len(c["c"]["chunkings"]) for c in cases]
    total = sum(counts)
    sampled = total > cap
    picks = sorted(ctx.rng.sample(range(total), cap)) if sampled else range(total)
    recs, ci, base = [], 0, 0
    for p in picks:
        while p >= base + counts[ci]:
            base += counts[ci]
            ci += 1
        c = cases[ci]["c"]
        recs.append({"id": "e%d" % p, "fam": "pct", "d": c["d"], "q": c["q"], "sq": c["sq"], "method": c["method"],
                     "chunks": c["chunkings"][p - base], "im": "default" if p % 3 else "dask"})
    return recs, total, sampled


def run(ctx):
    rng = ctx.rng
    # ---- (1) da.percentile against the contract
    long_data = {tuple(rng.choice((0, 1, 2, 3, 4)) for _ in range(n)) for n in (5, 6, 7, 8) for _ in range(ctx.pick(1, 3))}
    long_data |= {(3, 3, 1), (2, 1, 0, 1, 1)}                   # the probe witnesses of DESIGN.md §7.2
    cases = enumerate_pct(ctx, ctx.pick(2, 3), ctx.pick(4, 5), sorted(long_data))
    recs, total, sampled = pct_records(ctx, cases, ctx.pick(6000, 90000))
    nrand = ctx.pick(1000, 10000)
    recs += [random_pct(rng, i) for i in range(nrand)]
    good = decide_pct(ctx, recs)
    for r in good[:1] + good[-1:]:
        ctx.sample({"percentile_call": {k: r[k] for k in ("d", "q", "method", "chunks", "out")}})
    # ---- (2) nanquantile / nanpercentile against the reference semantics
    fills = nan_fills(ctx)
    ncases = enumerate_nan(ctx, fills)
    pairs = [(c, ch) for c in ncases for ch in c["c"]["chunkings"]]
    ntotal = len(pairs)
    ncap = ctx.pick(3000, 40000)
    nsampled = ntotal > ncap
    if nsampled:
        pairs = rng.sample(pairs, ncap)
    items = [(c["c"], c["e"], ch, spellings(c["c"]) if not ctx.quick else [rng.choice(spellings(c["c"]))])
             for c, ch in pairs]
    replay_nan(ctx, items)
    if items:
        ctx.sample({"case": C22.slim(items[0][0]), "chunks": items[0][2], "expected": items[0][1]})
    nrecs = [r for r in pmap(_nan_record, [random_nan(rng, i) for i in range(ctx.pick(300, 5000))], chunk=32) if r is not None]
    decide_nan_records(ctx, nrecs)
    ctx.exhaustive = not (sampled or nsampled)
    ctx.rule = ("percentile: one call record per (TLC-enumerated data, q vector, method) x chunking plus random larger inputs, decided "
                "by TLC against the contract; non-trivial = >= 2 non-empty chunks and non-constant data.  nanquantile: TLC-enumerated "
                "(fill, q form, method, axis, keepdims) x chunking x spelling, plus recorded random calls; non-trivial = NaN present, "
                ">= 2 blocks, not an expected error")
    ctx.extra["pct_inputs_enumerated_by_tlc"] = len(cases)
    ctx.extra["pct_input_x_chunking_pairs"] = total
    ctx.extra["pct_calls_decided_by_tlc"] = len(good)
    ctx.extra["nanq_cases_enumerated_by_tlc"] = len(ncases)
    ctx.extra["nanq_case_x_chunking_pairs"] = ntotal
    ctx.extra["nanq_pairs_replayed"] = len(items)
    ctx.assumptions = ["NumPy per-block percentile kernels are correct", "TLC evaluates the contract and the reference correctly",
                       "data are NaN-free small integers (as int and float dtypes) for da.percentile",
                       "float results compared in floor(x*2^10) (contract) / within 2^-40*n*max(1,|x|) of the exact rational (nanquantile)"]


def replay(ctx, obj):
    c = obj["case"]
    if "record" in c and c["record"].get("fam") == "pct":
        r, _ = run_percentile(dict(c["record"], dtype=c["record"].get("dtype", "i8")))
        spec, cfg = ctx.model(ctx.spec("array", "PercentileTrace.tla"), {})
        rej = ctx.tlc_validate(spec, [r], cfg)
        print("record:", r, "\nrejected:", rej)
        return bool(rej)
    if "record" in c:
        r = c["record"]
        case = {k: v for k, v in r.items() if k != "obs"}
        case["whole"] = True
        rec = _nan_record(case)
        spec, cfg = ctx.model(ctx.spec("array", "PercentileTrace.tla"), {})
        rej = ctx.tlc_validate(spec, [rec], cfg)
        print("observed:", rec["obs"], "rejected:", rej)
        return bool(rej)
    case, exp = c["case"], c["expected"]
    obs, full = run_nan(case, c["chunks"], c["spell"])
    cl = C22.judge(ccase(case), exp, obs, full)
    print("case:", case, "\nchunks:", c["chunks"], c["spell"], "\nexpected:", exp, "\nobserved:", obs,
          None if full is None else np.asarray(full).tolist(), "\nclause:", cl)
    return cl is not None


# ----------------------------------------------------------------------------- selftest
def selftest(ctx):
    import copy
    import importlib
    P = importlib.import_module("dask.array.percentile")      # (dask.array.percentile the attribute is the function)
    import dask.array.reductions as R
    rng = ctx.rng
    known = set(ctx.known)
    cases = enumerate_pct(ctx, 2, 3, [(3, 1, 4, 1, 2), (0, 2, 2, 1, 0, 4)], label="selftest inputs")
    recs, _total, _s = pct_records(ctx, cases, 10 ** 9)
    recs = rng.sample(recs, min(300, len(recs)))
    fills = [C22.gen_fill(rng, (2, 3), "f", nans=2), C22.gen_fill(rng, (3, 2), "f", nan_row=True), C22.gen_fill(rng, (4,), "f", nans=1)]
    ncases = enumerate_nan(ctx, fills, label="selftest cases")
    pairs = [(c, ch) for c in ncases for ch in c["c"]["chunkings"]]
    nitems = [(c["c"], c["e"], ch, ["quantile"]) for c, ch in rng.sample(pairs, min(120, len(pairs)))]

    def nan_new():
        found = []
        replay_nan(ctx, nitems, on_violation=lambda sig, cl: found.append((sig, cl)))
        return [f for f in found if f[0] not in known]

    def pct_calls(tag):
        return run_calls(ctx, [dict(r, id="%s:%s" % (tag, r["id"])) for r in recs])

    pct_mutants = [
        ("merge_percentiles: midpoint loses its factor 0.5 (wrong operand)", [P], "merge_percentiles",
         "rv = 0.5 * (combined_vals[lower] + combined_vals[upper])", "rv = combined_vals[lower] + combined_vals[upper]"),
        ("merge_percentiles: right search index not stepped back by one (off-by-one at the upper boundary)", [P], "merge_percentiles",
         'right = np.searchsorted(combined_q, desired_q, side="right") - 1', 'right = np.searchsorted(combined_q, desired_q, side="right")'),
        ("merge_percentiles: empty chunks are no longer filtered out (dropped branch)", [P], "merge_percentiles",
         "for q, val, N in zip(qs, vals, Ns) if N)", "for q, val, N in zip(qs, vals, Ns))"),
    ]
    nan_mutants = [
        ("_custom_nanquantile: the NaN count is not subtracted from the lane length", [R], "_custom_nanquantile",
         "- np.isnan(sorted_arr).sum(axis=-1).reshape(-1)", "- 0 * np.isnan(sorted_arr).sum(axis=-1).reshape(-1)"),
        ("_custom_nanquantile: the exact-position case (fraction 0) is no longer special-cased", [R], "_custom_nanquantile",
         "factor_higher = np.where(factor_higher == 0.0, 1.0, factor_higher)", "pass"),
    ]
    # all percentile calls (unmutated and under each mutant) are decided by ONE TLC run of the contract
    batch = pct_calls("base")
    for k, (_w, mods, fn, old, new) in enumerate(pct_mutants):
        restore = _mutate(mods, fn, old, new)
        try:
            batch += pct_calls("m%d" % k)
        finally:
            restore()
    flagged = {}
    validate_pct(ctx, batch, on_violation=lambda sig, cl, rid: flagged.setdefault(rid.split(":")[0], []).append(sig)
                 if sig not in known else None)
    base_n = nan_new()
    ok = not flagged.get("base") and not base_n
    print("selftest baseline: %d percentile calls, %d nanquantile cases, unexpected violations without a mutant: %d"
          % (len(recs), len(nitems), len(flagged.get("base", [])) + len(base_n)))
    for k, (what, _m, fn, _o, _n) in enumerate(pct_mutants):
        got = flagged.get("m%d" % k, [])
        ok = ok and len(got) > 0
        print("selftest mutant [%s]: %s -> %s (%d calls flagged, e.g. %s)"
              % (fn, what, "DETECTED" if got else "MISSED", len(got), got[0] if got else "-"))
    for what, mods, fn, old, new in nan_mutants:
        restore = _mutate(mods, fn, old, new)
        try:
            got = nan_new()
        finally:
            restore()
        ok = ok and len(got) > 0
        print("selftest mutant [%s]: %s -> %s (%d calls flagged, e.g. %s)"
              % (fn, what, "DETECTED" if got else "MISSED", len(got), got[0][0] if got else "-"))
    # (ii) corrupted recorded fields are rejected by the trace specification
    done = [run_percentile(dict(r))[0] for r in recs[:60]]
    clean = [r for r in done if r and r["raised"] == "" and len(r["out"]) >= 2 and min(r["d"]) < max(r["d"])][:24]
    corrupt = []
    for j, r in enumerate(clean):
        c = copy.deepcopy(r)
        kind = j % 3
        if kind == 0:          # one value dropped from the recorded output
            c["out"] = c["out"][:-1]
            want = "Length"
        elif kind == 1:        # a recorded value pushed above the maximum of the data
            c["out"][-1] = max(c["d"]) * SCALE + SCALE
            want = "Within"
        else:                  # recorded values made decreasing (kept within the data)
            c["out"] = [max(c["d"]) * SCALE] + [min(c["d"]) * SCALE] * (len(c["out"]) - 1)
            want = "Monotone"
        c["id"] = "x" + r["id"]
        c["want"] = want
        corrupt.append(c)
    nrecs = []
    for i in range(40):
        r = _nan_record(random_nan(rng, i))
        if r is not None and r["obs"]["raised"] == "" and len(r["obs"]["cells"]) > 0:
            nrecs.append(r)
    ncorrupt = []
    for r in nrecs[:12]:
        c = copy.deepcopy(r)
        cell = c["obs"]["cells"][-1]
        c["obs"]["cells"][-1] = [cell[0] + 1, max(1, cell[1])]
        c["id"] = "x" + r["id"]
        c["want"] = "Content"
        ncorrupt.append(c)
    spec, cfg = ctx.model(ctx.spec("array", "PercentileTrace.tla"), {})
    rej = ctx.tlc_validate(spec, clean + nrecs[:12] + corrupt + ncorrupt, cfg)
    orig_rejected = {k for k in rej if not k.startswith("x")}
    judged = [c for c in corrupt + ncorrupt if c["id"][1:] not in orig_rejected]
    missed = [c["id"] for c in judged if c["id"] not in rej or c["want"] not in rej[c["id"]][0]]
    good = len(judged) >= 10 and not missed
    ok = ok and good
    print("selftest trace: %d recorded calls, %d rejected before corruption (known findings); %d corrupted copies (dropped value / "
          "out of range / decreasing / nanquantile cell) -> %d rejected with the expected clause: %s"
          % (len(clean) + len(nrecs[:12]), len(orig_rejected), len(judged), len(judged) - len(missed),
             "DETECTED" if good else "MISSED %r" % missed[:3]))
    print("C32 selftest: %s" % ("ok" if ok else "FAILED"))
    return 0 if ok else 1
