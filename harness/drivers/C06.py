"""C06 - static ordering is a total order consistent with dependencies.

spec -> code: TLC enumerates (specs/graph/OrderMC.tla) every DAG with <= N nodes in canonical
numbering x every assignment of node kinds (task / plain data, alias, list), the same with
references to keys outside the graph, and every cyclic digraph with <= M nodes; the design
invariants check the contract (specs/graph/Order.tla) itself.  Every case is built as a real dask
graph in up to three spellings (legacy dict, Task/DataNode/Alias objects, mixed), with scrambled
key names and insertion order, and `dask.order.order` is called on it.
code -> spec: every call - of the enumerated cases as well as of seeded random larger graphs and
of graphs taken from real array / bag / delayed / dataframe collections - is written as a call
record {graph, returned priorities | raised | hang} and TLC decides each record against the
contract (specs/graph/OrderTrace.tla): any linear extension is accepted, nothing else is."""
from __future__ import annotations

import json

from .. import graphs as G
from ..core import MachineryError
from ..par import pmap

META = {
    "title": "Static task ordering is a total order consistent with dependencies",
    "design_ref": "DESIGN.md §4.2 C06",
    "technique": "TLA+ contract of dask.order.order (Pattern B); TLC enumerates all small DAGs x node kinds x external "
                 "references and all small cyclic digraphs; each case is run through the real order() and every call record "
                 "is validated by TLC against the contract; random larger and collection-derived graphs likewise",
    "level_text": "Small-scope exhaustive: every DAG with <= 5 nodes in canonical numbering under every task/plain kind assignment, "
                  "every such graph with <= 4 nodes and 1-2 references to external keys, every cyclic digraph with <= 3 nodes under "
                  "every kind assignment, every fifth cyclic 4-node digraph all-task / all-plain (thorough tier; the quick "
                  "tier is exhaustive up to 4 / 3 / 3 nodes and takes every third 5-node DAG and 4-node external-reference graph and "
                  "1/31 of the cyclic 4-node digraphs); thorough adds stride samples of the 6-node DAGs (1/61) and of the 5-node "
                  "graphs with external references (1/13). A structured family of 6-9 key graphs (1-2 literal data roots, 2-3 tasks, "
                  "3-4 nested non-task list nodes of arity 2-3 over earlier keys: the da.store / delayed-list shapes) is enumerated "
                  "by TLC too: all 6-key and a stride sample of the 7-9 key shapes in the quick tier (~5 000 graphs), all shapes up "
                  "to 7 keys and samples of the 8-9 key shapes in the thorough tier, in the legacy and mixed spellings. Cases are built as legacy, Task-object and mixed graphs with scrambled names and "
                  "insertion order; TLC decides each recorded call of dask.order.order against the contract (domain, distinctness, "
                  "dependencies first, cycles rejected). Hand-written witnesses, seeded random graphs (<= ~45 nodes) and graphs of "
                  "real array/bag/delayed/dataframe collections are recorded and decided the same way.",
    "level_note": "Trusted: TLC, the graph builder of harness/graphs.py (checked against a Python reference of IsDag on every "
                  "case), GraphNode.dependencies for graphs taken from collections. Bounded graph sizes; above the bound "
                  "sampling only. A CPU-time guard (0.2 s, confirmed with 0.6 s) turns non-termination into an observation.",
}

FORMS = ("legacy", "taskspec", "mixed")
STYLES = ("str", "kstr", "tuple", "int")


# --------------------------------------------------------------------------- one call
def observe(dsk, keyindex, stats=False):
    """Call dask.order.order on a real graph.  keyindex maps key objects to abstract numbers."""
    import dask.order as do          # looked up at call time (self-test mutants replace do.order)
    kind, val = G.guarded(lambda: do.order(dsk, return_stats=True) if stats else do.order(dsk))
    if kind == "hang":
        return {"res": "hang", "prio": [], "ints": True}
    if kind == "raised":
        return {"res": "raised", "prio": [], "ints": True, "exc": type(val).__name__, "msg": str(val)[:120]}
    prio, ints = [], True
    try:
        items = list(val.items())
    except Exception as ex:  # noqa: BLE001
        return {"res": "raised", "prio": [], "ints": True, "exc": "BadReturn", "msg": repr(ex)[:120]}
    for k, p in items:
        if stats:
            p = getattr(p, "priority", p)
        if type(p) is not int or abs(p) > 10 ** 6:
            ints = False
            p = 0
        try:
            kk = keyindex.get(k, 0)
        except TypeError:
            kk = 0
        prio.append([kk, p])
    prio.sort()
    return {"res": "ok", "prio": prio, "ints": ints}


def variant_for(rng, n, form):
    perm = list(range(n))
    rng.shuffle(perm)
    insert = list(range(n))
    rng.shuffle(insert)
    return {"form": form, "style": rng.choice(STYLES), "perm": perm, "insert": insert,
            "alias1": rng.choice(["alias", "alias", "list"]), "stats": rng.random() < 0.2}


def run_case(case, variant):
    """Build the abstract case in one spelling, call order, return the call record (no id yet)."""
    n = case["n"]
    deps = [sorted(d) for d in case["deps"]]
    names = G.names_for(n, variant["style"], variant["perm"])
    dsk = G.build(deps, case["kinds"], names, variant["form"], variant["insert"], variant["alias1"])
    keyindex = {G.thaw(nm): i + 1 for i, nm in enumerate(names)}
    obs = observe(dsk, keyindex, variant["stats"])
    rec = {"fam": case.get("fam", "rand"), "n": n, "deps": deps, "kinds": list(case["kinds"]), "variant": variant}
    rec.update(obs)
    return rec


def _work(item):
    case, variants = item
    if G.has_cycle([[d for d in ds if d <= case["n"]] for ds in case["deps"]]) == case["dag"]:
        return "GUARD"
    return [run_case(case, v) for v in variants]


# --------------------------------------------------------------------------- classification
def removable_leaves(deps, kinds):
    """How many nodes dask.order's leaf normalisation removes: plain nodes with > 1 dependencies
    that have no dependents (iteratively)."""
    n = len(deps)
    alive = set(range(1, n + 1))
    removed = 0
    while True:
        dependents = {k: set() for k in alive}
        for k in alive:
            for d in deps[k - 1]:
                if d in alive:
                    dependents[d].add(k)
        r = [k for k in alive if not dependents[k] and kinds[k - 1] == "p"
             and len([d for d in deps[k - 1] if d in alive]) > 1]
        if not r:
            return removed, alive
        removed += len(r)
        alive -= set(r)


def classify(rec, clauses):
    """Signature = input class of one root cause (never raw numbers)."""
    deps, kinds, n = rec["deps"], rec["kinds"], rec["n"]
    inner = [[d for d in ds if d <= n] for ds in deps]
    form = rec["variant"]["form"] if "variant" in rec else rec.get("src", "collection")
    if G.has_cycle(inner):
        if rec["res"] == "hang":
            return "cyclic:hang"
        return "cyclic:accepted"
    if rec["res"] == "hang":
        return "dag:hang:%s" % form
    removed, alive = removable_leaves(inner, kinds)
    if rec["res"] == "raised":
        # a plain-data root with several dependents, every one of which is a non-task leaf that the
        # normalisation removes: the root is parked on them and never receives a priority
        gone = set(range(1, n + 1)) - alive
        for c in range(1, n + 1):
            dependents = {k for k in range(1, n + 1) if c in inner[k - 1]}
            if kinds[c - 1] == "p" and not inner[c - 1] and len(dependents) >= 2 and dependents <= gone \
                    and rec.get("exc") == "IndexError":
                return "data-root-of-removed-nontask-leaves:IndexError"
        return "dag:raised:%s:%s" % (form, rec.get("exc", "?"))
    if removed >= 2 and set(clauses) <= {"Distinct", "DepsFirst"}:
        # the known collision: is everything fine once the removed leaves are set aside?
        pr = {k: p for k, p in rec["prio"]}
        rest_ok = len({pr[k] for k in alive if k in pr}) == len([k for k in alive if k in pr]) and all(
            pr[k] > pr[d] for k in alive for d in inner[k - 1] if d in alive and k in pr and d in pr)
        # a literal data root that was parked on removed list nodes and shares its priority with another key
        byp = {}
        for k, p in rec["prio"]:
            byp.setdefault(p, []).append(k)
        if any(len(ks) > 1 and any(1 <= k <= n and kinds[k - 1] == "p" and not inner[k - 1] for k in ks) for ks in byp.values()):
            return "released-data-root:priority-collision"
        if rest_ok:
            return "nontask-leaves>=2:priority-collision"
    ext = any(d > n for ds in deps for d in ds)
    return "dag:%s:%s%s" % ("+".join(sorted(clauses)), form, ":external" if ext else "")


def clause_names(texts):
    out = set()
    for t in texts:
        for part in t.strip("{} ").split(","):
            part = part.strip().strip('"')
            if part:
                out.add(part)
    return sorted(out)


# --------------------------------------------------------------------------- TLC judgement
TRACE_FIELDS = ("id", "n", "deps", "res", "prio", "ints")


def judge(ctx, recs, batch=40000, label="trace-validation"):
    """Let TLC decide every record; returns [(record, [clauses])] for the rejected ones."""
    spec, cfg = ctx.model(ctx.spec("graph", "OrderTrace.tla"), {})
    bad = []
    for lo in range(0, len(recs), batch):
        part = recs[lo:lo + batch]
        slim = [{k: r[k] for k in TRACE_FIELDS} for r in part]
        rej = ctx.tlc_validate(spec, slim, cfg, timeout=1800, label=label)
        byid = {r["id"]: r for r in part}
        for rid, texts in rej.items():
            bad.append((byid[rid], clause_names(texts)))
    return bad


def nontrivial(rec):
    return rec["n"] >= 3 and sum(len(d) for d in rec["deps"]) >= 2


def report(ctx, recs, bad):
    for r in recs:
        ctx.count((r["n"], r["deps"], r["kinds"], r.get("variant", r.get("src"))), nontrivial(r))
    for r, clauses in bad:
        ctx.violation(classify(r, clauses), "order() breaks %s (%s graph, n=%d)" % (
            "+".join(clauses), r["variant"]["form"] if "variant" in r else r.get("src"), r["n"]),
            {"record": {k: v for k, v in r.items() if k != "id"}, "clauses": clauses})


# --------------------------------------------------------------------------- case sources
INVS = ["DagSatisfiable", "ReversedRejected", "CyclicUnsatisfiable", "ExternalRejected", "FamilyShape"]


def job(fam, n, allkinds=True, maxext=0, stride=1, offset=0, d=0, t=0):
    return {"fam": fam, "n": n, "allkinds": allkinds, "maxext": maxext, "stride": stride, "offset": offset, "d": d, "t": t}


def nest(d, t, lists, stride, rng):
    """nested non-task list nodes over d shared literal data roots and t shared tasks (da.store / delayed-list shapes)"""
    return job("nest", d + t + lists, stride=stride, offset=rng.randrange(stride), d=d, t=t)


def plans_for(ctx):
    """Enumeration jobs of the tier, grouped into TLC runs.  Exhaustive (stride 1) up to the stated
    bound; one notch above it a declared stride sample of the graph codes whose offset is drawn
    from the seed."""
    off = lambda st: ctx.rng.randrange(st)
    small = ([job("dag", n) for n in range(1, 6)] + [job("ext", n, maxext=2) for n in range(1, 5)]
             + [job("cyc", n) for n in range(1, 4)])
    if ctx.quick:
        # exhaustive up to 4 nodes; of the 5-node DAGs / 4-node external-reference graphs every third code
        # (the thorough tier takes all of them).  Strides are odd / prime: a power of two would pin the low bits
        # of the code, i.e. the first edges of every sampled graph
        return [[job("dag", n) for n in range(1, 5)] + [job("dag", 5, stride=3, offset=off(3))]
                + [job("ext", n, maxext=2) for n in range(1, 4)] + [job("ext", 4, maxext=2, stride=3, offset=off(3))]
                + [job("cyc", n) for n in range(1, 4)]
                + [job("cyc", 4, allkinds=False, stride=31, offset=off(31))]
                # 6-9 keys, structured (stride over the codes of the family; ~10 % of the codes have arity 2-3)
                + [nest(1, 2, 3, 1, ctx.rng), nest(1, 2, 4, 17, ctx.rng), nest(2, 2, 3, 17, ctx.rng), nest(1, 3, 3, 17, ctx.rng),
                   nest(2, 2, 4, 251, ctx.rng), nest(1, 3, 4, 251, ctx.rng), nest(2, 3, 4, 8191, ctx.rng)]]
    return [small,
            [job("dag", 6, stride=61, offset=off(61))],
            [job("ext", 5, maxext=2, stride=13, offset=off(13))],
            [job("cyc", 4, allkinds=False, stride=5, offset=off(5))],
            [nest(1, 2, 3, 1, ctx.rng), nest(1, 2, 4, 1, ctx.rng), nest(2, 2, 3, 1, ctx.rng), nest(1, 3, 3, 1, ctx.rng)],
            [nest(2, 2, 4, 31, ctx.rng), nest(1, 3, 4, 31, ctx.rng), nest(2, 3, 3, 3, ctx.rng), nest(2, 3, 4, 509, ctx.rng)]]


def forms_for(case, rng, all_forms_upto):
    """every spelling for the small cases, one (seeded) spelling above"""
    if case["fam"] == "nest":
        # list nodes only exist as such in the legacy and the mixed spelling (Task-object graphs turn them into tasks)
        return ["legacy", "mixed"] if case["n"] <= all_forms_upto + 5 else [rng.choice(["legacy", "mixed"])]
    forms = ("taskspec", "mixed") if case["fam"] == "ext" else FORMS
    if case["n"] <= all_forms_upto - {"dag": 0, "ext": 1, "cyc": 2}[case["fam"]]:
        return list(forms)
    return [rng.choice(forms)]


def enumerated(ctx, plan, all_forms_upto=None, unsat_n=None):
    """TLC design check + case export; returns [(case, [variants])], #cases, the plan"""
    all_forms_upto = ctx.pick(4, 5) if all_forms_upto is None else all_forms_upto
    consts = {"Plan": plan, "UnsatN": ctx.pick(3, 4) if unsat_n is None else unsat_n}
    spec, cfg = ctx.model(ctx.spec("graph", "OrderMC.tla"), consts, invariants=INVS)
    cases, _ = ctx.tlc_cases(spec, cfg, label="design+cases", timeout=3000)
    items = []
    for c in cases:
        case = dict(c["c"], dag=c["e"]["dag"])
        items.append((case, [variant_for(ctx.rng, case["n"], f) for f in forms_for(case, ctx.rng, all_forms_upto)]))
    ctx.rng.shuffle(items)          # spread the expensive (non-terminating) cases over the workers
    return items, len(items), plan


def run_items(ctx, items, prefix):
    import dask.order  # noqa: F401 - import before forking
    G.prepare_fork()
    # a call costs ~0.2 ms: below ~10^5 items a fork pool costs more than it saves (measured)
    out = pmap(_work, items, chunk=256, procs=None if len(items) > 80000 else 1)
    recs = []
    for (case, _vs), res in zip(items, out):
        if res == "GUARD":
            raise MachineryError("IsDag of Graphs.tla disagrees with the Python reference on %r" % (case,))
        for r in res:
            r["id"] = "%s%d" % (prefix, len(recs))
            recs.append(r)
    return recs


def random_cases(ctx, count):
    """Seeded larger graphs: random / array-shaped DAGs with plain leaves (store-like lists),
    plain roots, external references; some made cyclic."""
    rng = ctx.rng
    items = []
    for _ in range(count):
        shape = rng.choice(["random", "random", "layered", "sparse"])
        if shape == "layered":
            deps = G.layered_dag(rng, rng.randint(2, 6), rng.randint(0, 3))
        elif shape == "sparse":
            deps = G.random_dag(rng, rng.randint(6, 40), p=0.08, max_arity=3)
        else:
            deps = G.random_dag(rng, rng.randint(6, 30))
        n = len(deps)
        kinds = []
        pplain = rng.choice([0.0, 0.1, 0.3])
        for i in range(n):
            kinds.append("p" if rng.random() < pplain else "t")
        # store-like list leaves over several tasks
        for _j in range(rng.choice([0, 0, 1, 2, 3])):
            cand = list(range(1, len(deps) + 1))
            deps.append(sorted(rng.sample(cand, min(len(cand), rng.randint(2, 4)))))
            kinds.append("p")
        n = len(deps)
        form = rng.choice(FORMS)
        if form != "legacy" and rng.random() < 0.4:
            for _j in range(rng.randint(1, 3)):
                i = rng.randrange(n)
                if kinds[i] == "t":
                    deps[i] = sorted(set(deps[i]) | {n + rng.choice([1, 2])})
        if rng.random() < 0.06:
            deps = G.add_back_edges(rng, deps, rng.randint(1, 2))
        case = {"n": n, "deps": deps, "kinds": kinds}
        case["dag"] = not G.has_cycle([[d for d in ds if d <= n] for ds in deps])
        items.append((case, [variant_for(rng, n, form)]))
    return items


def fixed_cases(ctx):
    """Hand-written witnesses just above the exhaustive bound (DESIGN.md section 7 and the findings
    of this check), each in every spelling that can express it."""
    shapes = [
        # 4 tasks + 3 list leaves over pairs (section 7 witness)
        ([[], [], [], [], [1, 2], [2, 3], [3, 4]], "ttttppp"),
        # a data root shared by two list nodes that are themselves collected by a list leaf
        ([[], [], [], [1, 2, 3], [1, 2, 3], [4, 5]], "tptppp"),
        ([[], [], [], [], [2, 3, 4], [1, 3, 5], [5, 6]], "ptppppp"),
        # nested lists over a shared literal data root; an inner list is exposed after the root was released
        ([[], [], [], [2, 3], [1, 2, 3], [1, 2, 4], [5, 6]], "pttpppp"),
        # store-like: data roots, one task layer, two list leaves
        ([[], [], [1], [2], [1, 2], [3, 4], [3, 4]], "ppttttp"),
    ]
    items = []
    for deps, kinds in shapes:
        case = {"fam": "fixed", "n": len(deps), "deps": deps, "kinds": list(kinds), "dag": True}
        items.append((case, [variant_for(ctx.rng, len(deps), f) for f in FORMS]))
    return items


def collection_graphs(ctx):
    """(source name, Task-object graph) taken from real collections, raw and optimized."""
    import dask
    import dask.array as da
    import dask.bag as db
    import numpy as np
    from dask._task_spec import convert_legacy_graph   # what dask.local does before it calls order()
    out = []

    def add(name, coll):
        try:
            out.append((name, convert_legacy_graph(dict(coll.__dask_graph__()))))
            (opt,) = dask.optimize(coll)
            out.append((name + ":opt", convert_legacy_graph(dict(opt.__dask_graph__()))))
        except Exception as ex:  # noqa: BLE001 - building inputs is not the property
            ctx.skip("collection %s not built: %s" % (name, type(ex).__name__))

    x = da.from_array(np.arange(24).reshape(4, 6), chunks=(2, 3))
    add("array:elemwise+sum", (x + 1).sum(axis=0))
    add("array:transpose-dot", x.dot(x.T))
    add("array:rechunk", x.rechunk((3, 2)) * 2)
    add("array:slicing+concat", da.concatenate([x[:, :2], x[:, 4:]], axis=1).mean())
    add("array:reduction-tree", da.ones(16, chunks=2).sum(split_every=2))
    add("array:overlap", da.ones(12, chunks=3).map_overlap(lambda b: b, depth=1))
    b = db.from_sequence(range(12), npartitions=4)
    add("bag:map+fold", b.map(lambda v: v + 1).fold(max))
    add("bag:groupby", b.groupby(lambda v: v % 2))
    d1 = dask.delayed(G.fn)(1)
    d2 = [dask.delayed(G.fn)(d1, i) for i in range(3)]
    add("delayed:fan", dask.delayed(G.fn)(*d2))
    try:
        from ..frames import dd as get_dd
        import pandas as pd
        ddm = get_dd()
        pdf = pd.DataFrame({"a": range(12), "b": [i % 3 for i in range(12)]})
        df = ddm.from_pandas(pdf, npartitions=3)
        add("frame:groupby-sum", df.groupby("b").a.sum())
        add("frame:assign+filter", df[df.a > 3].assign(c=lambda q: q.a + 1))
        add("frame:merge", df.merge(df, on="b"))
    except Exception as ex:  # noqa: BLE001
        ctx.skip("dataframe graphs unavailable: %s" % type(ex).__name__)
    return out


def collection_records(ctx):
    recs = []
    for name, dsk in collection_graphs(ctx):
        if not (2 <= len(dsk) <= 150) or not all(hasattr(v, "dependencies") for v in dsk.values()):
            ctx.skip("collection graph out of bounds: %s" % name)
            continue
        keys, deps, _ext = G.abstract_of(dsk)
        kinds = ["p" if type(v).__name__ == "DataNode" else "t" for v in dsk.values()]
        keyindex = {k: i + 1 for i, k in enumerate(keys)}
        for stats in (False, True):
            obs = observe(dsk, keyindex, stats)
            rec = {"n": len(keys), "deps": deps, "kinds": kinds, "src": name + (":stats" if stats else "")}
            rec.update(obs)
            rec["id"] = "c%d" % len(recs)
            recs.append(rec)
    return recs


# --------------------------------------------------------------------------- entry points
def process(ctx, items, prefix, slice_=50000, extra=()):
    """run the real function on the items and let TLC judge the records, slice by slice (bounded
    memory); `extra` (ready-made records) rides along with the first slice"""
    fams = {}
    extra = list(extra)
    for lo in range(0, len(items), slice_):
        recs = run_items(ctx, items[lo:lo + slice_], "%s%d_" % (prefix, lo // slice_)) + extra
        extra = []
        report(ctx, recs, judge(ctx, recs, batch=160000))
        for r in recs:
            fams.setdefault(r.get("fam", "collection"), r)
    for fam, r in sorted(fams.items()):
        if fam in ("dag", "ext", "cyc", "nest"):
            ctx.sample({"family": fam, "n": r["n"], "deps": r["deps"], "kinds": r["kinds"], "form": r["variant"]["form"],
                        "res": r["res"], "prio": r["prio"]})
    return set(fams)


def run(ctx):
    total, plan, fams = 0, [], set()
    groups = plans_for(ctx)
    for gi, group in enumerate(groups):
        items, n, _ = enumerated(ctx, group)
        total += n
        plan += group
        extra = []
        if gi == 0:
            # larger graphs: hand-written witnesses, seeded random graphs, graphs of real collections
            items = items + fixed_cases(ctx) + random_cases(ctx, ctx.pick(2000, 10000))
            extra = collection_records(ctx)
        fams |= process(ctx, items, "e%d_" % gi, extra=extra)
        del items
    if not {"dag", "ext", "cyc", "nest"} <= fams:
        raise MachineryError("case enumeration is missing a family: %s" % sorted(fams))
    sampled = any(j["stride"] > 1 for j in plan)
    ctx.exhaustive = not sampled
    ctx.extra["cases_enumerated_by_tlc"] = total
    ctx.extra["enumeration_plan"] = json.dumps(
        [[j["fam"], j["n"], ("%d data roots + %d tasks + %d lists" % (j["d"], j["t"], j["n"] - j["d"] - j["t"])) if j["fam"] == "nest"
          else "all kinds" if j["allkinds"] else "all-task/all-plain", "stride %d" % j["stride"]]
         for j in plan])
    ctx.rule = ("cases = TLC-enumerated (graph, kinds, external refs) x spelling (legacy / Task objects / mixed; scrambled names, "
                "insertion order, alias-vs-list, return_stats) plus seeded random and collection-derived graphs; every call is one "
                "record decided by TLC; non-trivial = at least 3 keys and 2 edges; distinct by (graph, kinds, spelling)")
    ctx.assumptions = ["TLC evaluates the contract correctly", "harness/graphs.build constructs the graph the case describes",
                       "GraphNode.dependencies is right for collection-derived graphs (C08)",
                       "a call that burns 0.2 s and then again 0.6 s of CPU without returning does not terminate"]


def replay(ctx, obj):
    r = obj["case"]["record"]
    if "variant" not in r:
        # a graph taken from a real collection: rebuild it by its source name
        recs = [x for x in collection_records(ctx) if x.get("src") == r.get("src")]
        bad = judge(ctx, recs)
        print("collection graph %s: observed %s; rejected: %s" % (r.get("src"), [x["res"] for x in recs],
                                                                   [(classify(x, c), c) for x, c in bad]))
        return bool(bad)
    rec = run_case({"n": r["n"], "deps": r["deps"], "kinds": r["kinds"]}, r["variant"])
    rec["id"] = "replay"
    bad = judge(ctx, [rec])
    print("graph:", json.dumps({k: rec[k] for k in ("n", "deps", "kinds", "variant")}))
    print("observed:", rec["res"], rec["prio"], rec.get("exc", ""))
    print("rejected:", [(classify(x, c), c) for x, c in bad])
    return bool(bad)


def selftest(ctx):
    import dask.core
    import dask.order
    from ..srcmut import mutant
    ok = True
    # a fixed small case set: all DAGs with <= 4 nodes x kinds, 1 external ref, cyclic n <= 3
    plan = ([job("dag", n) for n in range(1, 5)] + [job("ext", n, maxext=1) for n in range(1, 4)]
            + [job("cyc", n, allkinds=False) for n in range(1, 4)])
    items, _, _ = enumerated(ctx, plan, all_forms_upto=9, unsat_n=3)

    mutants = [
        ("external keys keep their priorities (dropped final deletion loop)", dask.order, "order",
         "    for k in external_keys:\n        del result[k]\n", "    pass\n"),
        ("a dependent is released when one dependency is still missing (off-by-one in num_needed test)", dask.order, "order",
         "                if not num_needed[dep]:\n                    if len(dependents[item]) == 1:",
         "                if num_needed[dep] <= 1:\n                    if len(dependents[item]) == 1:"),
        ("priority counter also skips internal keys (wrong operand in the external-key test)", dask.order, "order",
         "if item not in external_keys:\n                i += 1", "if item in external_keys or i % 2:\n                i += 1"),
        ("removed data roots are not parked on their dependents (dropped statement)", dask.order, "order",
         "                    requires_data_task[dep].add(root)\n", "                    pass\n"),
    ]
    # run the same case set on the unchanged function and on every mutant, then one TLC judgement
    recs = run_items(ctx, items, "b_")
    for mi, (what, mod, name, old, new) in enumerate(mutants):
        with mutant(mod, name, old, new):
            recs += run_items(ctx, items, "m%d_" % mi)
    sigs = {}
    for r, clauses in judge(ctx, recs):
        tag = r["id"].split("_")[0]
        sg = classify(r, clauses)
        sigs.setdefault(tag, {})
        sigs[tag][sg] = sigs[tag].get(sg, 0) + 1
    base = sigs.get("b", {})
    allowed = set(ctx.known)
    extra = set(base) - allowed
    print("selftest C06: unchanged tree -> signatures %s (known: %s)" % (sorted(base), sorted(allowed)))
    if extra:
        print("selftest C06: FAIL unchanged tree is rejected outside the known findings: %s" % sorted(extra))
        ok = False
    for mi, (what, _m, _n, _o, _nw) in enumerate(mutants):
        got = sigs.get("m%d" % mi, {})
        new_sigs = {sg: c for sg, c in got.items() if c > base.get(sg, 0)}
        det = bool(new_sigs)
        print("selftest C06: mutant [%s] -> %s %s" % (what, "DETECTED" if det else "MISSED", sorted(new_sigs.items())[:4]))
        ok = ok and det
    # (ii) corrupted records are rejected by the trace spec
    good = run_case({"n": 3, "deps": [[], [1], [1, 2]], "kinds": ["t", "t", "t"]}, variant_for(ctx.rng, 3, "taskspec"))
    good["id"] = "g"
    variants = {"g": good}
    c1 = dict(good, id="swap", prio=[[1, good["prio"][2][1]], [2, good["prio"][1][1]], [3, good["prio"][0][1]]])
    c2 = dict(good, id="dup", prio=[[1, 0], [2, 1], [3, 1]])
    c3 = dict(good, id="missing", prio=good["prio"][:2])
    c4 = dict(good, id="extkey", prio=good["prio"] + [[4, 9]])
    c5 = dict(good, id="cyc-accepted", deps=[[3], [1], [1, 2]])
    bad = {r["id"]: cl for r, cl in judge(ctx, [good, c1, c2, c3, c4, c5])}
    exp = {"swap": "DepsFirst", "dup": "Distinct", "missing": "Domain", "extkey": "Domain", "cyc-accepted": "CycleNotRejected"}
    for rid, cl in exp.items():
        hit = cl in bad.get(rid, [])
        print("selftest C06: corrupted record [%s] -> %s %s" % (rid, "REJECTED" if hit else "ACCEPTED", bad.get(rid)))
        ok = ok and hit
    if "g" in bad:
        print("selftest C06: FAIL the uncorrupted record is rejected: %s" % bad["g"])
        ok = False
    print("selftest C06: %s" % ("all binding demonstrations hold" if ok else "FAILED"))
    return 0 if ok else 1
