"""C36 - row-wise and elementwise DataFrame operations equal pandas.

The reference semantics of the operations lives in TLA+ (specs/frame/FrameOps.tla over the typed tables
of specs/common/FrameAlgebra.tla / Frames.tla): column projection, boolean filters (col o const, col o col,
& | ~ ^, isin, predicates on the index), assign, arithmetic / comparison operators (Series, frame o scalar,
and Series / frames of two different collections ALIGNED ON THE INDEX: outer alignment with NA, duplicate
labels multiply), astype, fillna, where / mask, clip, map(dict), apply(f, meta), rename, head / tail, loc
slices.

spec -> code: TLC (FrameOpsMC.tla) enumerates (source table, operation) with the table the reference
demands, every way to cut each source into <= MaxParts consecutive partitions (empty partitions
included) and whether that layout admits known divisions; the driver builds real collections with
EXACTLY those partitions (from_delayed, known and unknown divisions) or with from_pandas, applies the
real operation, computes every partition through its own key and projects the result to the table
vocabulary.  TLC (FrameOpsTrace.tla) decides every such observation against the reference operator.
pandas is only the reference GUARD: before any verdict the TLA+ reference must agree with pandas on
the case (a disagreement is a MachineryError).
code -> spec: seeded pipelines of 2-5 operations on larger frames, every intermediate recorded; each step
is decided by TLC on the observed result of its prefix."""
from __future__ import annotations

import json

from ..core import MachineryError
from ..divisions import parts_collection
from ..frameobs import CallTimeout, partitions_of, time_limit
from ..frames import dd, is_shim_error, split_rows
from ..frametables import (BAD, DTYPE, LIMIT, NA, apply_op, fits, make_table, needs_layout, pandas_reference, same_table,
                           table_of, tables_concat, to_pandas)
from ..par import pmap

META = {
    "title": "Row-wise and elementwise DataFrame operations equal pandas",
    "design_ref": "DESIGN.md §4.4 C36",
    "technique": "TLA+ reference semantics (Pattern C) of the row-wise dataframe operations over typed tables; TLC enumerates "
                 "operations x sources x all partitionings and the expected tables; replay on real dask collections built with exactly "
                 "those partitions, every partition computed separately; TLC decides every observation and every step of recorded "
                 "seeded pipelines; pandas is the reference guard",
    "level_text": "Small-scope: ~115 single operations (projection, 15 filter predicates incl. & | ~ ^ isin and index predicates, assign, "
                  "Series arithmetic / comparison / fillna / clip / map / astype / where / mask / apply, the same frame-wide, rename, head, "
                  "tail, loc slices) on hand-picked and seeded source frames with <= 6 rows (cells over {0,1,2,NaN}, duplicate / unsorted "
                  "index labels, empty and all-NaN frames), crossed with EVERY way to cut the frame into <= 3 (thorough: 4) partitions incl. "
                  "empty ones, with unknown divisions, known divisions and from_pandas; index-aligned binary operations, filters, assign, "
                  "where/mask between two different collections for every pair of partitionings of both operands; two systematic families of "
                  "two-step programs enumerated completely in the spec: every projection-passthrough operation followed by EVERY list projection "
                  "in EVERY column order (order judged), and every value-changing operation (fillna, replace, clip, where, mask, astype, isna, "
                  "assign-overwrite) followed by a filter / Series filter / assign that READS the changed column with constants the changed "
                  "cells satisfy (a filter pushed below the operation loses exactly those rows).  TLC computes the "
                  "expected table of every case; a seeded sample of the cross product is replayed on dask (all (source, operation) pairs "
                  "covered), every partition computed through its own key, and TLC decides each observation: Series/DataFrame, column "
                  "names and order, dtype classes, index labels, cells and row order.  Seeded pipelines of 2-5 operations on frames of "
                  "4-12 rows are recorded step by step and decided by TLC.",
    "level_note": "Trusted: TLC, the TLA+ reference (cross-checked against pandas on every replayed case), from_delayed to build the "
                  "sources, the table projection (cells are small integers / NaN; bool/int/float dtype classes), pandas per-partition "
                  "kernels. Sampled on the dask side (~13 ms per operation). Not decided: string / datetime / categorical accessors, "
                  "true division and other float arithmetic, frame o Series broadcasting over columns, alignment of frames with "
                  "different column sets, alignment with unknown divisions beyond the multiset of rows.",
}

COLS = ["rid", "a", "b"]
CLAUSES = ["Raised", "Kind", "Cols", "Dtypes", "Whole", "NRows", "Index", "Values"]
JUDGED = ("fam", "inp", "inp2", "layout", "op", "order", "obs")
INVARIANTS = ["ExpOK", "ElementwiseKeepsIndex", "SelectionIsSubsequence", "HeadAll", "AlignedShape", "LayoutsOK", "ProjectionOrder",
              "FilterAfterSound"]


# ----------------------------------------------------------------------------- sources
def src_table(idx, a, b, rid=None, kinds=None):
    n = len(idx)
    rid = list(range(n)) if rid is None else rid
    if kinds is None:
        kinds = ["i", "f" if NA in a else "i", "f" if NA in b else "i"]
    return make_table(idx, [rid, a, b], kinds, COLS)


def sources(ctx):
    """-> (tables, NU, pairs): the first NU tables feed the one-table operations; pairs are 1-based index pairs."""
    N = NA
    rng = ctx.rng
    un = [
        src_table([0, 1, 1, 2], [0, N, 2, 1], [1, 1, 0, 2]),                          # sorted, duplicate label, NaN
        src_table([2, 0, 1], [1, 2, 0], [N, 0, 2]),                                   # unsorted
        src_table([0, 1, 2, 3, 4, 5], [0, 1, 2, N, 1, 0], [2, N, 0, 1, 1, N]),       # sorted unique, 6 rows
        src_table([0, 0, 1, 1, 2, 2], [N, N, N, N, N, N], [0, 1, 2, 0, 1, 2]),       # an all-NaN column
        src_table([1], [2], [N]),                                                     # one row
        src_table([1, 1, 1, 1, 1], [0, 1, 2, 1, 0], [2, 2, N, 0, 1], kinds=["i", "f", "f"]),   # one label; a float column without NaN
        src_table([1, 0, 1, 0, 2, 2], [2, N, 0, 1, 1, 2], [N, 0, 0, 2, 1, 1]),       # unsorted with duplicates
        src_table([], [], [], kinds=["i", "f", "i"]),                                 # no rows
    ]
    nseed = ctx.pick(3, 8)
    for _ in range(nseed):
        n = rng.randint(3, 6)
        idx = [rng.randint(0, 3) for _ in range(n)]
        if rng.random() < 0.6:
            idx.sort()
        cellf = lambda: rng.choice([0, 1, 2, N])      # noqa: E731
        un.append(src_table(idx, [cellf() for _ in range(n)], [cellf() for _ in range(n)]))
    nu = len(un)

    def right(idx, a, b):
        return src_table(idx, a, b, rid=[10 * (i + 1) for i in range(len(idx))])

    pairs_spec = [
        (src_table([0, 1, 2, 3], [0, 1, N, 2], [1, 1, 0, 2]), right([0, 1, 2, 3], [1, 0, 2, N], [0, 2, 2, 1])),          # identical unique index
        (src_table([0, 1, 2, 3], [0, 1, N, 2], [1, 1, 0, 2]), right([1, 2, 3, 4], [1, 0, 2, 1], [0, N, 2, 1])),          # overlapping
        (src_table([0, 0, 1], [1, 2, 0], [0, 1, 2]), right([0, 0, 2], [2, 2, 1], [1, 0, 1])),                            # duplicate labels, different indexes
        (src_table([0, 0, 1, 1], [1, N, 0, 2], [0, 1, 2, 2]), right([0, 0, 1, 1], [2, 1, 1, 0], [N, 0, 1, 2])),          # duplicate labels, identical indexes
        (src_table([0, 1, 1, 2], [1, 2, 0, 1], [0, 1, 2, 0]), right([1, 1, 2, 2, 3], [2, 2, 1, 0, 1], [1, 0, 1, 2, 0])),  # m x k duplicates
        (src_table([0, 1], [1, 2], [0, 1]), right([0, 2], [2, 1], [1, 0])),                                              # one partition each is possible
        (src_table([0, 1, 2], [1, 2, 0], [0, 1, 2]), right([3, 4, 5], [2, 1, 0], [1, 0, 2])),                            # disjoint
        (src_table([0, 2, 4], [1, N, 0], [0, 1, 2]), right([1, 2, 3, 5], [2, 1, 0, 1], [1, 0, N, 2])),                   # interleaved
    ]
    for _ in range(ctx.pick(1, 4)):
        def mk():
            n = rng.randint(2, 5)
            return sorted(rng.randint(0, 4) for _ in range(n))
        li, ri = mk(), mk()
        cellf = lambda: rng.choice([0, 1, 2, N])      # noqa: E731
        pairs_spec.append((src_table(li, [cellf() for _ in li], [cellf() for _ in li]),
                           right(ri, [cellf() for _ in ri], [cellf() for _ in ri])))
    tables, pairs = list(un), []
    for lt, rt in pairs_spec:
        tables += [lt, rt]
        pairs.append([len(tables) - 1, len(tables)])
    return tables, nu, pairs


# ----------------------------------------------------------------------------- real collections
def build(T, layout, mode, divs, key):
    """The dask collection holding table T cut as `layout` (mode unknown / known) or built by from_pandas."""
    ddm = dd()
    pdf = to_pandas(T)
    if mode == "from_pandas":
        srt = [r["idx"] for r in T["rows"]] == sorted(r["idx"] for r in T["rows"])
        return ddm.from_pandas(pdf, npartitions=max(1, len(layout)), sort=srt)
    divisions = tuple(divs) if mode == "known" else None
    return parts_collection(split_rows(pdf, layout), divisions, key=("C36", key, list(layout), mode))


def observe(coll, whole, ordered=True):
    """Every partition computed through its own key -> observation; optionally compute() of the whole (ordered=False:
    the whole is compared as a multiset - after a hash shuffle the order of the rows is not promised)."""
    parts = partitions_of(coll)
    obs = dict(tables_concat([table_of(p) for p in parts]), raised="", wholeok=True)
    if whole:
        w = table_of(coll.compute(scheduler="sync"))
        a, b = [(r["idx"], r["v"]) for r in w["rows"]], [(r["idx"], r["v"]) for r in obs["rows"]]
        obs["wholeok"] = (a == b if ordered else sorted(a) == sorted(b)) and w["cols"] == obs["cols"]
    return obs


def raised_obs(ex):
    return {"raised": type(ex).__name__, "ser": False, "cols": [], "kinds": [], "rows": [], "wholeok": True, "msg": str(ex)[:160]}


def guarded(fn, limit=60):
    try:
        with time_limit(limit):
            return fn()
    except NotImplementedError as ex:
        return {"skip": "NotImplementedError: " + str(ex)[:60]}
    except CallTimeout as ex:
        return raised_obs(ex)
    except Exception as ex:  # noqa: BLE001 - an exception from dask is an observation
        if is_shim_error(ex):
            return {"skip": "pyarrow shim"}
        return raised_obs(ex)


def run_item(item):
    """One replay case on real dask -> trace record (or {"skip": ..})."""
    fam, op = item["fam"], item["op"]
    if fam == "unary":
        def go():
            x = build(item["T"], item["layout"], item["mode"], item.get("divs"), ("u", item["src"]))
            return observe(apply_op(x, op, lazy=True), item.get("whole", False))
        obs = guarded(go)
        if "skip" in obs:
            return obs
        return {"fam": "unary", "inp": item["T"], "inp2": 0, "layout": list(item["layout"]) if needs_layout(op) else [],
                "op": op, "order": "seq", "obs": obs}

    def go2():
        x = build(item["T"], item["layout"], item["mode"], item.get("divs"), ("l", item["src"]))
        y = build(item["T2"], item["layout2"], item["mode"], item.get("divs2"), ("r", item["src2"]))
        return observe(apply_op(x, op, lazy=True, G=y), item.get("whole", False), ordered=item["mode"] != "unknown")
    obs = guarded(go2)
    if "skip" in obs:
        return obs
    return {"fam": "aligned", "inp": item["T"], "inp2": item["T2"], "layout": [], "op": op,
            "order": "bag" if item["mode"] == "unknown" else "seq", "obs": obs}


def guard(item, exp):
    """Reference guard: the TLA+ reference and pandas must agree on the case before dask is judged.
    -> None (agree), "skip" (the reference raises / outside the domain) or an error text."""
    ref = pandas_reference(item["T"], item["layout"], item["op"], item.get("T2"))
    if exp["err"]:
        # err = pandas raises (astype of NaN to int) or the case is outside the domain (aligned filter / assign / where
        # on different indexes, where pandas raises or reindexes): nothing is demanded of dask
        return "skip"
    if "raised" in ref:
        return "pandas raised %s, the TLA+ reference gives %r" % (ref["raised"], exp)
    if not same_table(ref, exp):
        return "pandas gives %r, the TLA+ reference %r" % (ref, exp)
    return None


def _work(item):
    g = guard(item, item["exp"])
    if g == "skip":
        return {"skip": "the reference raises / case outside the domain"}
    if g:
        return {"guard": g}
    return run_item(item)


# ----------------------------------------------------------------------------- classification
def expr_feats(x, out):
    if not isinstance(x, dict):
        return
    if x.get("e") == "idx":            # the bare index (an array), not index.to_series()
        out.add("index-expr")
    for k in ("l", "r", "x", "p"):
        if k in x:
            expr_feats(x[k], out)


def expr_head(x):
    e = x["e"]
    if e == "bin":
        f = x["f"]
        return "arith" if f in ("add", "sub", "mul") else "cmp" if f in ("lt", "le", "gt", "ge", "eq", "ne") else "logic"
    return e


def has_expr(op, kind):
    """The operation contains a sub-expression of the given kind."""
    def walk(x):
        return isinstance(x, dict) and (x.get("e") == kind or any(walk(x[k]) for k in ("l", "r", "x", "p") if k in x))
    return any(walk(op[f]) for f in ("x", "p") if f in op)


def steps_of(item):
    """The program an item stands for, as a list of single operations."""
    def flat(o):
        return flat(o["first"]) + flat(o["second"]) if o["op"] == "seq" else [o]
    if "prog" in item:
        return [s for o in item["prog"]["steps"][:item["upto"]] for s in flat(o)]
    return flat(item["op"])


def reassigned_column(steps):
    """The last step assigns a column that an EARLIER assign step created, with the creation of another new column
    in between (assign(c=..) ... assign(d=..) ... assign(c=..)): the optimizer squashes the assignments."""
    last = steps[-1]
    if last["op"] != "assign":
        return False
    created = [s["name"] for s in steps[:-1] if s["op"] == "assign"]
    return last["name"] in created and any(n != last["name"] for n in created[created.index(last["name"]) + 1:])


def op_tag(op):
    """Operation kind plus the class of the expression at its top: the call site inside dask."""
    k = op["op"]
    if k == "seq":
        return "%s->%s" % (op_tag(op["first"]), op_tag(op["second"]))
    head = expr_head(op["x"]) if "x" in op else expr_head(op["p"]) if "p" in op else ""
    return k + ("(%s)" % head if head else "")


def uses_column(op):
    """The operation selects a single column of its input (a Projection with a scalar column)."""
    def walk(x):
        return isinstance(x, dict) and (x.get("e") == "col" or any(walk(x[k]) for k in ("l", "r", "x", "p") if k in x))
    return any(walk(op[f]) for f in ("x", "p") if f in op)


def dup_labels(idx):
    return {x for x in idx if idx.count(x) > 1}


def classify(item, clauses):
    """Input class / call site of a violation: the operation (and the expression class at its top), the structural
    features of the input that select a code path in dask, and the group of the failing clause - never the numbers."""
    op = item["op"]
    k = op["op"]
    cs = set(clauses)
    group = ("raised" if "Raised" in cs else "structure" if cs & {"Kind", "Cols"} else "rows" if cs & {"NRows", "Index", "Values"}
             else "dtype" if "Dtypes" in cs else "whole")
    feats = set()
    for f in ("x", "p"):
        if f in op:
            expr_feats(op[f], feats)
    if item["fam"] == "unary":
        steps = steps_of(item)
        # comparisons on a dask Index yield a dask Array; everything downstream of that array is one input class
        if any(has_expr(o, "idx") for o in steps):
            return "unary:raw-index-array"            # one input class, whatever clause fails (raise, row order, names, dtypes)
        # a row filter followed by a step that reads index.to_series() of the filtered frame, on duplicate labels
        src_idx = [r["idx"] for r in (item["prog"]["T"] if "prog" in item else item["T"])["rows"]]
        if dup_labels(src_idx) and any(o["op"] in ("filter", "sfilter") and any(has_expr(later, "idxs") for later in steps[i + 1:])
                                       for i, o in enumerate(steps[:-1])):
            # one input class with two faces (the mis-aligned predicate raises, or it silently selects / pairs other cells)
            return "pipeline:filter-then-index-series:duplicate-labels:%s" % ("raised" if group == "raised" else "rows")
        if group == "structure" and reassigned_column(steps):
            return "pipeline:assign-reassigned-column:structure"
        extra = []
        if k == "loc":
            extra.append("full-slice" if op["a"] == NA and op["b"] == NA else
                         "reversed" if (op["a"] != NA and op["b"] != NA and op["a"] > op["b"]) else "ordered")
        if "prog" in item and item["upto"] > 1 and extra[:1] not in (["full-slice"], ["reversed"]):
            steps = item["prog"]["steps"][:item["upto"]]
            # a frame-wide where / mask followed by the selection of ONE of its columns is the program `fmapcol`
            for i, st in enumerate(steps[:-1]):
                if st["op"] == "fmap" and st["x"]["e"] in ("where", "mask") and group == "raised" and \
                        any(uses_column(later) for later in steps[i + 1:]):
                    return "unary:fmapcol(%s):raised" % st["x"]["e"]
            # a pipeline step is optimized together with its prefix: the call site is the pair (previous step, step)
            return "pipeline:%s->%s:%s" % (op_tag(steps[-2]), op_tag(op), group)
        if k in ("head", "tail") and 0 in item["layout"]:
            extra.append("empty-partition")
        return ":".join(["unary", op_tag(op)] + extra + [group])
    li = [r["idx"] for r in item["T"]["rows"]]
    ri = [r["idx"] for r in item["T2"]["rows"]]
    cls = "binop" if k in ("abin", "afbin") else k[1:]
    if item["mode"] == "unknown":
        # binary operators assume partition-wise alignment; filter / assign / where align through a hash shuffle.  With
        # duplicate labels no label-based alignment can reproduce pandas (identical indexes are combined positionally)
        if dup_labels(li) or dup_labels(ri):
            return "aligned:unknown-divisions:duplicate-labels"      # one input class, whatever clause fails
        return "aligned:%s:unknown-divisions:%s" % (cls, group)
    if len(item["layout"]) == 1 and len(item["layout2"]) == 1 and group == "raised" and li != ri:
        return "aligned:%s:single-partitions:different-divisions:raised" % cls
    extra = ["same-index" if li == ri else "different-index"]
    if li != ri and dup_labels(li) & dup_labels(ri) and cls == "binop" and group != "raised":
        # one input class whatever clause shows it (row count, cells, dtype of the shorter result, whole vs partitions)
        return "aligned:binop:different-index:shared-duplicate-label:rows"
    return ":".join(["aligned", cls] + extra + [group])


# ----------------------------------------------------------------------------- TLC verdicts
class Pool:
    """Collects trace records; identical judged content shares one TLC verdict."""

    def __init__(self):
        self.uniq, self.members = {}, {}

    def add(self, rec, item, tag=""):
        body = {k: (({kk: vv for kk, vv in rec[k].items() if kk != "msg"}) if k == "obs" else rec[k]) for k in JUDGED}
        if tag:
            body["tag"] = tag          # selftest: records of different mutants are never pooled
        key = json.dumps(body, sort_keys=True)
        uid = self.uniq.setdefault(key, "u%d" % len(self.uniq))
        self.members.setdefault(uid, []).append((rec, item))

    def decide(self, ctx, label, batch=20000):
        """-> [(rec, item, clauses)] for every rejected member."""
        if not self.uniq:
            return []
        spec, cfg = ctx.model(ctx.spec("frame", "FrameOpsTrace.tla"), {})
        ulist = [dict(json.loads(key), id=uid) for key, uid in self.uniq.items()]
        bad = []
        for lo in range(0, len(ulist), batch):
            rej = ctx.tlc_validate(spec, ulist[lo:lo + batch], cfg, label=label, timeout=2400)
            for uid, texts in rej.items():
                clauses = [c for c in CLAUSES if '"%s"' % c in " ".join(texts)]
                for rec, item in self.members[uid]:
                    bad.append((rec, item, clauses))
        ctx.traces += sum(len(m) for m in self.members.values()) - len(ulist)
        return bad


# ----------------------------------------------------------------------------- spec -> code cases
def enumerate_cases(ctx, tables, nu, pairs, maxparts, label="design+cases"):
    spec, cfg = ctx.model(ctx.spec("frame", "FrameOpsMC.tla"),
                          {"Fams": {"ops", "lops", "layouts", "aligned"}, "Sources": tables, "NU": nu, "Pairs": pairs, "MaxParts": maxparts},
                          invariants=INVARIANTS)
    cases, _ = ctx.tlc_cases(spec, cfg, label=label, timeout=1500)
    out = {"ops": [], "lops": [], "layouts": {}, "aligned": []}
    for c in cases:
        cc, e = c["c"], c["e"]
        if cc["fam"] == "layouts":
            out["layouts"].setdefault(cc["src"], []).append((cc["layout"], e["known"], e["divs"]))
        else:
            out[cc["fam"]].append((cc, e))
    for k in out["layouts"]:
        out["layouts"][k].sort()
    for f in ("ops", "lops", "aligned"):
        out[f].sort(key=lambda ce: json.dumps(ce[0], sort_keys=True))
    return out


def has_index_expr(op):
    f = set()
    for k in ("x", "p"):
        if k in op:
            expr_feats(op[k], f)
    return bool(f)


def make_items(ctx, tables, enum, per_pair, n_lops, per_apair, fam_quota=None):
    """The replay sample: every (source, operation) pair with `per_pair` seeded (layout, mode) choices."""
    rng = ctx.rng
    items = []
    fam_quota = fam_quota or {"proj-after": (3, 1), "filter-after": (4, 2)}      # family -> (number of sources, layouts per program)

    def pick_layout(k, want_known=None):
        lays = enum["layouts"][k]
        if want_known:
            lays = [l for l in lays if l[1]] or lays
        return rng.choice(lays)

    # the two systematic families (tag) only bite on frames with missing values: they run on those sources, every program on each
    na_srcs = [k for k in range(1, len(tables) + 1) if len(tables[k - 1]["rows"]) >= 3 and any(NA in r["v"] for r in tables[k - 1]["rows"])]
    fam_srcs = {"proj-after": set(na_srcs[:fam_quota["proj-after"][0]]), "filter-after": set(na_srcs[:fam_quota["filter-after"][0]])}
    for cc, e in enum["ops"]:
        k = cc["src"]
        T = tables[k - 1]
        tag = cc["op"].get("tag")
        if tag:
            if k not in fam_srcs[tag]:
                continue
            reps = fam_quota[tag][1]
        else:
            reps = per_pair * (3 if cc["op"]["op"] == "loc" else 1)      # label slices take different paths for known / unknown divisions
        for j in range(reps):
            mode = ["unknown", "known", "from_pandas", "known"][j % 4] if j < 8 else rng.choice(["unknown", "known", "from_pandas"])
            lay, known, divs = pick_layout(k, mode == "known")
            if mode == "known" and not known:
                mode = "unknown"
            it = {"fam": "unary", "src": k, "T": T, "layout": lay, "mode": mode, "divs": divs, "op": cc["op"], "exp": e,
                  "whole": rng.random() < 0.25}
            items.append(it)
    lops = enum["lops"]
    for cc, e in (lops if len(lops) <= n_lops else rng.sample(lops, n_lops)):
        k = cc["src"]
        known = next((kn, dv) for lay, kn, dv in enum["layouts"][k] if lay == cc["layout"])
        mode = "known" if known[0] and rng.random() < 0.5 else "unknown"
        items.append({"fam": "unary", "src": k, "T": tables[k - 1], "layout": cc["layout"], "mode": mode, "divs": known[1],
                      "op": cc["op"], "exp": e, "whole": rng.random() < 0.25})
    for cc, e in enum["aligned"]:
        kl, kr = cc["l"], cc["r"]
        for j in range(per_apair):
            mode = "unknown" if j % 5 == 4 else "from_pandas" if j % 5 == 2 else "known"
            ll, lr = pick_layout(kl, mode == "known"), pick_layout(kr, mode == "known")
            if mode == "unknown" and rng.random() < 0.5:
                lr = rng.choice([l for l in enum["layouts"][kr] if len(l[0]) == len(ll[0])] or [lr])
            if mode == "known" and not (ll[1] and lr[1]):
                continue
            items.append({"fam": "aligned", "src": kl, "src2": kr, "T": tables[kl - 1], "T2": tables[kr - 1], "layout": ll[0], "divs": ll[2],
                          "layout2": lr[0], "divs2": lr[2], "mode": mode, "op": cc["op"], "exp": e, "whole": rng.random() < 0.25})
    return items


def pushdown_would_differ(items):
    """Non-vacuity of the family "filter-after": the number of replayed cases in which evaluating the filter BEFORE the
    value-changing step (what a wrong push-down computes) gives another pandas result than the program itself."""
    n, seen = 0, {}
    for it in items:
        op = it["op"]
        if op.get("tag") != "filter-after" or op["op"] != "seq" or op["second"]["op"] != "filter":
            continue
        key = json.dumps([it["src"], op], sort_keys=True)
        if key not in seen:
            swapped = {"op": "seq", "first": op["second"], "second": op["first"]}
            a, b = pandas_reference(it["T"], [], op), pandas_reference(it["T"], [], swapped)
            seen[key] = "raised" in b or "raised" in a or not same_table(a, b)
        n += seen[key]
    return n


def item_key(item):
    return [item["fam"], item["src"], item.get("src2"), item["layout"], item.get("layout2"), item["mode"], item["op"]]


def replay_obj(item, rec, clauses):
    return {"item": {k: v for k, v in item.items() if k != "exp"}, "expected": item.get("exp"), "clauses": clauses,
            "observed": rec["obs"] if rec else None}


def check_items(ctx, items, label, pool=None, decide=True):
    """Run the items on dask, let TLC decide.  -> (bad [(rec, item, clauses)], records, skips, guard failures)."""
    pool = pool or Pool()
    recs, skips, guards = [], [], []
    for item, r in zip(items, pmap(_work, items, chunk=16)):
        if "skip" in r:
            skips.append(r["skip"])
        elif "guard" in r:
            guards.append((item, r["guard"]))
        else:
            recs.append((r, item))
            pool.add(r, item)
    return (pool.decide(ctx, label) if (decide and not guards) else []), recs, skips, guards


# ----------------------------------------------------------------------------- code -> spec: seeded pipelines
def gen_num(rng, num, depth=0):
    """A numeric Series expression over the numeric columns `num`."""
    c = lambda: {"e": "col", "c": rng.choice(num)}        # noqa: E731
    r = rng.random()
    if depth >= 2 or r < 0.3:
        return c()
    sub = lambda: gen_num(rng, num, depth + 1)           # noqa: E731
    k = rng.choice(["bin", "binc", "binc", "neg", "abs", "fillna", "clip", "map", "where", "mask", "affine", "astypef"])
    if k == "bin":
        return {"e": "bin", "f": rng.choice(["add", "sub", "mul"]), "l": sub(), "r": sub()}
    if k == "binc":
        x, v = sub(), {"e": "const", "v": rng.randint(0, 3)}
        f = rng.choice(["add", "sub", "mul"])
        return {"e": "bin", "f": f, "l": x, "r": v} if rng.random() < 0.7 else {"e": "bin", "f": f, "l": v, "r": x}
    if k in ("neg", "abs"):
        return {"e": k, "x": sub()}
    if k == "fillna":
        return {"e": "fillna", "x": sub(), "v": rng.randint(0, 5)}
    if k == "clip":
        lo = rng.choice([NA, 0, 1])
        hi = rng.choice([NA, 1, 2, 4])
        if lo != NA and hi != NA and lo > hi:
            lo, hi = hi, lo
        return {"e": "clip", "x": sub(), "lo": lo, "hi": hi}
    if k == "map":
        keys = rng.sample(range(0, 6), rng.randint(1, 5))
        return {"e": "map", "x": c(), "pairs": [[kk, rng.randint(0, 6)] for kk in sorted(keys)]}
    if k in ("where", "mask"):
        return {"e": k, "x": sub(), "p": gen_bool(rng, num, [], depth + 1), "o": rng.choice([NA, NA, 0, 5])}
    if k == "affine":
        return {"e": "affine", "x": c(), "m": rng.randint(1, 3), "q": rng.randint(-1, 2)}
    return {"e": "astype", "x": sub(), "to": "f"}


def gen_bool(rng, num, boolcols, depth=0):
    r = rng.random()
    if boolcols and r < 0.15:
        return {"e": "col", "c": rng.choice(boolcols)}
    if depth >= 2 or r < 0.5:
        k = rng.choice(["cmpc", "cmpc", "cmp", "isin", "isna", "notna", "idx"])
        x = gen_num(rng, num, 2 if depth else 1)
        if k == "cmpc":
            return {"e": "bin", "f": rng.choice(["lt", "le", "gt", "ge", "eq", "ne"]), "l": x, "r": {"e": "const", "v": rng.randint(0, 3)}}
        if k == "cmp":
            return {"e": "bin", "f": rng.choice(["lt", "le", "gt", "ge", "eq", "ne"]), "l": x, "r": gen_num(rng, num, 2)}
        if k == "isin":
            return {"e": "isin", "x": x, "vals": sorted(rng.sample(range(0, 5), rng.randint(1, 3)))}
        if k == "idx":
            return {"e": "bin", "f": rng.choice(["lt", "le", "gt", "ge", "ne"]), "l": {"e": rng.choice(["idx", "idxs", "idxs"])}, "r": {"e": "const", "v": rng.randint(0, 4)}}
        return {"e": k, "x": x}
    if r < 0.62:
        return {"e": "not", "x": gen_bool(rng, num, boolcols, depth + 1)}
    return {"e": "bin", "f": rng.choice(["and", "or", "xor"]), "l": gen_bool(rng, num, boolcols, depth + 1), "r": gen_bool(rng, num, boolcols, depth + 1)}


def gen_step(rng, T, last, sorted_idx):
    """One operation applicable to table T (a frame)."""
    cols, kinds = T["cols"], T["kinds"]
    num = [c for c, k in zip(cols, kinds) if k in "if"]
    boo = [c for c, k in zip(cols, kinds) if k == "b"]
    choices = ["filter", "filter", "assign", "assign", "fmap", "project", "rename", "head"] + (["loc"] if sorted_idx else [])
    if last:
        choices += ["series", "series", "sfilter"]
    if not num:
        choices = ["project", "rename", "head"]
    k = rng.choice(choices)
    if k == "filter":
        return {"op": "filter", "p": gen_bool(rng, num, boo)}
    if k == "assign":
        name = rng.choice(cols + ["c", "d", "c"])
        x = gen_num(rng, num) if rng.random() < 0.7 else gen_bool(rng, num, boo) if rng.random() < 0.7 else {"e": "const", "v": rng.randint(0, 4)}
        return {"op": "assign", "name": name, "x": x}
    if k == "fmap":
        sel = rng.sample(num, rng.randint(1, len(num)))
        s = {"e": "self"}
        kv = {"e": "const", "v": rng.randint(0, 3)}
        x = rng.choice([
            {"e": "bin", "f": rng.choice(["add", "sub", "mul"]), "l": s, "r": kv},
            {"e": "bin", "f": rng.choice(["sub", "add"]), "l": kv, "r": s},
            {"e": "bin", "f": rng.choice(["lt", "le", "gt", "ge", "eq", "ne"]), "l": s, "r": kv},
            {"e": "fillna", "x": s, "v": rng.randint(0, 4)},
            {"e": "clip", "x": s, "lo": rng.choice([NA, 0, 1]), "hi": rng.choice([NA, 1, 3])},
            {"e": "where", "x": s, "p": {"e": "bin", "f": rng.choice(["gt", "le", "ne"]), "l": s, "r": kv}, "o": rng.choice([NA, 0, 7])},
            {"e": "mask", "x": s, "p": {"e": "bin", "f": rng.choice(["gt", "eq"]), "l": s, "r": kv}, "o": rng.choice([NA, 4])},
            {"e": "astype", "x": s, "to": "f"}, {"e": "isna", "x": s}, {"e": "neg", "x": s}, {"e": "abs", "x": s},
            {"e": "isin", "x": s, "vals": sorted(rng.sample(range(0, 4), 2))},
        ])
        return {"op": "fmap", "cols": sel, "x": x}
    if k == "project":
        sel = rng.sample(cols, rng.randint(1, len(cols)))
        return {"op": "project", "cols": sel}
    if k == "rename":
        c = rng.choice(cols)
        new = rng.choice([n for n in ["x", "y", "z", "a", "b"] if n not in cols] or ["q"])
        return {"op": "rename", "ren": [[c, new]]}
    if k == "head":
        return {"op": "head", "n": rng.randint(0, len(T["rows"]) + 1), "np": -1}
    if k == "loc":
        lab = sorted({r["idx"] for r in T["rows"]}) or [0]
        a = rng.choice([NA] + list(range(lab[0] - 1, lab[-1] + 2)))
        b = rng.choice([NA] + list(range(lab[0] - 1, lab[-1] + 2)))
        return {"op": "loc", "a": a, "b": b}
    if k == "series":
        return {"op": "series", "x": gen_num(rng, num) if rng.random() < 0.6 else gen_bool(rng, num, boo)}
    return {"op": "sfilter", "x": gen_num(rng, num), "p": gen_bool(rng, num, boo)}


def gen_program(rng, pid):
    """A seeded source (4-12 rows, up to 5 partitions) and 2-5 operations valid on the pandas reference."""
    n = rng.randint(4, 12)
    idx = [rng.randint(0, 5) for _ in range(n)]
    srt = rng.random() < 0.65
    if srt:
        idx.sort()
    cf = lambda: rng.choice([0, 1, 2, 3, NA])        # noqa: E731
    a, b = [cf() for _ in range(n)], [cf() for _ in range(n)]
    if rng.random() < 0.3:
        b = [v if v != NA else 1 for v in b]
    T = src_table(idx, a, b)
    from .C44 import weak_comp
    layout = weak_comp(rng, n, rng.randint(1, 5))
    mode = rng.choice(["unknown", "known", "from_pandas"])
    divs = None
    if mode == "known":
        pos, firsts, ok = 0, [], srt and all(layout)
        for m in layout:
            firsts.append(idx[pos] if m else None)
            pos += m
        if ok:
            cut, pos = True, 0
            for m in layout[:-1]:
                pos += m
                cut = cut and idx[pos - 1] < idx[pos]
            ok = cut
        if ok:
            divs = firsts + [idx[-1]]
        else:
            mode = "unknown"
    steps, cur, shapes = [], T, []
    want = rng.randint(2, 5)
    tries = 0
    while len(steps) < want and tries < 30:
        tries += 1
        op = gen_step(rng, cur, last=(len(steps) == want - 1), sorted_idx=srt)
        ref = pandas_reference(cur, [], op)
        if "raised" in ref or not fits(ref):
            continue
        steps.append(op)
        shapes.append([ref["ser"], ref["cols"]])
        cur = ref
        if ref["ser"]:
            break
    return {"pid": pid, "T": T, "layout": layout, "mode": mode, "divs": divs, "steps": steps, "shapes": shapes}


def run_program(prog):
    """-> list of (record, item) for the steps that could be observed."""
    out = []

    def go():
        x = build(prog["T"], prog["layout"], prog["mode"], prog["divs"], ("p", prog["pid"]))
        inp = prog["T"]
        for i, op in enumerate(prog["steps"]):
            item = {"fam": "unary", "src": "prog", "T": inp, "layout": [], "mode": prog["mode"], "op": op,
                    "prog": {k: prog[k] for k in ("pid", "T", "layout", "mode", "divs", "steps", "shapes")}, "upto": i + 1}
            try:
                with time_limit(60):
                    x = apply_op(x, op, lazy=True)
                    obs = observe(x, whole=False)
            except NotImplementedError:
                return
            except Exception as ex:  # noqa: BLE001
                if is_shim_error(ex):
                    return
                obs = raised_obs(ex)
            out.append(({"fam": "unary", "inp": inp, "inp2": 0, "layout": [], "op": op, "order": "seq", "obs": obs}, item))
            if obs["raised"] or obs["ser"] or [obs["ser"], obs["cols"]] != prog["shapes"][i]:
                return        # the later steps were generated for the reference's columns: this step is judged, the rest dropped
            nxt = {"ser": False, "err": False, "cols": obs["cols"], "kinds": obs["kinds"], "rows": obs["rows"]}
            if not fits(nxt, 98) or any(v == BAD for r in nxt["rows"] for v in r["v"]):
                return
            inp = nxt
    go()
    return out


# ----------------------------------------------------------------------------- run
def report(ctx, bad):
    for rec, item, clauses in bad:
        obs = rec["obs"]
        what = "%s %s: clauses %s fail (mode %s%s)" % (item["fam"], json.dumps(item["op"], sort_keys=True)[:160], clauses, item["mode"],
                                                       ", raised %s: %s" % (obs["raised"], obs.get("msg", "")) if obs["raised"] else "")
        ctx.violation(classify(item, clauses), what, replay_obj(item, rec, clauses))


def quiet():
    import warnings
    warnings.simplefilter("ignore")       # meta-inference and pandas reindexing warnings of the code under test


def run(ctx):
    dd()
    quiet()
    import dask
    dask.config.set({"temporary-directory": ctx.scratch})
    tables, nu, pairs = sources(ctx)
    enum = enumerate_cases(ctx, tables, nu, pairs, ctx.pick(3, 4))
    nlay = sum(len(v) for v in enum["layouts"].values())
    ctx.extra["cases_enumerated_by_tlc"] = {"operations_on_sources": len(enum["ops"]), "layout_dependent": len(enum["lops"]),
                                            "layouts": nlay, "aligned": len(enum["aligned"])}
    items = make_items(ctx, tables, enum, per_pair=ctx.pick(2, 16), n_lops=ctx.pick(250, 6000), per_apair=ctx.pick(5, 80),
                       fam_quota=ctx.pick({"proj-after": (3, 1), "filter-after": (4, 2)}, {"proj-after": (12, 3), "filter-after": (12, 8)}))
    ctx.extra["family_cases"] = {t: sum(1 for it in items if it["op"].get("tag") == t) for t in ("proj-after", "filter-after")}
    ctx.extra["filter_after_cases_where_a_pushed_down_filter_would_differ"] = pushdown_would_differ(items)
    pool = Pool()
    _, recs, skips, guards = check_items(ctx, items, "", pool, decide=False)
    if guards:
        raise MachineryError("the TLA+ reference disagrees with pandas on %d cases, e.g. %s: %s"
                             % (len(guards), json.dumps(guards[0][0]["op"]), guards[0][1][:600]))
    progs = [gen_program(ctx.rng, i) for i in range(ctx.pick(180, 3000))]
    nsteps = 0
    for prog_recs in pmap(run_program, progs, chunk=8):
        for rec, item in prog_recs:
            pool.add(rec, item)
            nsteps += 1
            ctx.count(("prog", item["prog"]["pid"], item["upto"]), bool(rec["obs"]["rows"]))
    bad = pool.decide(ctx, "observations:spec->code replay + code->spec pipeline steps")
    for s in skips:
        ctx.skip(s)
    for rec, item in recs:
        ctx.count(item_key(item), bool(rec["obs"]["rows"]) and not rec["obs"]["raised"])
    report(ctx, bad)
    for rec, item in recs[:1] + [ri for ri in recs if ri[1]["fam"] == "aligned"][:1]:
        ctx.sample({"op": item["op"], "layout": item["layout"], "mode": item["mode"], "observed_rows": rec["obs"]["rows"][:4]})
    if progs:
        ctx.sample({"pipeline": progs[0]["steps"], "layout": progs[0]["layout"], "mode": progs[0]["mode"]})
    ctx.exhaustive = False
    ctx.extra["replayed_cases"] = len(items)
    ctx.extra["pipeline_programs"] = len(progs)
    ctx.extra["pipeline_steps_recorded"] = nsteps
    ctx.rule = ("cases = TLC-enumerated (source, operation) x (layout, divisions mode) - a seeded sample covering every (source, operation) "
                "pair - plus every recorded step of the seeded pipelines; non-trivial = the observed result has at least one row; "
                "distinct by (source, layout(s), mode, operation) / (program, step)")
    ctx.assumptions = ["TLC evaluates the reference semantics correctly", "from_delayed builds exactly the given partitions",
                       "pandas per-partition kernels are correct", "cells stay small integers (checked on every table)"]


# ----------------------------------------------------------------------------- replay
def replay(ctx, obj):
    dd()
    import dask
    dask.config.set({"temporary-directory": ctx.scratch})
    quiet()
    c = obj["case"]
    item = c["item"]
    pool = Pool()
    if "prog" in item:
        recs = run_program(item["prog"])[:item["upto"]]
        for rec, it in recs[-1:]:
            pool.add(rec, it)
            print("step:", json.dumps(it["op"]), "\ninput:", rec["inp"], "\nobserved:", rec["obs"])
    else:
        item = dict(item, exp=c.get("expected"))
        rec = run_item(item)
        print("item:", json.dumps({k: v for k, v in item.items() if k not in ("exp",)})[:1500], "\nexpected:", c.get("expected"), "\nobserved:", rec.get("obs", rec))
        if "skip" not in rec:
            pool.add(rec, item)
    bad = pool.decide(ctx, "replay")
    print("rejected clauses:", [cl for _, _, cl in bad])
    return bool(bad)


# ----------------------------------------------------------------------------- selftest
_MUTANTS = {}


def _work_tagged(pair):
    """selftest worker: run one item on the unmutated code or under the in-memory mutant named by its tag."""
    from ..divisions import patched_attr
    tag, item = pair
    if tag in _MUTANTS:
        targets, attr, mut = _MUTANTS[tag]
        with patched_attr(targets, attr, mut):
            return _work(item)
    return _work(item)


def selftest(ctx):
    """Binding demonstration with ONE case enumeration and ONE TLC validation run: a small case set is executed on the
    unmutated code and under each in-memory mutant of the anchored dask functions; all records (tagged) plus
    corrupted copies of a genuine record go to TLC together."""
    from ..divisions import mutate, patched_attr as patched
    dd()
    quiet()
    import dask
    dask.config.set({"temporary-directory": ctx.scratch})       # disk-based shuffles must not litter /tmp
    import dask.dataframe.dask_expr._expr as ex
    from dask.utils import M
    tables, nu, pairs = sources(ctx)
    keep = [0, 2, 6]                                     # three unary sources ...
    sel_pairs = pairs[:3]                                # ... and three operand pairs
    small = [tables[i] for i in keep]
    newpairs = []
    for l, r in sel_pairs:
        small += [tables[l - 1], tables[r - 1]]
        newpairs.append([len(small) - 1, len(small)])
    enum = enumerate_cases(ctx, small, len(keep), newpairs, 3, label="selftest:design+cases")
    items = make_items(ctx, small, enum, per_pair=1, n_lops=60, per_apair=4)
    pool = Pool()
    counts = {}

    def opk(*kinds):
        return lambda it: it["op"]["op"] in kinds

    def mentions(test):
        """items whose operation contains a sub-expression satisfying `test`"""
        def walk(x):
            return isinstance(x, dict) and (test(x) or any(walk(x[k]) for k in ("l", "r", "x", "p") if k in x))
        return lambda it: it["op"]["op"] == "amask" and test({"e": "mask"}) or any(walk(it["op"][f]) for f in ("x", "p") if f in it["op"])

    head_prop = vars(ex.Head)["_partitions"]
    mutants = [
        ("Expr.__rsub__: operands swapped (scalar - frame computed as frame - scalar)", [ex.Expr], "__rsub__",
         mutate(vars(ex.Expr)["__rsub__"], "Sub(other, self)", "Sub(self, other)"),
         mentions(lambda x: x.get("e") == "bin" and x.get("f") == "sub" and x["l"].get("e") == "const")),
        ("Head._partitions: one partition too few for head(n, npartitions=k)", [ex.Head], "_partitions",
         property(mutate(head_prop.fget, 'partitions[: self.operand("npartitions")]', 'partitions[: self.operand("npartitions") - 1]')), opk("head")),
        ("Mask.operation: mask evaluated as where (wrong kernel)", [ex.Mask], "operation", M.where, mentions(lambda x: x.get("e") == "mask")),
        ("assign(): assignment to an EXISTING column silently dropped", [ex.Assign], "operation",
         staticmethod(mutate(ex.assign, "df[name] = val", "df[name] = val if name not in df.columns else df[name]")), opk("assign", "aassign")),
        ("calc_divisions_for_align: divisions of the first operand only (the other operand's range ignored)", [ex], "calc_divisions_for_align",
         mutate(ex.calc_divisions_for_align, "divisions = list(unique(merge_sorted(*[df.divisions for df in dfs])))",
                "divisions = list(dfs[0].divisions)"), lambda it: it["fam"] == "aligned" and it["mode"] != "unknown"),
    ]
    tagged = [("baseline", it) for it in items]
    for name, targets, attr, mut, select in mutants:
        _MUTANTS[name] = (targets, attr, mut)
        tagged += [(name, it) for it in items if select(it)]
    try:
        results = pmap(_work_tagged, tagged, chunk=32)
    finally:
        _MUTANTS.clear()
    for (tag, item), r in zip(tagged, results):
        if "guard" in r:
            raise MachineryError("reference guard failed in selftest: %s" % r["guard"][:300])
        if "skip" not in r:
            pool.add(r, item, tag)
            counts[tag] = counts.get(tag, 0) + 1
    # corrupted records: a genuine observation with one field damaged must be rejected
    base = next(it for it in items if it["fam"] == "unary" and it["op"]["op"] == "filter" and len(it["exp"]["rows"]) >= 2 and not it["exp"]["err"])
    good = run_item(base)
    o = good["obs"]
    rows = o["rows"]
    variants = {
        "genuine": good,
        "two rows swapped": dict(good, obs=dict(o, rows=[rows[1], rows[0]] + rows[2:])),
        "last row dropped (event lost)": dict(good, obs=dict(o, rows=rows[:-1])),
        "one cell changed": dict(good, obs=dict(o, rows=[dict(rows[0], v=[rows[0]["v"][0] + 1] + rows[0]["v"][1:])] + rows[1:])),
        "an index label changed": dict(good, obs=dict(o, rows=[dict(rows[0], idx=rows[0]["idx"] + 1)] + rows[1:])),
        "column order changed": dict(good, obs=dict(o, cols=o["cols"][::-1])),
        "dtype class changed": dict(good, obs=dict(o, kinds=["f"] + o["kinds"][1:])),
        "Series reported for a DataFrame": dict(good, obs=dict(o, ser=True)),
    }
    for name, rec in variants.items():
        pool.add(rec, base, "record:" + name)
    bytag = {}
    for rec, item, clauses in pool.decide(ctx, "selftest"):
        tag = next(k for k, members in pool.members.items() if any(m[0] is rec for m in members))
        tag = json.loads(next(key for key, uid in pool.uniq.items() if uid == tag)).get("tag", "")
        if tag.startswith("record:"):
            bytag.setdefault(tag, {})[str(clauses)] = 1
            continue
        sig = classify(item, clauses)
        if sig not in ctx.known:
            d = bytag.setdefault(tag, {})
            d[sig] = d.get(sig, 0) + 1
    ok = True
    basev = bytag.get("baseline", {})
    print("selftest C36 baseline (unmutated code, %d cases): violations outside known findings %s -> %s"
          % (counts["baseline"], basev, "ok" if not basev else "UNEXPECTED"))
    ok &= not basev
    for name, *_ in mutants:
        got = bytag.get(name, {})
        print("selftest C36 mutant [%s] (%d cases): %s -> %s" % (name, counts.get(name, 0), dict(list(got.items())[:3]), "DETECTED" if got else "MISSED"))
        ok &= bool(got)
    acc = "record:genuine" not in bytag
    print("selftest C36 trace: genuine record accepted -> %s" % ("ok" if acc else "UNEXPECTED %s" % bytag.get("record:genuine")))
    ok &= acc
    for name in list(variants)[1:]:
        got = bytag.get("record:" + name)
        print("selftest C36 corrupted record [%s]: %s" % (name, "REJECTED %s" % list(got) if got else "ACCEPTED (missed)"))
        ok &= bool(got)
    print("selftest C36: %s" % ("all binding demonstrations hold" if ok else "FAILED"))
    return 0 if ok else 1
