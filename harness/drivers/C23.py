"""C23 - chunk normalization and rechunking are exact.

Pattern B (contract) for normalize_chunks / old_to_new / plan_rechunk: TLC enumerates the input
grid (specs/array/RechunkMC.tla), the real functions are called on every case (under several
spellings of the same specification) and TLC decides every recorded call against the contract
of specs/array/Rechunk.tla (RechunkTrace.tla).  Pattern C for rechunk: TLC enumerates every
(source, target) pair of chunkings of small shapes with the demanded result; dask is replayed
block by block under settings that force multi-stage plans, and the plan / old_to_new calls made
inside each rechunk are recorded and decided by TLC as well.  Larger random rechunk calls with
automatic / partial targets are recorded and decided by TLC."""
from __future__ import annotations

import contextlib
import warnings

import numpy as np

from ..arrays import cells, id_array, observe, py_chunks, raised
from ..core import TLA, MachineryError
from ..par import pmap

META = {
    "title": "Chunk normalization and rechunking are exact",
    "design_ref": "DESIGN.md §4.3 C23",
    "technique": "TLA+ contract of normalize_chunks / old_to_new / plan_rechunk and identity reference for rechunk; TLC "
                 "enumerates the spec grid and all (source, target) chunking pairs of small shapes; replay into dask + TLC "
                 "validation of every recorded call",
    "level_text": "Small-scope exhaustive: TLC enumerates shapes (<= 3 axes, extents 0,1,5,7,12) x per-axis chunk specs (ints, "
                  "-1/None, explicit tuples incl. ones that do not add up, 'auto'/byte strings) x byte limits x itemsizes x "
                  "previous_chunks - plus, as a dimension of its own, every previous chunking of 1-3 all-'auto' axes built from a small, a "
                  "tolerance-band, an oversize and a zero-width piece in every order - and every (source, target) pair of chunkings of 1-d extents <= 6 and of small 2-d/3-d shapes "
                  "(incl. zero-width blocks); the real normalize_chunks, old_to_new, plan_rechunk and rechunk (thresholds/limits "
                  "forcing multi-stage plans) are run on each case and TLC decides every recorded call against the contract; "
                  "rechunk results are compared block by block with the identity reference.",
    "level_note": "Trusted: TLC, the contract in Rechunk.tla (its satisfiability and the tiling reference are model-checked), the "
                  "block-assembly projection. The byte-limit clause allows the documented array.chunk-size-tolerance when "
                  "previous_chunks are given (and is checked strictly under tolerance 1). method='p2p' needs distributed and is "
                  "not reachable; balance=True is outside the property. Bounded shapes.",
}

DT = {1: "u1", 4: "i4", 8: "f8"}
DEFAULT_LIMIT = 134217728        # array.chunk-size = 128MiB


def _rmod():
    """The module dask.array.rechunk (the attribute of that name on dask.array is the function)."""
    import importlib
    return importlib.import_module("dask.array.rechunk")


# --------------------------------------------------------------------------- recorders
_REC = None       # list collecting plan / old_to_new calls while a rechunk runs
_INSTALLED = False


def _install_recorders():
    """Wrap plan_rechunk and old_to_new (observation only: the originals are called unchanged)."""
    global _INSTALLED
    if _INSTALLED:
        return
    R = _rmod()
    orig_plan, orig_o2n = R.plan_rechunk, R.old_to_new

    def plan_rechunk(old_chunks, new_chunks, itemsize, threshold=None, block_size_limit=None):
        steps = R._c23_plan(old_chunks, new_chunks, itemsize, threshold, block_size_limit)
        if _REC is not None:
            _REC.append({"fam": "plan", "old": _jc(old_chunks), "new": _jc(new_chunks), "steps": [_jc(s) for s in steps],
                         "raised": ""})
        return steps

    def old_to_new(old_chunks, new_chunks):
        res = R._c23_o2n(old_chunks, new_chunks)
        if _REC is not None:
            _REC.append({"fam": "o2n", "old": _jc(old_chunks), "new": _jc(new_chunks), "pieces": _jp(res), "raised": ""})
        return res

    R._c23_plan, R._c23_o2n = orig_plan, orig_o2n
    plan_rechunk.__wrapped__ = orig_plan
    old_to_new.__wrapped__ = orig_o2n
    R.plan_rechunk, R.old_to_new = plan_rechunk, old_to_new
    _INSTALLED = True


def _ji(x):
    """chunk size -> JSON int; anything that is not an integral number >= 0 becomes -1 (rejected by the contract)."""
    try:
        if isinstance(x, (bool, str)) or x != x:
            return -1
        i = int(x)
        return i if i == x else -1
    except Exception:  # noqa: BLE001
        return -1


def _jc(chunks):
    try:
        return [[_ji(c) for c in ax] for ax in chunks]
    except TypeError:
        return [[-1]]


def _jp(res):
    out = []
    for axis in res:
        out.append([[[int(i), _ji(sl.start), _ji(sl.stop)] for (i, sl) in new_block] for new_block in axis])
    return out


@contextlib.contextmanager
def recording():
    global _REC
    _install_recorders()
    _REC = []
    try:
        yield _REC
    finally:
        _REC = None


# --------------------------------------------------------------------------- normalize_chunks
def _comp_py(c, full=-1, auto="auto", npint=False):
    k = c["k"]
    if k == "int":
        return np.int64(c["v"]) if npint else c["v"]
    if k == "full":
        return full
    if k == "auto":
        return auto
    return tuple(c["t"])


def norm_variants(case, rng, n):
    """Spellings of one normalize_chunks case (chosen in the parent, from ctx.rng)."""
    spec, shape = case["spec"], case["shape"]
    nd = len(shape)
    has_auto = any(c["k"] == "auto" for c in spec)
    out = []
    for i in range(n):
        forms = ["tuple", "tuple", "list", "dict"]
        if nd >= 1 and all(c == spec[0] for c in spec) and spec[0]["k"] in ("int", "full", "auto"):
            forms += ["scalar", "scalar"]
        if nd == 1 and spec[0]["k"] == "tuple" and len(spec[0]["t"]) > 1:
            forms += ["bare", "bare"]
        v = {"form": rng.choice(forms) if i else forms[0], "full": rng.choice([-1, None]), "omit": rng.random() < 0.5,
             "auto": rng.choice(["auto", "auto", "bytes"]), "lim": rng.choice(["kw", "kw", "cfg", "str"]),
             "dt": rng.choice(["str", "dtype", "type"]), "prev": rng.choice(["tuple", "int"]),
             "npint": rng.random() < 0.15, "tol1": bool(case["prev"]) and has_auto and rng.random() < 0.5}
        if v["form"] == "scalar" and v["full"] is None:
            v["full"] = -1                      # chunks=None is documented to raise
        if v["auto"] == "bytes" and v["lim"] == "str":
            v["lim"] = "kw"
        out.append(v)
    return out


def norm_call(case, v):
    """(args, kwargs, config) of the real call for a case under spelling v."""
    spec, shape = case["spec"], tuple(case["shape"])
    has_auto = any(c["k"] == "auto" for c in spec)
    limit, isz = case["limit"], case["itemsize"]
    autotxt = "%dB" % limit if v["auto"] == "bytes" else "auto"
    comps = [_comp_py(c, v["full"], autotxt, v["npint"]) for c in spec]
    form = v["form"]
    if form == "scalar":
        chunks = comps[0]
    elif form == "bare":
        chunks = comps[0]
    elif form == "list":
        chunks = [list(c) if isinstance(c, tuple) else c for c in comps]
    elif form == "dict":
        chunks = {d: c for d, c in enumerate(comps) if not (spec[d]["k"] == "full" and v["omit"])}
    else:
        chunks = tuple(comps)
    kw, cfg = {}, {}
    if has_auto:
        if v["lim"] == "kw" or v["auto"] == "bytes":
            if not (v["auto"] == "bytes" and v["omit"]):
                kw["limit"] = limit
        elif v["lim"] == "str":
            kw["limit"] = "%dB" % limit
        else:
            cfg["array.chunk-size"] = limit
        dt = DT[isz]
        kw["dtype"] = {"str": dt, "dtype": np.dtype(dt), "type": np.dtype(dt).type}[v["dt"]]
        if case["prev"]:
            prev = []
            for ax in case["prev"]:
                ax = tuple(ax)
                if v["prev"] == "int" and len(set(ax[:-1])) <= 1 and ax[-1] <= ax[0]:
                    prev.append(ax[0])
                else:
                    prev.append(ax)
            kw["previous_chunks"] = tuple(prev)
        if v["tol1"]:
            cfg["array.chunk-size-tolerance"] = 1.0
    return chunks, shape, kw, cfg


def norm_record(item):
    """Call the real normalize_chunks; return the record TLC decides."""
    rid, case, v = item
    import dask
    from dask.array.core import normalize_chunks
    chunks, shape, kw, cfg = norm_call(case, v)
    has_auto = any(c["k"] == "auto" for c in case["spec"])
    tol = [5, 4] if (case["prev"] and has_auto and not v["tol1"]) else [1, 1]
    try:
        with dask.config.set(cfg), warnings.catch_warnings():
            warnings.simplefilter("ignore")
            res = normalize_chunks(chunks, shape, **kw)
        obs = {"raised": "", "chunks": _jc(res), "msg": ""}
        if not isinstance(res, tuple) or not all(isinstance(c, tuple) for c in res):
            obs["chunks"] = [[-1]]
    except NotImplementedError as ex:
        return {"skip": "NotImplementedError: " + str(ex)[:60]}
    except Exception as ex:  # noqa: BLE001
        obs = {"raised": type(ex).__name__, "chunks": [], "msg": str(ex)[:120]}
    return {"id": rid, "fam": "norm", "shape": case["shape"], "spec": case["spec"], "limit": case["limit"],
            "itemsize": case["itemsize"], "prev": case["prev"], "tol": tol, "variant": {k: str(x) for k, x in v.items()},
            "obs": obs}


def _feats(shape, spec):
    f = []
    if any(c["k"] == "auto" for c in spec):
        f.append("auto")
    if any(s == 0 for s in shape):
        f.append("empty-dim")
    return "+".join(f) or "explicit"


def _zero_chunk(chunk_lists):
    """a zero-width block on an axis that is not empty"""
    return any(0 in ax and sum(ax) > 0 for ax in chunk_lists)


def classify(rec, clause):
    """Input class of a rejected record: family, clause, and the structural class of the input - never the
    concrete numbers.  Raises whose input class is one of the recorded root causes are named by that class alone
    (one root cause surfaces under several exception types and feature combinations)."""
    fam = rec["fam"]
    if fam in ("norm", "rechunk"):
        spec = rec["spec"]
        feats = _feats(rec["shape"], spec).split("+")
        exc = rec["obs"]["raised"]
        if fam == "rechunk":
            tgt = [c["t"] for c in spec if c["k"] == "tuple"]
            if _zero_chunk(tgt) and len(rec["shape"]) > 1:
                feats.append("zero-chunk-target")
            elif _zero_chunk(rec["chunks"]):
                feats.append("zero-chunk-source")
    else:
        feats = ["zero-chunk-target"] if _zero_chunk(rec["new"]) else (["zero-chunk-source"] if _zero_chunk(rec["old"]) else ["basic"])
        if any(sum(ax) == 0 for ax in rec["old"]):
            feats.append("empty-dim")
        exc = rec.get("raised", "")
    if clause == "UnexpectedRaise":
        if exc == "ZeroDivisionError" and {"auto", "empty-dim"} <= set(feats):
            return "%s:UnexpectedRaise:auto+empty-dim" % fam
        if exc in ("AssertionError", "IndexError") and "zero-chunk-target" in feats:
            return "%s:UnexpectedRaise:zero-chunk-target" % fam
        return "%s:UnexpectedRaise:%s:%s" % (fam, exc, "+".join(feats))
    if clause in ("Limit", "Chunks"):
        prev = rec.get("prev") if fam == "norm" else rec.get("chunks")
        if prev and _zero_chunk(prev) and "auto" in feats:
            # automatic chunking guided by previous chunks that contain a zero-width block
            return "%s:Limit:auto+zero-chunk-previous" % fam
        if prev:
            feats.append("prev")
    return "%s:%s:%s" % (fam, clause, "+".join(feats))


def _clause(texts):
    t = texts[0]
    for name in ("UnexpectedRaise", "ErrorExpected", "Rank", "Sum", "Explicit", "AutoAxis", "Limit", "Tiles", "Plan", "Shape",
                 "Content", "Chunks", "Meta"):
        if '"%s"' % name in t:
            return name
    return "Rejected"


# --------------------------------------------------------------------------- rechunk
SETTINGS = [
    {"threshold": None, "bsl": None, "method": None, "cfgm": False},
    {"threshold": 1, "bsl": 16, "method": "tasks", "cfgm": False},
    {"threshold": 2, "bsl": 8, "method": None, "cfgm": False},
    {"threshold": 1, "bsl": 64, "method": None, "cfgm": True},
]


def explicit_spec(target):
    return [{"k": "tuple", "t": list(ax)} for ax in target]


def rechunk_call(x, spec, spell, st):
    """Spell the target spec for Array.rechunk (None = keep, -1 = full) and call it."""
    import dask
    comps = []
    for d, c in enumerate(spec):
        if c.get("keep"):
            comps.append(None)
        else:
            comps.append(_comp_py(c, -1, "auto"))
    nd = len(comps)
    if spell == "scalar" and nd and all(c == comps[0] for c in comps) and not isinstance(comps[0], tuple) and comps[0] is not None:
        chunks = comps[0]
    elif spell == "dict":
        chunks = {d: c for d, c in enumerate(comps) if c is not None}
    elif spell == "dictneg":
        chunks = {d - nd: c for d, c in enumerate(comps)}
    elif spell == "list":
        chunks = [list(c) if isinstance(c, tuple) else c for c in comps]
    else:
        chunks = tuple(comps)
    kw = {}
    if st["threshold"] is not None:
        kw["threshold"] = st["threshold"]
    if st["bsl"] is not None:
        kw["block_size_limit"] = st["bsl"]
    if st["method"] is not None:
        kw["method"] = st["method"]
    cfg = {}
    if st.get("cfgm"):
        cfg["array.rechunk.method"] = "tasks"
    if st.get("tol1"):
        cfg["array.chunk-size-tolerance"] = 1.0
    with dask.config.set(cfg), warnings.catch_warnings():
        warnings.simplefilter("ignore")
        return x.rechunk(chunks, **kw)


def run_rechunk(case, st, spell="tuple", whole=False):
    """Apply one rechunk to the real array.  Returns (obs, cells, inner call records)."""
    import dask.array as da
    shape = tuple(case["shape"])
    spec = case.get("spec") or explicit_spec(case["target"])
    inner = []
    try:
        x = da.from_array(id_array(shape), chunks=py_chunks(case["chunks"]))
        with recording() as rec:
            try:
                y = rechunk_call(x, spec, spell, st)
            finally:
                inner = list(rec)
        obs, full = observe(y, whole_too=whole)
        return obs, (cells(full) if full is not None else None), inner
    except NotImplementedError as ex:
        return {"skip": "NotImplementedError: " + str(ex)[:60]}, None, inner
    except Exception as ex:  # noqa: BLE001
        o = raised(ex)
        o["msg"] = str(ex)[:160]
        return o, None, inner


def judge_rechunk(case, exp, obs, got):
    if obs["raised"]:
        return "UnexpectedRaise"
    if obs["cshape"] != list(case["shape"]):
        return "Shape"
    if got != list(exp["cells"]):
        return "Content"
    if obs["chunks"] != [list(c) for c in exp["chunks"]]:
        return "Chunks"
    for a, ch in enumerate(obs["chunks"]):
        if sum(ch) != obs["cshape"][a] or obs["lshape"][a] != obs["cshape"][a]:
            return "Meta"
    if not obs["blocksok"]:
        return "Meta"
    return None


def direct_records(case, plan_settings):
    """old_to_new and plan_rechunk called directly on an enumerated (source, target) pair."""
    _install_recorders()
    R = _rmod()
    old, new = py_chunks(case["chunks"]), py_chunks(case["target"])
    recs = []
    try:
        recs.append({"fam": "o2n", "old": _jc(old), "new": _jc(new), "pieces": _jp(R._c23_o2n(old, new)), "raised": ""})
    except Exception as ex:  # noqa: BLE001
        recs.append({"fam": "o2n", "old": _jc(old), "new": _jc(new), "pieces": [], "raised": type(ex).__name__})
    for (th, bsl) in plan_settings:
        try:
            steps = R._c23_plan(old, new, 8, th, bsl)
            recs.append({"fam": "plan", "old": _jc(old), "new": _jc(new), "steps": [_jc(s) for s in steps], "raised": "",
                         "settings": [th or 0, bsl or 0]})
        except Exception as ex:  # noqa: BLE001
            recs.append({"fam": "plan", "old": _jc(old), "new": _jc(new), "steps": [], "raised": type(ex).__name__,
                         "settings": [th or 0, bsl or 0]})
    return recs


PLAN_SETTINGS = [(1, 16), (1, 64), (2, 32), (None, None)]


def _rechunk_work(item):
    case, exp, settings, spell, nplan = item
    ref = cells(id_array(case["shape"]))
    if ref != list(exp["cells"]):
        return {"guard": ref}
    res, inner_all = [], []
    for st in settings:
        obs, got, inner = run_rechunk(case, st, spell)
        if "skip" in obs:
            res.append(("SKIP", st, obs["skip"]))
            continue
        cl = judge_rechunk(case, exp, obs, got)
        multistage = any(r["fam"] == "plan" and len(r["steps"]) > 1 for r in inner)
        res.append((cl, st, {"obs": obs, "got": got} if cl else None, multistage))
        inner_all.extend(inner)
    nd = len(case["shape"])
    direct = direct_records(case, (PLAN_SETTINGS[:nplan] if nd > 1 else PLAN_SETTINGS[:1]))
    return {"res": res, "records": inner_all + direct}


def random_chunking(rng, n, zero_p=0.15):
    ch, left = [], n
    while left > 0:
        c = rng.randint(1, left)
        ch.append(c)
        left -= c
    if n == 0:
        return [0]
    if rng.random() < zero_p:
        ch.insert(rng.randint(0, len(ch)), 0)
    return ch


def random_rechunks(rng, n):
    """code -> spec: larger random arrays, random source chunking, random (partly automatic) target specs."""
    out = []
    for i in range(n):
        nd = rng.choice([1, 2, 2, 3, 3])
        shape = [rng.choice([1, 2, 3, 4, 5, 6, 7, 9]) for _ in range(nd)]
        if nd == 3:
            shape = [min(s, 6) for s in shape]
        if rng.random() < 0.05:
            shape[rng.randrange(nd)] = 0
        chunks = [random_chunking(rng, s) for s in shape]
        spec = []
        for d, s in enumerate(shape):
            r = rng.random()
            if r < 0.45:
                spec.append({"k": "tuple", "t": random_chunking(rng, s, 0.1)})
            elif r < 0.6:
                spec.append({"k": "int", "v": rng.randint(1, s + 1)})
            elif r < 0.7:
                spec.append({"k": "full"})
            elif r < 0.85:
                spec.append({"k": "auto"})
            else:
                spec.append({"k": "tuple", "t": list(chunks[d]), "keep": True})
        has_auto = any(c["k"] == "auto" for c in spec)
        bsl = rng.choice([8, 16, 32, 64, 128, 256, None]) if has_auto else rng.choice([8, 16, 64, None])
        st = {"threshold": rng.choice([None, 1, 2, 4]), "bsl": bsl, "method": rng.choice([None, "tasks"]),
              "cfgm": rng.random() < 0.2, "tol1": has_auto and rng.random() < 0.4}
        kinds = {c["k"] for c in spec}
        spell = rng.choice(["tuple", "tuple", "list", "dict", "dictneg", "scalar"])
        if spell == "dictneg" and any(c.get("keep") for c in spec):
            spell = "dict"
        out.append(("q%d" % i, {"shape": shape, "chunks": chunks, "spec": spec}, st, spell))
        del kinds
    return out


def rechunk_record(item):
    rid, case, st, spell = item
    obs, got, inner = run_rechunk(case, st, spell, whole=True)
    if "skip" in obs:
        return {"skip": obs["skip"]}
    obs = dict(obs)
    obs["cells"] = got if got is not None else []
    spec = [{k: v for k, v in c.items() if k != "keep"} for c in case["spec"]]
    has_auto = any(c["k"] == "auto" for c in spec)
    rec = {"id": rid, "fam": "rechunk", "shape": case["shape"], "chunks": case["chunks"], "spec": spec,
           "limit": (st["bsl"] or DEFAULT_LIMIT) if has_auto else 1, "itemsize": 8,
           "tol": [1, 1] if (st.get("tol1") or not has_auto) else [5, 4],
           "settings": {k: (v if v is not None else 0) for k, v in st.items()}, "spell": spell, "obs": obs,
           "multistage": any(r["fam"] == "plan" and len(r["steps"]) > 1 for r in inner), "case": case}
    return {"rec": rec, "inner": inner}


# --------------------------------------------------------------------------- the check
_SLIM_DROP = ("variant", "settings", "spell", "case", "multistage", "prev")


def _slim(recs):
    slim = [{k: v for k, v in r.items() if k not in _SLIM_DROP} for r in recs]
    for r in slim:
        if "obs" in r:
            r["obs"] = {k: v for k, v in r["obs"].items() if k not in ("msg", "kind")}
    return slim


def validate(ctx, recs, label, report=True):
    """Let TLC decide the records; report every rejected one.  Returns {id: clause}."""
    spec, cfg = ctx.model(ctx.spec("array", "RechunkTrace.tla"), {})
    out = {}
    for lo in range(0, len(recs), 30000):
        part = recs[lo:lo + 30000]
        rej = ctx.tlc_validate(spec, _slim(part), cfg, timeout=1800, label="trace-validation:" + label)
        byid = {r["id"]: r for r in part}
        for rid, clauses in sorted(rej.items()):
            r = byid[rid]
            cl = _clause(clauses)
            out[rid] = cl
            if report:
                ctx.violation(classify(r, cl), "TLC rejects a recorded %s call (%s)" % (r["fam"], clauses[0]),
                              {"record": r, "clauses": clauses})
    return out


def norm_records(ctx, cases, nvar, prefix="n"):
    items = []
    for i, c in enumerate(cases):
        for j, v in enumerate(norm_variants(c["c"], ctx.rng, nvar)):
            items.append(("%s%d_%d" % (prefix, i, j), c["c"], v))
    recs = []
    # (normalize_chunks takes ~0.1 ms: a fork pool costs more than it saves, especially on a loaded machine)
    for r in (pmap(norm_record, items, chunk=512) if len(items) > 40000 else map(norm_record, items)):
        if "skip" in r:
            ctx.skip(r["skip"])
            continue
        recs.append(r)
        nontrivial = r["obs"]["raised"] == "" and any(c["k"] != "tuple" for c in r["spec"]) and sum(r["shape"]) > 0
        ctx.count(("norm", r["shape"], r["spec"], r["limit"], r["itemsize"], r["prev"], r["variant"]), nontrivial)
    return recs


PREV_DEFAULTS = {"PrevPieces": {0}, "PrevLen": 1, "PrevAxisMenu": TLA("{}"), "PrevLimits": TLA("<<{1}, {1}, {1}>>")}


def _consts(c):
    return dict(PREV_DEFAULTS, **c)


def norm_phase(ctx, consts, nvar, cap, label="norm"):
    spec, cfg = ctx.model(ctx.spec("array", "RechunkMC.tla"), _consts(consts),
                          invariants=["WitnessOK", "ContractRejects", "UniformStrict"])
    cases, _ = ctx.tlc_cases(spec, cfg, label="design+cases:" + label, timeout=1800)
    total = len(cases)
    sampled = False
    if len(cases) > cap:
        sampled = True
        cases = ctx.rng.sample(cases, cap)
    # sanity of the exported expectation (explicit axes are listed, automatic ones left open)
    for c in cases[:2000]:
        e = c["e"]
        if not e["err"]:
            for d, ax in enumerate(e["explicit"]):
                if (c["c"]["spec"][d]["k"] == "auto") != (len(ax) == 0):
                    raise MachineryError("exported expectation malformed for %r" % (c,))
    recs = norm_records(ctx, cases, nvar)
    if cases:
        ctx.sample({"case": cases[0]["c"], "expected": cases[0]["e"]})
    return recs, total, sampled


def rechunk_items(ctx, cases, nsettings):
    items = []
    for c in cases:
        nd = len(c["c"]["shape"])
        if nd <= 1:
            sts = [SETTINGS[0], ctx.rng.choice(SETTINGS[1:])][:nsettings]
        else:
            sts = [SETTINGS[1]] + ctx.rng.sample([SETTINGS[0], SETTINGS[2], SETTINGS[3]], max(0, nsettings - 1))
        items.append((c["c"], c["e"], sts, ctx.rng.choice(["tuple", "tuple", "list", "dict", "dictneg"]), ctx.pick(2, 4)))
    return items


def rechunk_replay(ctx, items):
    """Replay enumerated (source, target) pairs; judge against the exported expectation; return the inner/direct
    plan and old_to_new records (decided by TLC later) and the number of multi-stage plans seen."""
    recs, multi = [], 0
    for (case, exp, _s, spell, _n), r in zip(items, pmap(_rechunk_work, items)):
        if "guard" in r:
            raise MachineryError("TLA+ identity reference disagrees with NumPy on %r" % (case,))
        for entry in r["res"]:
            if entry[0] == "SKIP":
                ctx.skip(entry[2])
                continue
            cl, st, detail, ms = entry
            multi += bool(ms)
            ctx.count(("rechunk", case, st, spell), len(exp["cells"]) > 0 and case["chunks"] != case["target"])
            if cl:
                rec = {"fam": "rechunk", "shape": case["shape"], "chunks": case["chunks"], "spec": explicit_spec(case["target"]),
                       "obs": detail["obs"]}
                ctx.violation(classify(rec, cl), "%s: rechunk disagrees with the reference" % cl,
                              {"case": case, "expected": exp, "settings": st, "spell": spell, "observed": detail})
        for j, rr in enumerate(r["records"]):
            rr["id"] = "d%d_%d" % (len(recs), j)
            recs.append(rr)
    for r in recs:
        ctx.count((r["fam"], r["old"], r["new"], r.get("settings")), r["old"] != r["new"] and sum(map(sum, r["old"])) > 0)
    return recs, multi


def rechunk_phase(ctx, consts, caps, nsettings, label="rechunk"):
    spec, cfg = ctx.model(ctx.spec("array", "RechunkMC.tla"), _consts(consts),
                          invariants=["RefTiles", "BlocksFromPieces", "TargetCovers", "TrivialPlanOK"])
    cases, _ = ctx.tlc_cases(spec, cfg, label="design+cases:" + label, timeout=1800)
    total = len(cases)
    groups = {"1d": [], "nd": [], "zero": []}
    for c in cases:
        cc = c["c"]
        if len(cc["shape"]) == 1:
            groups["1d"].append(c)
        elif _zero_chunk(cc["chunks"]) or _zero_chunk(cc["target"]) or 0 in cc["shape"]:
            groups["zero"].append(c)
        else:
            groups["nd"].append(c)
    sampled = False
    chosen = []
    for g in ("1d", "nd", "zero"):
        cs = groups[g]
        if len(cs) > caps[g]:
            sampled = True
            cs = ctx.rng.sample(cs, caps[g])
        chosen += cs
    items = rechunk_items(ctx, chosen, nsettings)
    recs, multi = rechunk_replay(ctx, items)
    if items:
        ctx.sample({"case": items[0][0], "expected": {"chunks": items[0][1]["chunks"], "cells": "identity"}})
    return recs, total, sampled, multi


PREV_MENU = "{<<5, 2, 2, 2>>, <<2, 2, 5, 0>>, <<12, 0>>, <<2, 2, 2, 2>>, <<0, 5, 5>>, <<12, 2, 2>>, <<5>>, <<2, 0, 2, 12>>}"


def prev_consts(ctx, small=False):
    """previous_chunks universe: pieces 2 (small), 5 (inside the tolerance band 1.25**(1/n) .. 1.25 of twice it), 12
    (oversize, and in the band of 10), 0; every order, length <= PrevLen."""
    return _consts({"Fam": "prev", "N": -1, "Z": 0, "Shapes": TLA("{}"), "ZShapes": TLA("{}"), "Limits": {1}, "Limits3": {1},
                    "Itemsizes": {1} if (small or ctx.quick) else {1, 8},
                    "PrevPieces": {0, 2, 5, 12}, "PrevLen": 3 if small else 4, "PrevAxisMenu": TLA(PREV_MENU),
                    "PrevLimits": TLA("<<{4, 16}, {16, 100}, {64}>>" if small else
                                      ctx.pick("<<{4, 16, 64}, {16, 100}, {64}>>",
                                               "<<{2, 4, 8, 10, 16, 64}, {4, 16, 25, 64, 100}, {8, 64, 125, 512}>>"))})


def prev_phase(ctx, consts, cap, nrechunk, label="prev"):
    """Automatic chunking guided by previous_chunks: normalize_chunks on every enumerated case, and x.rechunk('auto')
    on real arrays chunked like the previous chunking for a sample of the small ones."""
    spec, cfg = ctx.model(ctx.spec("array", "RechunkMC.tla"), consts, invariants=["WitnessOK", "ContractRejects"])
    cases, _ = ctx.tlc_cases(spec, cfg, label="design+cases:" + label, timeout=1800)
    total = len(cases)
    sampled = len(cases) > cap
    if sampled:
        cases = ctx.rng.sample(cases, cap)
    recs = norm_records(ctx, cases, 1, prefix="pn")
    small = [c["c"] for c in cases if int(np.prod(c["c"]["shape"])) <= 300 and c["c"]["limit"] % c["c"]["itemsize"] == 0]
    items = []
    for i, c in enumerate(ctx.rng.sample(small, min(len(small), nrechunk))):
        st = {"threshold": ctx.rng.choice([None, 1]), "bsl": (c["limit"] // c["itemsize"]) * 8, "method": None, "cfgm": False,
              "tol1": ctx.rng.random() < 0.3}
        items.append(("p%d" % i, {"shape": c["shape"], "chunks": c["prev"], "spec": [{"k": "auto"} for _ in c["shape"]]}, st,
                      ctx.rng.choice(["scalar", "dict", "tuple"])))
    for r in pmap(rechunk_record, items):
        if "skip" in r:
            ctx.skip(r["skip"])
            continue
        rec = r["rec"]
        recs.append(rec)
        ctx.count(("prec", rec["shape"], rec["chunks"], rec["settings"], rec["spell"]),
                  rec["obs"]["raised"] == "" and len(rec["obs"]["cells"]) > 0)
    if cases:
        ctx.sample({"case": cases[0]["c"], "expected": cases[0]["e"]})
    return recs, total, sampled


def random_phase(ctx, n):
    items = random_rechunks(ctx.rng, n)
    recs, inner_recs, multi = [], [], 0
    for r in pmap(rechunk_record, items):
        if "skip" in r:
            ctx.skip(r["skip"])
            continue
        rec = r["rec"]
        recs.append(rec)
        multi += bool(rec["multistage"])
        ctx.count(("rrec", rec["shape"], rec["chunks"], rec["spec"], rec["settings"], rec["spell"]),
                  rec["obs"]["raised"] == "" and len(rec["obs"]["cells"]) > 0)
        for j, rr in enumerate(r["inner"]):
            rr["id"] = "%s_i%d" % (rec["id"], j)
            inner_recs.append(rr)
    if recs:
        ctx.sample({"recorded_call": {k: recs[0][k] for k in ("shape", "chunks", "spec", "settings", "spell")}})
    return recs + inner_recs, multi


def run(ctx):
    ext = ctx.pick([0, 5, 12], [0, 1, 5, 7, 12])
    shapes = [[a] for a in [0, 1, 5, 7, 12]] + [[a, b] for a in ext for b in ext]
    shapes += ctx.pick([[0, 5, 12]],
                       [[5, 1, 7], [0, 5, 12], [7, 7, 7], [12, 5, 1], [1, 0, 5], [12, 12, 12], [5, 7, 0], [1, 1, 1]])
    nrecs, t1, s1 = norm_phase(ctx, {"Fam": "norm", "N": -1, "Z": 0, "Shapes": TLA(_tla_shapes(shapes)), "ZShapes": TLA("{}"),
                                     "Limits": set(ctx.pick([4, 64], [1, 2, 4, 8, 16, 64])),
                                     "Limits3": set(ctx.pick([2, 16], [1, 4, 16, 64])),
                                     "Itemsizes": set(ctx.pick([1, 8], [1, 4, 8]))},
                               ctx.pick(1, 2), ctx.pick(4000, 60000))
    nd_shapes = ctx.pick("{<<2, 3>>, <<4, 3>>}", "{<<2, 3>>, <<4, 3>>, <<4, 4>>, <<5, 4>>, <<2, 3, 2>>, <<3, 3, 3>>}")
    rrecs, t2, s2, m2 = rechunk_phase(ctx, {"Fam": "rechunk", "N": ctx.pick(5, 7), "Z": ctx.pick(2, 3), "Shapes": TLA(nd_shapes),
                                            "ZShapes": TLA(ctx.pick("{<<2, 1>>, <<1, 2>>, <<0, 3>>}",
                                                                    "{<<2, 2>>, <<1, 3>>, <<0, 3>>, <<3, 2>>, <<2, 0>>}")),
                                            "Limits": {1}, "Limits3": {1}, "Itemsizes": {1}},
                                      {"1d": 10 ** 9, "nd": ctx.pick(600, 9000), "zero": ctx.pick(400, 4000)}, ctx.pick(2, 3))
    precs, t3, s3 = prev_phase(ctx, prev_consts(ctx), ctx.pick(10 ** 9, 60000), ctx.pick(600, 5000))
    qrecs, m3 = random_phase(ctx, ctx.pick(600, 10000))
    validate(ctx, nrecs + precs + rrecs + qrecs, "all-recorded-calls")
    md = sum(1 for r in rrecs if r["fam"] == "plan" and len(r["steps"]) > 1)
    if m2 + md == 0 or m3 == 0:
        raise MachineryError("vacuous: no multi-stage rechunk plan was exercised (%d, %d, %d)" % (m2, md, m3))
    ctx.exhaustive = not (s1 or s2 or s3)
    ctx.extra["cases_enumerated_by_tlc"] = t1 + t2 + t3
    ctx.extra["multi_stage_plans"] = {"replayed_rechunks": m2, "direct_plan_calls": md, "random_rechunks": m3}
    ctx.rule = ("cases = TLC-enumerated normalize_chunks grid points x spellings, TLC-enumerated (source, target) chunking pairs x "
                "rechunk settings, direct old_to_new / plan_rechunk calls, recorded random rechunks; non-trivial = no expected "
                "error, a non-empty array, a spec with at least one non-tuple axis (norm) / source != target (rechunk)")
    ctx.assumptions = ["NumPy per-block kernels (getitem, concatenate) are correct", "TLC evaluates the contract correctly",
                       "array.chunk-size-tolerance is an allowed overshoot when previous_chunks are given",
                       "bounds as listed in tlc_runs constants"]


def _tla_shapes(shapes):
    return "{" + ", ".join("<<" + ", ".join(str(x) for x in s) + ">>" for s in shapes) + "}"


# --------------------------------------------------------------------------- replay
def replay(ctx, obj):
    c = obj["case"]
    if "record" in c:
        r = c["record"]
        if r["fam"] == "norm":
            v = r["variant"]
            conv = lambda s: {"None": None, "True": True, "False": False}.get(s, int(s) if s.lstrip("-").isdigit() else s)
            rec = norm_record((r["id"], {k: r[k] for k in ("shape", "spec", "limit", "itemsize", "prev")},
                               {k: conv(x) for k, x in v.items()}))
        elif r["fam"] == "rechunk":
            st = {k: (x or None) if k in ("threshold", "bsl", "method") else bool(x) for k, x in r["settings"].items()}
            rec = rechunk_record((r["id"], r["case"], st, r["spell"]))["rec"]
        else:
            R = _rmod()
            _install_recorders()
            old, new = py_chunks(r["old"]), py_chunks(r["new"])
            try:
                if r["fam"] == "o2n":
                    rec = dict(r, pieces=_jp(R._c23_o2n(old, new)), raised="")
                else:
                    th, bsl = (r.get("settings") or [0, 0])
                    rec = dict(r, steps=[_jc(s) for s in R._c23_plan(old, new, 8, th or None, bsl or None)], raised="")
            except Exception as ex:  # noqa: BLE001 - an exception is an observation
                rec = dict(r, pieces=[], steps=[], raised=type(ex).__name__)
        n = _validate_quiet(ctx, [rec])
        print("observed:", {k: rec[k] for k in rec if k in ("obs", "pieces", "steps")}, "rejected:", n)
        return bool(n)
    case, exp, st = c["case"], c["expected"], c["settings"]
    obs, got, _ = run_rechunk(case, st, c.get("spell", "tuple"))
    cl = judge_rechunk(case, exp, obs, got)
    print("case:", case, "\nsettings:", st, "\nobserved:", obs, got, "\nclause:", cl)
    return cl is not None


def _validate_quiet(ctx, recs):
    spec, cfg = ctx.model(ctx.spec("array", "RechunkTrace.tla"), {})
    return ctx.tlc_validate(spec, _slim(recs), cfg)


# --------------------------------------------------------------------------- selftest
def _selftest_cases(ctx):
    spec, cfg = ctx.model(ctx.spec("array", "RechunkMC.tla"),
                          _consts({"Fam": "norm", "N": -1, "Z": 0, "Shapes": TLA("{<<5>>, <<12>>, <<7, 5>>}"), "ZShapes": TLA("{}"),
                                   "Limits": {4, 16}, "Limits3": {4}, "Itemsizes": {1, 4}}), invariants=["WitnessOK"])
    ncases, _ = ctx.tlc_cases(spec, cfg, label="selftest:norm-cases")
    spec, cfg = ctx.model(ctx.spec("array", "RechunkMC.tla"),
                          _consts({"Fam": "rechunk", "N": 4, "Z": 0, "Shapes": TLA("{<<2, 3>>}"), "ZShapes": TLA("{}"),
                                   "Limits": {1}, "Limits3": {1}, "Itemsizes": {1}}), invariants=["RefTiles"])
    rcases, _ = ctx.tlc_cases(spec, cfg, label="selftest:rechunk-cases")
    return ncases, rcases


def _selftest_norm(ctx, ncases, prefix):
    import random
    rng = random.Random(7)
    recs = []
    for i, c in enumerate(ncases):
        v = norm_variants(c["c"], rng, 1)[0]
        r = norm_record(("%s_n%d" % (prefix, i), c["c"], v))
        if "skip" not in r:
            recs.append(r)
    return recs


def _selftest_rechunk(rcases, prefix):
    """-> (number of replayed rechunks judged wrong, call records for TLC)"""
    wrong, recs = 0, []
    for i, c in enumerate(rcases):
        r = _rechunk_work((c["c"], c["e"], [SETTINGS[0], SETTINGS[1]], "tuple", 2))
        wrong += sum(1 for e in r["res"] if e[0] not in (None, "SKIP"))
        for j, rr in enumerate(r["records"]):
            rr["id"] = "%s_d%d_%d" % (prefix, i, j)
            recs.append(rr)
    return wrong, recs


def selftest(ctx):
    import copy
    import dask.array.core as C
    from ..srcmut import mutant
    R = _rmod()
    _install_recorders()
    ok = True
    ncases, rcases = _selftest_cases(ctx)
    spec, cfg = ctx.model(ctx.spec("array", "RechunkMC.tla"), prev_consts(ctx, small=True), invariants=["WitnessOK"])
    pcases, _ = ctx.tlc_cases(spec, cfg, label="selftest:prev-cases")
    base_n = _selftest_norm(ctx, ncases, "b") + _selftest_norm(ctx, pcases, "bp")
    base_wrong, base_r = _selftest_rechunk(rcases, "b")
    batches = {"base": base_n + base_r}
    replay_wrong = {"base": base_wrong}
    mutants = [
        ("M1 core.round_to: max(1, int(c)) -> max(1, int(c) + 1)  [automatic chunk one too large]",
         C, "round_to", "return max(1, int(c))", "return max(1, int(c) + 1)", "norm"),
        ("M2 core.blockdims_from_blockshape: remainder block dropped",
         C, "blockdims_from_blockshape", "+ ((d % bd,) if d % bd else ())", "", "norm"),
        ("M5 core.auto_chunks: per-axis share of the chunk-size tolerance replaced by the full tolerance  [block may reach 1.25**n x limit]",
         C, "auto_chunks", "this_chunksize_tolerance = chunksize_tolerance ** (1 / len(last_autos))",
         "this_chunksize_tolerance = chunksize_tolerance", "prev"),
        ("M6 core.auto_chunks: final flush of the previous-chunk merge loop without its `new_chunk > 0` guard  [zero-width chunk emitted]",
         C, "auto_chunks", "                    if new_chunk > 0:\n                        dimension_result.append(new_chunk)\n\n"
                           "                result[a]",
         "                    dimension_result.append(new_chunk)\n\n                result[a]", "prev"),
        ("M3 rechunk._intersect_1d: end = br - last_br + start -> br - last_br  [dropped operand]",
         R, "_intersect_1d", "end = br - last_br + start", "end = br - last_br", "rechunk"),
        ("M4 rechunk.find_merge_rechunk: chunk_limit off by a factor (int(limit * width / block) -> int(limit * width))",
         R, "find_merge_rechunk", "chunk_limit = int(block_size_limit * largest_width / largest_block_size)",
         "chunk_limit = int(block_size_limit * largest_width)", "rechunk"),
    ]
    for k, (title, mod, fn, old, new, kind) in enumerate(mutants):
        tag = "m%d" % (k + 1)
        with mutant(mod, fn, old, new):
            if kind == "norm":
                batches[tag] = _selftest_norm(ctx, ncases, tag)
                replay_wrong[tag] = 0
            elif kind == "prev":
                batches[tag] = _selftest_norm(ctx, pcases, tag)
                replay_wrong[tag] = 0
            else:
                replay_wrong[tag], batches[tag] = _selftest_rechunk(rcases, tag)
    # (ii) corrupted recorded fields / dropped events
    good_n = next(r for r in base_n if r["obs"]["raised"] == "" and len(r["obs"]["chunks"][0]) > 1)
    good_o = next(r for r in base_r if r["fam"] == "o2n" and any(len(nb) > 1 for ax in r["pieces"] for nb in ax))
    good_p = next(r for r in base_r if r["fam"] == "plan" and r["old"] != r["new"])
    c1 = copy.deepcopy(good_n); c1["id"] = "c_norm"; c1["obs"]["chunks"][0][0] += 1; c1["obs"]["chunks"][0][1] -= 1
    c2 = copy.deepcopy(good_o); c2["id"] = "c_o2n"
    for ax in c2["pieces"]:
        for nb in ax:
            if len(nb) > 1:
                nb.pop()
                break
    c3 = copy.deepcopy(good_p); c3["id"] = "c_plan"; c3["steps"] = c3["steps"][:-1] + [c3["old"]]
    item = random_rechunks(__import__("random").Random(3), 1)[0]
    good_q = rechunk_record(("c_rechunk_good",) + item[1:])["rec"]
    c4 = copy.deepcopy(good_q); c4["id"] = "c_rechunk"
    if len(c4["obs"]["cells"]) > 1:
        c4["obs"]["cells"][0], c4["obs"]["cells"][-1] = c4["obs"]["cells"][-1], c4["obs"]["cells"][0]
    else:
        c4["obs"]["chunks"][0] = [9] + c4["obs"]["chunks"][0]
    batches["corrupt"] = [c1, c2, c3, c4, good_q]
    allrecs = [r for b in batches.values() for r in b]
    rej = validate(ctx, allrecs, "selftest", report=False)
    def nrej(tag):
        return sum(1 for r in batches[tag] if r["id"] in rej)
    b = nrej("base") + replay_wrong["base"]
    print("selftest C23: unmutated dask on the self-test case set: %d rejected / %d records, %d wrong replays -> %s"
          % (nrej("base"), len(batches["base"]), replay_wrong["base"], "ok" if b == 0 else "FAILED"))
    ok &= b == 0
    for k, (title, *_rest) in enumerate(mutants):
        tag = "m%d" % (k + 1)
        n = nrej(tag) + replay_wrong[tag]
        clauses = sorted({rej[r["id"]] for r in batches[tag] if r["id"] in rej})
        print("selftest C23: mutant %s: %d records rejected by TLC %s, %d replays judged wrong -> %s"
              % (title, nrej(tag), clauses, replay_wrong[tag], "DETECTED" if n > 0 else "MISSED"))
        ok &= n > 0
    for r in batches["corrupt"]:
        want = r["id"] != "c_rechunk_good"
        got = r["id"] in rej
        print("selftest C23: %s record %s -> %s" % ("corrupted" if want else "uncorrupted", r["id"],
              ("rejected (%s)" % rej[r["id"]]) if got else "accepted") + ("" if want == got else "  FAILED"))
        ok &= want == got
    print("selftest C23: %s" % ("all binding checks hold" if ok else "FAILED"))
    return 0 if ok else 1
