"""C09 - low-level graph optimizations preserve requested values.

spec -> code: TLC enumerates (specs/graph/GraphOptMC.tla) every small DAG over uninterpreted task
functions with the value every key denotes and the needed keys of every requested subset, and
checks the contract of specs/graph/GraphOpt.tla against specification-level optimizers (design
check).  Every case is built as a real graph (legacy tuples, Task/DataNode/Alias objects, mixed),
each real optimizer is applied, the returned graph is evaluated with dask.core.get on Herbrand
functions and projected to (keys, references); the observation is judged against the contract with
the TLC-exported Denote as the value oracle.
code -> spec: the same observations for seeded random larger graphs (and a sample of the enumerated
ones, and every observation the replay judged broken) are written as call records and decided by TLC
(GraphOptTrace.tla; value equality is decided in TLA+ against Denote)."""
from __future__ import annotations

import random
import re

from .. import herbrand as H
from ..core import TLA, MachineryError
from ..par import pmap

META = {
    "title": "Low-level graph optimizations preserve requested values",
    "design_ref": "DESIGN.md §4.2 C09",
    "technique": "TLA+ contract of graph optimization over Herbrand terms; TLC enumerates all small DAGs x requested "
                 "subsets with Denote/Needed; replay through every real optimizer + TLC validation of recorded calls",
    "level_text": "Small-scope exhaustive: every DAG with <= N nodes (tasks of arity <= 2 with repeated arguments, literals, "
                  "list / nested-task / dict arguments, data and alias nodes) x requested subsets is enumerated by TLC together with "
                  "Denote of every key; cull, inline, inline_functions, fuse_linear, fuse (parameter grid, renamers), "
                  "fuse_linear_task_spec, Task.fuse, resolve_aliases, _task_spec.cull and node substitution are applied to "
                  "the real graphs in several key styles / insertion orders / graph forms and the returned graph is "
                  "evaluated by dask.core.get.  Random larger graphs are decided by TLC from recorded calls.",
    "level_note": "Trusted: TLC; the projection of a returned graph to (keys, references) in harness/herbrand.py; "
                  "dask.core.get as the evaluator of the *returned* graph (its agreement with Denote on unoptimized graphs is "
                  "itself checked here with op 'id').  Bounded graph sizes; optimizer parameters sampled from the stated grid.",
}

TLC_OPTS = {"heap": "2g", "env": {"JAVA_TOOL_OPTIONS": "-XX:ParallelGCThreads=2"}}
INVS = ["WF", "NeededSane", "IdentityOK", "CullOK", "InlineOK", "RejectsDrop", "RejectsSwap"]
STYLES = ["str", "tup", "mix", "hex", "tup2"]
CLAUSE_ORDER = ["Raised", "Present", "Eval", "Values", "Closed", "Acyclic", "Deps", "CullDom"]
INF = float("inf")


def _idx(name):
    return int(name[1:])


def _names(g):
    return sorted(g, key=_idx)


# ---------------------------------------------------------------- renamers (module level: picklable)
def _ren_custom(keys):
    return "fz:" + ",".join(str(k) for k in keys)


def _ren_none(keys):
    return None


def _ren_first(keys):
    return keys[0]


RENAMERS = {"on": True, "off": False, "custom": _ren_custom, "none": _ren_none, "first": _ren_first}


# ---------------------------------------------------------------- building the real input graph
def build(g, K, order, form, rng):
    """form: legacy | ts | mixed (each node independently a legacy value or a task object)."""
    if form == "legacy":
        return H.legacy_graph(g, K, order)
    refstyle = rng.choice(["taskref", "alias"])
    if form == "ts":
        return H.ts_graph(g, K, order, refstyle)
    out = {}
    for k in order:
        if rng.random() < 0.5:
            out[K[k]] = H.legacy_node(g[k], K)
        else:
            out[K[k]] = H.ts_node(k, g[k], K, refstyle)
    return out


def _keys_as(pykeys, how):
    if how == "set":
        return set(pykeys)
    if how == "tuple":
        return tuple(pykeys)
    if how == "nested":
        return [[k] for k in pykeys]
    if how == "single" and len(pykeys) == 1:
        return pykeys[0]
    return list(pykeys)


def _depmap(d, as_list):
    from dask.core import get_dependencies
    return {k: get_dependencies(d, k, as_list=as_list) for k in d}


# ---------------------------------------------------------------- the operations
def op_id(g, K, order, pykeys, p, form, rng):
    return build(g, K, order, form, rng), None


def op_cull(g, K, order, pykeys, p, form, rng):
    from dask.optimization import cull
    d = build(g, K, order, form, rng)
    return cull(d, _keys_as(pykeys, p["keys_as"]))


def op_inline(g, K, order, pykeys, p, form, rng):
    from dask.optimization import inline
    d = build(g, K, order, form, rng)
    ik = [K[k] for k in p["ik"]]
    if p.get("ik_as") == "single" and len(ik) == 1:
        ik = ik[0]
    elif p.get("ik_as") == "none" and not ik:
        ik = None
    deps = None if p["deps"] == "none" else _depmap(d, p["deps"] == "list")
    return inline(d, ik, inline_constants=p["consts"], dependencies=deps), None


def op_inline_functions(g, K, order, pykeys, p, form, rng):
    from dask.optimization import inline_functions
    d = build(g, K, order, form, rng)
    deps = None if p["deps"] == "none" else _depmap(d, False)
    return inline_functions(d, _keys_as(pykeys, p.get("keys_as", "list")), [H.Fn(l) for l in p["fast"]],
                            inline_constants=p["consts"], dependencies=deps), None


def op_fuse_linear(g, K, order, pykeys, p, form, rng):
    from dask.optimization import cull, fuse_linear
    d = build(g, K, order, form, rng)
    deps = None
    if p["deps"] == "cull":
        d, deps = cull(d, list(pykeys))
    elif p["deps"] == "list":
        deps = _depmap(d, True)
    return fuse_linear(d, _keys_as(pykeys, p.get("keys_as", "list")), dependencies=deps, rename_keys=RENAMERS[p["rename"]])


def op_fuse(g, K, order, pykeys, p, form, rng):
    from dask.optimization import cull, fuse
    d = build(g, K, order, form, rng)
    deps = None
    if p["deps"] == "cull":
        d, deps = cull(d, list(pykeys))
    elif p["deps"] == "list":
        deps = _depmap(d, True)
    kw = {}
    for name in ("ave_width", "max_width", "max_height", "max_depth_new_edges"):
        v = p.get(name, "default")
        if v != "default":
            kw[name] = INF if v == "inf" else v
    return fuse(d, _keys_as(pykeys, p.get("keys_as", "list")), dependencies=deps, rename_keys=RENAMERS[p["rename"]], **kw)


def op_fuse_linear_task_spec(g, K, order, pykeys, p, form, rng):
    from dask._task_spec import fuse_linear_task_spec
    d = build(g, K, order, "ts", rng)
    return fuse_linear_task_spec(d, _keys_as(pykeys, p["keys_as"])), None


def op_task_fuse(g, K, order, pykeys, p, form, rng):
    from dask._task_spec import Alias, Task
    d = build(g, K, order, "ts", rng)
    members = list(p["members"])
    rng.shuffle(members)
    sink = K[p["sink"]]
    if p["newkey"]:
        nk = ("fused", len(members))
        node = Task.fuse(*[d[K[m]] for m in members], key=nk)
    else:
        nk = None
        node = Task.fuse(*[d[K[m]] for m in members])
    out = {k: v for k, v in d.items() if k not in {K[m] for m in members}}
    if nk is None:
        out[sink] = node
    else:
        out[nk] = node
        out[sink] = Alias(sink, nk)
    return out, None


def _dependents(d):
    dep = {k: set() for k in d}
    for k, v in d.items():
        for x in v.dependencies:
            dep.setdefault(x, set()).add(k)
    return dep


def op_resolve_aliases(g, K, order, pykeys, p, form, rng):
    from dask._task_spec import resolve_aliases
    d = build(g, K, order, "ts", rng)
    return resolve_aliases(d, set(pykeys), _dependents(d)), None


def op_ts_cull(g, K, order, pykeys, p, form, rng):
    from dask._task_spec import cull
    d = build(g, K, order, "ts", rng)
    return cull(d, _keys_as(pykeys, p["keys_as"])), None


def op_substitute(g, K, order, pykeys, p, form, rng):
    d = build(g, K, order, "ts", rng)
    D = K[p["d"]]
    users = [k for k, v in d.items() if D in v.dependencies]
    out = dict(d)
    if p["mode"] == "inline":
        for u in users:
            out[u] = d[u].substitute({D: d[D]}, key=u)
        if D not in pykeys:
            del out[D]
    else:
        new = ("renamed", p["d"])
        for u in users:
            out[u] = d[u].substitute({D: new})
        del out[D]
        out[new] = d[D].substitute({}, key=new)
    return out, None


OPS = {"id": op_id, "cull": op_cull, "inline": op_inline, "inline_functions": op_inline_functions,
       "fuse_linear": op_fuse_linear, "fuse": op_fuse, "fuse_linear_task_spec": op_fuse_linear_task_spec,
       "task_fuse": op_task_fuse, "resolve_aliases": op_resolve_aliases, "ts_cull": op_ts_cull,
       "substitute": op_substitute}


# ---------------------------------------------------------------- one application -> observation
def observe(item):
    """Apply item = {g, keys, op, p, form, style, seed} to the real code; return the observation."""
    import dask.core
    g, keys = item["g"], item["keys"]
    rng = random.Random(item["seed"])
    names = _names(g)
    K = H.key_map(names, item["style"])
    inv = {v: k for k, v in K.items()}
    order = names[:]
    rng.shuffle(order)
    pykeys = [K[k] for k in keys]
    o = {"raised": "", "evalerr": "", "dom": [], "refs": {}, "vals": {}, "hasdeps": False, "rdeps": {}}
    try:
        g2, deps2 = OPS[item["op"]](g, K, order, pykeys, item["p"], item["form"], rng)
    except NotImplementedError as ex:
        return {"skip": "NotImplementedError: " + str(ex)[:60]}
    except Exception as ex:  # noqa: BLE001 - every exception of the optimizer is an observation
        o["raised"] = type(ex).__name__
        o["msg"] = str(ex)[:200]
        return o
    try:
        o["dom"], o["refs"] = H.project(g2, inv)
        if deps2 is not None:
            o["hasdeps"] = True
            o["rdeps"] = H.project_deps(deps2, inv)
    except Exception as ex:  # noqa: BLE001 - a result that is not even a mapping of nodes
        o["raised"] = "Malformed:" + type(ex).__name__
        o["msg"] = str(ex)[:200]
        return o
    present = [k for k in pykeys if k in g2]
    try:
        vals = dask.core.get(g2, present) if present else ()
        o["vals"] = {inv[k]: H.norm(v) for k, v in zip(present, vals)}
    except Exception as ex:  # noqa: BLE001
        o["evalerr"] = type(ex).__name__
        o["msg"] = str(ex)[:200]
    return o


def judge(item, o, den, nd):
    """Python mirror of GraphOpt!Broken with the TLC-exported Denote (den) / Needed (nd) as oracle."""
    if o["raised"]:
        return ["Raised"]
    keys = item["keys"]
    dom = set(o["dom"])
    bad = []
    if not set(keys) <= dom:
        bad.append("Present")
    if o["evalerr"]:
        bad.append("Eval")
    if any(k not in o["vals"] or o["vals"][k] != den[k] for k in keys):
        bad.append("Values")
    rf = {k: set(o["refs"].get(k, ())) for k in dom}
    if any(not r <= dom for r in rf.values()):
        bad.append("Closed")
    if _cyclic(rf):
        bad.append("Acyclic")
    if o["hasdeps"]:
        rd = o["rdeps"]
        if set(rd) != dom or any(set(rd[k]) != rf[k] for k in dom):
            bad.append("Deps")
    if item["op"] in ("cull", "ts_cull") and dom != set(nd):
        bad.append("CullDom")
    return bad


def _cyclic(rf):
    state = {}

    def visit(k):
        stack = [(k, iter(rf.get(k, ())))]
        state[k] = 1
        while stack:
            node, it = stack[-1]
            for nxt in it:
                if nxt not in rf:
                    continue
                s = state.get(nxt, 0)
                if s == 1:
                    return True
                if s == 0:
                    state[nxt] = 1
                    stack.append((nxt, iter(rf[nxt])))
                    break
            else:
                state[node] = 2
                stack.pop()
        return False

    return any(state.get(k, 0) == 0 and visit(k) for k in rf)


def _dict_refs(g):
    """Does some dict argument of the graph mention a key?"""
    def walk(a, inside):
        if a["t"] == "ref":
            return inside
        return any(walk(x, inside or a["t"] == "dict") for x in a.get("xs", []))
    return any(walk(a, False) for n in g.values() for a in n["args"])


def classify(item, clauses, o=None):
    """Signature = call site (operation, graph form) + first broken clause + the parameter that selects
    the code path (renamer for fusion); no concrete numbers."""
    first = [c for c in CLAUSE_ORDER if c in clauses] or list(clauses)
    if item["op"] in ("inline", "inline_functions", "fuse_linear", "fuse") and item["form"] in ("legacy", "mixed") \
            and first[0] != "Raised" and _dict_refs(item["g"]):
        # one input class: the substitution these operations are built on meets a dict argument that mentions a key
        return "legacy-substitution:dict-argument-references-key"
    if first[0] == "Raised" and o is not None:
        sig = "%s:Raised:%s" % (item["op"], o.get("raised", ""))
        if item["op"] == "fuse" and item["p"].get("ave_width") == "inf" and o.get("raised") == "OverflowError":
            sig += ":ave_width=inf"
        return sig
    sig = "%s:%s:%s" % (item["op"], item["form"], first[0])
    if item["op"] in ("fuse", "fuse_linear"):
        sig += ":rename=" + item["p"]["rename"]
    if item["op"] == "substitute":
        sig += ":" + item["p"]["mode"]
    return sig


# ---------------------------------------------------------------- variants of one (graph, keys) case
def _labels(g):
    out = []

    def walk(a):
        if a["t"] == "call":
            out.append(a["f"])
        if a["t"] in ("list", "call", "dict"):
            for x in a["xs"]:
                walk(x)

    for n in g.values():
        if n["kind"] == "task":
            out.append(n["f"])
        for a in n["args"]:
            walk(a)
    return sorted(set(out))


def fuse_sets(g, keys, limit=40):
    """Member sets admissible for Task.fuse: one sink; every other member is neither requested nor
    referenced from outside the set."""
    names = _names(g)
    D = H.depmap(g)
    users = {k: {p for p in names if k in D[p]} for k in names}
    out = []
    n = len(names)
    for mask in range(3, 1 << n):
        S = {names[i] for i in range(n) if mask >> i & 1}
        if len(S) < 2:
            continue
        sinks = [m for m in S if not (users[m] & S)]
        if len(sinks) != 1:
            continue
        if all(m == sinks[0] or (m not in keys and users[m] <= S) for m in S):
            out.append((sorted(S, key=_idx), sinks[0]))
            if len(out) >= limit:
                break
    return out


def variants(g, keys, rng, rich):
    """The (op, params, form, key style) applications made for one case."""
    names = _names(g)
    out = []

    def add(op, form="legacy", **p):
        out.append({"op": op, "form": form, "p": p, "style": rng.choice(STYLES), "seed": rng.randrange(1 << 30)})

    def lform():
        return rng.choice(["legacy", "legacy", "ts", "mixed"])

    kas = ["list", "set", "nested"] + (["single"] if len(keys) == 1 else [])
    if rich or rng.random() < 0.2:
        add("id", lform())
    add("cull", "legacy", keys_as=rng.choice(kas))
    if rich or rng.random() < 0.4:
        add("cull", rng.choice(["ts", "mixed"]), keys_as=rng.choice(kas))
    # inline: which keys to inline is a free parameter of the call
    iks = [[], [rng.choice(names)], list(names), rng.sample(names, rng.randint(1, len(names)))]
    for ik in (iks if rich else rng.sample(iks, 2)):
        add("inline", lform(), ik=ik, ik_as=rng.choice(["list", "single", "none"]), consts=rng.random() < 0.6,
            deps=rng.choice(["none", "set", "list"]))
    labels = _labels(g)
    if labels:
        fasts = [labels, [rng.choice(labels)], rng.sample(labels, rng.randint(1, len(labels)))]
        for fast in (fasts if rich else rng.sample(fasts, 2)):
            add("inline_functions", lform(), fast=fast, consts=rng.random() < 0.4, deps=rng.choice(["none", "set"]),
                keys_as=rng.choice(["list", "set"]))
    for rename in (["on", "off", "custom", "first"] if rich else rng.sample(["on", "off", "custom", "first", "none"], 2)):
        add("fuse_linear", "legacy", rename=rename, deps=rng.choice(["none", "cull", "list"]), keys_as=rng.choice(["list", "set"]))
    for _ in range(8 if rich else 3):
        add("fuse", rng.choice(["legacy", "legacy", "legacy", "ts", "mixed"]),
            rename=rng.choice(["on", "off", "custom", "first", "none"]),
            deps=rng.choice(["none", "cull", "list"]), keys_as=rng.choice(["list", "set"]),
            ave_width=rng.choice([1, 2, 3, "inf", "default"]), max_width=rng.choice(["default", 1, 2, 3]),
            max_height=rng.choice(["default", 1, 2, 3]), max_depth_new_edges=rng.choice(["default", 0, 1, 2]))
    add("fuse_linear_task_spec", "ts", keys_as=rng.choice(["list", "set", "tuple"]))
    fs = fuse_sets(g, set(keys))
    for members, sink in (fs if rich else rng.sample(fs, min(2, len(fs)))):
        add("task_fuse", "ts", members=members, sink=sink, newkey=rng.random() < 0.3)
    add("resolve_aliases", "ts")
    add("ts_cull", "ts", keys_as=rng.choice(["list", "set", "tuple"]))
    D = H.depmap(g)
    used = sorted({d for v in D.values() for d in v}, key=_idx)
    cands = [(d, m) for d in used for m in ("inline", "rename") if m == "inline" or d not in keys]
    for d, m in (cands if rich else rng.sample(cands, min(2, len(cands)))):
        add("substitute", "ts", d=d, mode=m)
    return out


# ---------------------------------------------------------------- replay of TLC-enumerated cases
def _digest(item):
    import hashlib
    import json
    return hashlib.md5(json.dumps([item["g"], item["keys"], item["op"], item["p"], item["form"], item["style"]],
                                  sort_keys=True).encode()).hexdigest()[:16]


def _work(job):
    """job = (g, den, [(keys, nd)], seed, rich, keep_p) -> (counts, kept, broken): counts = [(digest, nontrivial)]
    per application; kept = sampled (item, obs, clauses) for the TLC cross-validation; broken = all violating ones."""
    g, den, reqs, seed, rich, keep_p = job
    rng = random.Random(seed)
    counts, kept, broken, skips = [], [], [], []
    for keys, nd in reqs:
        nt = nontrivial(g, keys)
        for v in variants(g, keys, rng, rich):
            item = dict(v, g=g, keys=keys)
            o = observe(item)
            if "skip" in o:
                skips.append(o["skip"])
                continue
            cl = judge(item, o, den, nd)
            counts.append((_digest(item), nt))
            if cl:
                broken.append((item, o, cl))
            elif rng.random() < keep_p:
                kept.append((item, o, cl))
    import json
    return json.dumps([counts, kept, broken, skips])      # parsed by the parent much faster than unpickling


def nontrivial(g, keys):
    """A case is non-trivial when something can go wrong: at least one reference in the needed part."""
    D = H.depmap(g)
    return any(D[k] for k in H.needed(g, keys))


def record_of(rid, item, o):
    oo = {k: o[k] for k in ("raised", "evalerr", "dom", "refs", "vals", "hasdeps", "rdeps")}
    return {"id": rid, "op": item["op"], "g": item["g"], "keys": item["keys"], "o": oo}


def _first_clause(text):
    found = [c for c in CLAUSE_ORDER + ["InputNotWellFormed"] if '"%s"' % c in text]
    return found or ["Rejected"]


_RE_OUT = re.compile(r'^/\\ out = (".*")\s*$')


def read_cases(dump, min_nodes, cap, rng):
    """Stream the TLC state dump: one JSON case per state in variable `out`; keep graphs with at least
    min_nodes nodes (smaller ones belong to another configuration), reservoir-sample `cap` of them
    (cap = 0: keep all).  Returns (cases sorted canonically, number of eligible cases seen)."""
    import json
    import os
    keep, seen = [], 0
    with open(dump) as f:
        for line in f:
            m = _RE_OUT.match(line)
            if not m:
                continue
            text = json.loads(m.group(1))
            if not text:
                continue
            # cheap pre-filter on the number of nodes before parsing the whole case
            c = json.loads(text)
            if not c["g"] or len(c["g"]) < min_nodes:
                continue
            seen += 1
            keep.append(text)
    os.remove(dump)
    keep.sort()
    if cap and len(keep) > cap:
        keep = rng.sample(keep, cap)
    return [json.loads(t) for t in keep], seen


def replay_cases(ctx, cases, subsets_per_graph, rich, keep=3000, report=True):
    """Run all variants of the given TLC cases; returns (sampled clean triples, broken triples)."""
    jobs = []
    napp = 0
    for c in cases:
        g = c["g"]
        if not g:
            continue
        den = {k: H.canon(v) for k, v in c["den"].items()}
        # reference guard: the Python twin of Denote / Needed must agree with the TLC export
        for k in g:
            if H.denote(g, k) != den[k]:
                raise MachineryError("Python twin of Denote disagrees with TLC on %r key %s" % (g, k))
        reqs = [(sorted(r["ks"], key=_idx), sorted(r["nd"], key=_idx)) for r in c["req"]]
        reqs.sort()
        for ks, nd in reqs:
            if set(nd) != H.needed(g, ks):
                raise MachineryError("Python twin of Needed disagrees with TLC on %r keys %s" % (g, ks))
        if subsets_per_graph and len(reqs) > subsets_per_graph:
            reqs = ctx.rng.sample(reqs, subsets_per_graph)
        napp += len(reqs)
        jobs.append([g, den, reqs, ctx.rng.randrange(1 << 30), rich, 0.0])
    keep_p = min(1.0, keep / max(1.0, napp * (28.0 if rich else 16.0)))
    for j in jobs:
        j[5] = keep_p
    kept, broken = [], []
    import json
    for res in pmap(_work, jobs, chunk=16):
        counts, kp, br, skips = json.loads(res)
        for dg, nt in counts:
            ctx.count(dg, nt)
        for sk in skips:
            ctx.skip(sk)
        kept += kp
        broken += br
        if report:
            for item, o, clauses in br:
                ctx.violation(classify(item, clauses, o),
                              "%s on a %s graph breaks %s" % (item["op"], item["form"], "/".join(clauses)),
                              {"item": item, "observed": o, "clauses": clauses})
    return kept, broken


def validate_records(ctx, triples, label, report=True):
    """code -> spec: TLC decides the records; for triples that carry a Python verdict the two must agree."""
    if not triples:
        return {}
    spec, cfg = ctx.model(ctx.spec("graph", "GraphOptTrace.tla"), {})
    recs = [record_of("r%d" % i, item, o) for i, (item, o, _c) in enumerate(triples)]
    rejected = {}
    for lo in range(0, len(recs), 30000):
        rejected.update(ctx.tlc_validate(spec, recs[lo:lo + 30000], cfg, label=label, timeout=1800, **TLC_OPTS))
    out = {}
    for i, (item, o, clauses) in enumerate(triples):
        rid = "r%d" % i
        tl = sorted(_first_clause(rejected[rid][0])) if rid in rejected else []
        if clauses is not None and sorted(clauses) != tl:
            raise MachineryError("Python judge %r and TLC %r disagree on record %r" % (clauses, tl, recs[i]))
        if tl:
            out[i] = tl
            if clauses is None and report:
                ctx.violation(classify(item, tl, o), "TLC rejects a recorded %s call (%s)" % (item["op"], "/".join(tl)),
                              {"item": item, "observed": o, "clauses": tl})
    return out


def random_items(ctx, n, sizes):
    items = []
    rng = ctx.rng
    while len(items) < n:
        g = H.random_graph(rng, rng.choice(sizes))
        names = _names(g)
        keys = sorted(rng.sample(names, rng.randint(1, min(3, len(names)))), key=_idx)
        if rng.random() < 0.5 and names[-1] not in keys:
            keys.append(names[-1])
        vs = variants(g, keys, rng, False)
        for v in rng.sample(vs, min(6, len(vs))):
            items.append(dict(v, g=g, keys=keys))
    return items[:n]


def _observe_item(item):
    import json
    return json.dumps(observe(item))          # parsed by the parent much faster than unpickling


def run(ctx):
    total = 0
    sampled = False
    # (N, argument wraps, last-level sample (0 = all), requested subsets per graph (0 = all), cap on graphs, all variants?)
    W3 = '{"list", "call", "dict"}'
    confs = ctx.pick([(3, W3, 0, 1, 3000, False), (4, "{}", 0, 1, 3000, False)],
                     [(3, W3, 0, 3, 0, True), (4, '{"list", "dict"}', 0, 2, 12000, False), (5, "{}", 2, 1, 0, False)])
    import dask.core  # noqa: F401 - imported before the worker processes are forked
    import dask.optimization  # noqa: F401
    xval = []
    for n, wraps, last, per, cap, rich in confs:
        spec, cfg = ctx.model(ctx.spec("graph", "GraphOptMC.tla"), {"N": n, "Wraps": TLA(wraps), "Last": last}, invariants=INVS)
        r = ctx.tlc(spec, cfg, dump=True, label="design+cases:N=%d,wraps=%s,last=%d" % (n, wraps, last), timeout=3000,
                    seed=ctx.seed + 1, **TLC_OPTS)
        cases, seen = read_cases(r.dump, n if n > 3 else 1, cap, ctx.rng)
        if not cases:
            raise MachineryError("no cases exported by GraphOptMC (N=%d)" % n)
        total += seen
        if per or last or seen > len(cases):
            sampled = True
        kept, broken = replay_cases(ctx, cases, per, rich, keep=ctx.pick(5000, 15000))
        ctx.sample({"graph": cases[0]["g"], "denote": cases[0]["den"], "requests": cases[0]["req"][:2]})
        xval += kept + broken
        del cases
    # code -> spec: random larger graphs, decided by TLC alone
    items = random_items(ctx, ctx.pick(6000, 40000), ctx.pick([5, 6, 7, 8, 9], [5, 6, 7, 8, 9, 10, 12, 14]))
    rnd = []
    import json
    for item, o in zip(items, pmap(_observe_item, items, chunk=32)):
        o = json.loads(o)
        if "skip" in o:
            ctx.skip(o["skip"])
            continue
        ctx.count(_digest(item), nontrivial(item["g"], item["keys"]))
        rnd.append((item, o, None))
    validate_records(ctx, xval + rnd, "trace-validation:enumerated-sample+random-graphs")
    if rnd:
        ctx.sample({"recorded_call": {k: rnd[0][0][k] for k in ("op", "p", "form", "style", "keys", "g")}})
    ctx.exhaustive = not sampled
    ctx.rule = ("case = (TLC-enumerated or seeded random DAG, requested key subset) x (optimizer, parameters, graph form, "
                "key style, insertion order); non-trivial = the needed part of the graph has at least one reference; "
                "distinct by (graph, keys, op, params, form, style)")
    ctx.extra["graphs_enumerated_by_tlc"] = total
    ctx.assumptions = ["TLC evaluates Denote / Needed correctly (cross-checked against a Python twin on every enumerated case)",
                       "the harness projection (keys, references) of a returned graph is faithful",
                       "graph sizes and the optimizer parameter grid are bounded / sampled as listed"]


def replay(ctx, obj):
    c = obj["case"]
    item = c["item"]
    o = observe(item)
    spec, cfg = ctx.model(ctx.spec("graph", "GraphOptTrace.tla"), {})
    rej = ctx.tlc_validate(spec, [record_of("r0", item, o)], cfg, **TLC_OPTS)
    print("item:", {k: item[k] for k in ("op", "p", "form", "style", "seed", "keys")})
    print("graph:", item["g"])
    print("observed:", o)
    print("TLC verdict:", rej or "accepted")
    return bool(rej)


# ---------------------------------------------------------------- binding self-test
def _mini_cases():
    """A small fixed case set (chains, diamond, alias, list argument) with oracle from the Python twin."""
    R = lambda k: {"t": "ref", "k": k}
    L = lambda v: {"t": "lit", "v": v}
    T = lambda f, *a: {"kind": "task", "f": f, "args": list(a)}
    graphs = [
        {"k1": T("f1"), "k2": T("f2", R("k1")), "k3": T("f3", R("k2")), "k4": T("f4", R("k3"), L(4))},
        {"k1": {"kind": "data", "f": "", "args": [L(11)]}, "k2": T("f2", R("k1")), "k3": T("f3", R("k1"), R("k2")),
         "k4": T("f4", {"t": "list", "xs": [R("k2"), R("k3")]})},
        {"k1": T("f1"), "k2": {"kind": "alias", "f": "", "args": [R("k1")]}, "k3": T("f3", R("k2"), R("k2")),
         "k4": {"kind": "alias", "f": "", "args": [R("k3")]}},
        {"k1": T("f1"), "k2": T("f2", R("k1")), "k3": T("f3", R("k1")), "k4": T("f4", R("k2"), R("k3")), "k5": T("f5", R("k4"))},
        {"k1": T("f1"), "k2": T("f2", {"t": "dict", "ks": ["p", "q"], "xs": [R("k1"), L(2)]}), "k3": T("f3", R("k2"), {"t": "list", "xs": [R("k1")]})},
    ]
    cases = []
    for g in graphs:
        names = _names(g)
        den = {k: H.denote(g, k) for k in g}
        reqs = []
        for mask in range(1, 1 << len(names)):
            ks = [names[i] for i in range(len(names)) if mask >> i & 1]
            reqs.append({"ks": ks, "nd": sorted(H.needed(g, ks))})
        cases.append({"g": g, "den": den, "req": reqs})
    return cases


def _mini_run(ctx, ops):
    """Violations (by op) of the replay loop on the mini case set, without reporting them."""
    found = {}
    rng = random.Random(7)
    for c in _mini_cases():
        for r in c["req"]:
            for v in variants(c["g"], r["ks"], rng, True):
                if v["op"] not in ops:
                    continue
                item = dict(v, g=c["g"], keys=r["ks"])
                o = observe(item)
                if "skip" in o:
                    continue
                cl = judge(item, o, c["den"], r["nd"])
                if cl and classify(item, cl, o) not in ctx.known:      # recorded known findings are not news
                    found.setdefault(item["op"], []).append((item, o, cl))
    return found


def selftest(ctx):
    import dask._task_spec as ts
    import dask.core
    import dask.optimization as opt
    from ..srcmutant import mutant
    ok = True
    base = _mini_run(ctx, set(OPS))
    base = {k: v for k, v in base.items()}
    print("selftest C09: unmutated tree on the mini case set: %s" % ("clean" if not base else "violations %s" % sorted(base)))
    ok &= not base
    mutants = [
        ("cull: dependencies of dependencies are not followed (work = new_work dropped)", opt, "cull",
         "        work = new_work\n", "        work = []\n", (), {"cull"}),
        ("keys_in_tasks: walks the keys of a dict argument instead of its values", dask.core, "keys_in_tasks",
         "work.extend(w.values())", "work.extend(w)", (), {"cull", "inline"}),
        ("subs: substitution does not descend into list arguments", dask.core, "subs",
         "        elif type_arg is list:\n            arg = [subs(x, key, val) for x in arg]\n", "", [(opt, "subs")],
         {"inline", "inline_functions", "fuse", "fuse_linear"}),
        ("fuse: requested keys are no longer protected", opt, "fuse",
         "and k not in (keys or ())", "and True", (), {"fuse"}),
        ("fuse_linear: returned dependencies keep the fused child (stale map)", opt, "fuse_linear",
         "            dependencies[parent].remove(child)\n", "", (), {"fuse_linear"}),
        ("fuse_linear_task_spec: a requested key in the middle of a chain is fused away", ts, "fuse_linear_task_spec",
         "                or new_key in keys\n", "", (), {"fuse_linear_task_spec"}),
        ("resolve_aliases: collapses an alias onto a requested target", ts, "resolve_aliases",
         "target_key not in keys\n", "True\n", (), {"resolve_aliases"}),
        ("Task.fuse: external dependencies passed in the wrong order", ts, "GraphNode.fuse",
         "*(TaskRef(k) for k in external_deps),", "*(TaskRef(k) for k in reversed(external_deps)),", (), {"task_fuse"}),
        ("inline: substitution order ignores the topological order", opt, "inline",
         "            if dep in keysubs:\n                replace = keysubs[dep]\n            else:\n                replace = dsk[dep]\n",
         "            replace = dsk[dep]\n", (), {"inline", "inline_functions"}),
    ]
    for title, mod, name, old, new, also, ops in mutants:
        with mutant(mod, name, old, new, also=also):
            found = _mini_run(ctx, ops)
        hit = sorted(found)
        n = sum(len(v) for v in found.values())
        sigs = sorted({classify(i, c, o) for v in found.values() for i, o, c in v})[:3]
        print("selftest C09 mutant [%s]: %s (%d violating applications; e.g. %s)" % (title, "DETECTED" if hit else "MISSED", n, sigs))
        ok &= bool(hit)
    # (ii) the trace specification rejects corrupted records and accepts the genuine ones
    rng = random.Random(3)
    good = []
    for c in _mini_cases()[:2]:
        r = c["req"][-1]
        for v in variants(c["g"], r["ks"], rng, False):
            item = dict(v, g=c["g"], keys=r["ks"])
            o = observe(item)
            if "skip" not in o and not judge(item, o, c["den"], r["nd"]):
                good.append((item, o))
    bad = []
    for item, o in good[:12]:
        k = item["keys"][-1]
        o1 = dict(o, vals=dict(o["vals"]))
        v = o1["vals"][k]
        o1["vals"][k] = {"t": "app", "f": v.get("f", "x"), "a": list(reversed(v.get("a", []))) + [{"t": "lit", "v": 0}]}
        bad.append(("corrupted value", item, o1))
        o2 = dict(o, dom=[d for d in o["dom"] if d != k])
        bad.append(("dropped requested key", item, o2))
        if o["hasdeps"]:
            o3 = dict(o, rdeps={a: b for a, b in list(o["rdeps"].items())[1:]})
            bad.append(("dropped dependency-map entry", item, o3))
    spec, cfg = ctx.model(ctx.spec("graph", "GraphOptTrace.tla"), {})
    recs = [record_of("g%d" % i, it, o) for i, (it, o) in enumerate(good)] + \
           [record_of("b%d" % i, it, o) for i, (_w, it, o) in enumerate(bad)]
    rej = ctx.tlc_validate(spec, recs, cfg, **TLC_OPTS)
    good_rej = [r for r in rej if r.startswith("g")]
    bad_acc = [bad[i][0] for i in range(len(bad)) if "b%d" % i not in rej]
    print("selftest C09 trace spec: %d genuine records accepted (%d rejected), %d corrupted records rejected (%d accepted %s)"
          % (len(good) - len(good_rej), len(good_rej), len(bad) - len(bad_acc), len(bad_acc), bad_acc[:3]))
    ok &= not good_rej and not bad_acc and len(good) > 5 and len(bad) > 5
    print("selftest C09: %s" % ("PASS" if ok else "FAIL"))
    return 0 if ok else 1
