"""C17 - configuration changes are scoped, atomic and spelling-insensitive.

Pattern A.  specs/sched/Config.tla holds the semantics (trees, canonical_name, set._assign with
its rollback record, set.__exit__, get, update, merge, collect_env); ConfigMC.tla is the set/exit
state machine that TLC explores completely for a bounded nesting depth (all interleavings, any
length) with ExitRestores / FailedSetIsAtomic / GetSeesSet / CanonicalFirstWins checked on every
transition; ConfigFnMC.tla enumerates update / merge / env / round-trip cases.

Scalars are numbers or text: for a text prefix Python answers `key in d` (substring test) where it
raises for a number, so _assign gets as far as the item assignment; the specification transcribes
that, records what is in _record when a call raises, and lets the rollback itself fail.

Whether a set through a scalar prefix must raise is not part of the property: if the real call does
not raise where the transcription does, that alone is no alarm, but the policy-free clauses still
bind (get sees the set values; leaving the context restores the entry configuration).

spec -> code: every state of the TLC graph is exported with the canonical history that reaches it;
the real dask.config.set is driven along it on a private dict and back out through every exit, the
dict is compared with the specification state after every call (every transition of the graph is
executed on the real code), and config.get is compared on every probe path in both spellings.
code -> spec: seeded random longer histories over a larger key universe (and random update /
merge / env / round-trip calls) are recorded from the real code and decided by TLC (ConfigTrace)."""
from __future__ import annotations

import copy

from ..core import TLA, MachineryError

META = {
    "title": "Configuration changes are scoped, atomic and spelling-insensitive",
    "design_ref": "DESIGN.md §4.1 C17",
    "technique": "TLA+ state machine of dask.config.set/exit with its rollback record (transcribed from _assign/__exit__), "
                 "model-checked by TLC for all nestings up to a depth bound; every graph transition replayed on the real "
                 "code; recorded random histories and update/merge/env calls decided by TLC",
    "level_text": "TLC explores every set/exit interleaving (any length) with nesting <= MaxDepth, 1-2 assignments per call "
                  "over 11 initial trees x 10 dotted paths (twin spellings, prefix-is-a-number, prefix-is-a-text that does / "
                  "does not contain the next key, duplicates; number, text and mapping values), checking "
                  "ExitRestores, AllExitedRestores, FailedSetIsAtomic, GetSeesSet, CanonicalFirstWins on the transcribed "
                  "algorithm; each reachable state and each raising call is replayed on dask.config.set(config=private dict) "
                  "comparing the dict after every call and every exit and config.get under both spellings. update/merge/"
                  "collect_env/serialize are enumerated as total functions on small trees and compared exactly. Longer "
                  "random histories (depth-3 paths, up to 3 assignments, nesting <= 5) are validated by TLC.",
    "level_note": "Trusted: TLC, the tree<->dict projection, the key universe with a fixed twin table (TLC cannot edit "
                  "strings: lower-casing and '__' splitting of DASK_* names are done by the harness when it spells the "
                  "variable). Not decided: the global config object and its lock, threads, non-LIFO exits, deprecated-key "
                  "renaming, YAML collection, kind conflicts (scalar vs mapping) under priority='old' (don't-care), "
                  "whether a set through a scalar prefix must raise (if it does not, get-sees-set and exit-restores still bind), "
                  "environments whose variables are prefixes of each other (order unspecified).",
}

RAW = {"r1": "1", "r2": "2", "rtrue": "true", "rTrue": "True", "rfalse": "false", "rnone": "none", "rnull": "null",
       "rNone": "None", "rword": "abc", "rquoted": "'abc'", "rlist": "[1, 2]", "rfloat": "1.5"}
KEYS = ["a", "b", "c", "a-b", "a_b", "c-d", "c_d", "x"]


# ------------------------------------------------------------------ projection tree <-> dict
# text scalars: code number in the specification <-> the text; STR_HAS must equal Config!StrHas
STR = {901: "zzz", 902: "abc", 903: "a_b"}
STR_CODE = {v: k for k, v in STR.items()}
STR_HAS = {901: set(), 902: {"a", "b", "c"}, 903: {"a", "b", "a_b"}}


def check_str_table():
    """reference guard: the substring table of the specification against Python's `in`"""
    for code, text in STR.items():
        for k in KEYS:
            if (k in text) != (k in STR_HAS[code]):
                raise MachineryError("Config!StrHas disagrees with Python: %r in %r" % (k, text))


def to_py(n):
    if n["t"] == "L":
        v = n["v"]
        return STR[v] if isinstance(v, int) and not isinstance(v, bool) and v in STR else v
    f = n["f"]
    return {k: to_py(v) for k, v in f.items()} if isinstance(f, dict) else {}


def _leaf(v):
    if isinstance(v, str):
        return STR_CODE.get(v, 999)      # an unknown text: a number that matches nothing
    return v


def to_tla(x, leaf=_leaf):
    if isinstance(x, dict):
        return {"t": "D", "f": {str(k): to_tla(v, leaf) for k, v in x.items()}}
    return {"t": "L", "v": leaf(x)}


def leaf_repr(v):
    return "%s:%s" % (type(v).__name__, v)


def from_repr(s):
    ty, _, txt = s.partition(":")
    return {"int": int, "str": str, "float": float}[ty](txt)


def norm_keys(x):
    """hyphen spelling everywhere (the documentation leaves the stored spelling of env keys open)"""
    if isinstance(x, dict):
        return {k.replace("_", "-"): norm_keys(v) for k, v in x.items()}
    return x


def alt(k):
    return k.replace("_", "-") if "_" in k else k.replace("-", "_")


# ------------------------------------------------------------------ driving the real code
def build_call(asgs):
    """One set(...) call for a sequence of assignments: the mapping argument first, duplicates of a
    dotted key go to **kwargs (applied after the mapping, in order)."""
    arg, kw = {}, {}
    for a in asgs:
        key, v = ".".join(a["p"]), to_py(a["v"])
        if not kw and key not in arg:
            arg[key] = v
        elif key not in kw:
            kw[key] = v
        else:
            return None
    return arg, kw


def do_set(d, asgs):
    import dask.config as C
    call = build_call(asgs)
    try:
        return C.set(call[0], config=d, **call[1]), None
    except Exception as ex:  # noqa: BLE001 - a raising call is an observation
        return None, ex


def do_exit(obj):
    try:
        obj.__exit__(None, None, None)
        return None
    except Exception as ex:  # noqa: BLE001
        return ex


def do_get(d, path):
    """-> tree of what config.get returns, Leaf(0) when it raises"""
    import dask.config as C
    try:
        return to_tla(copy.deepcopy(C.get(".".join(path), config=d)))
    except Exception:  # noqa: BLE001 - KeyError / TypeError: not found
        return {"t": "L", "v": 0}


def feats(asgs):
    f = []
    ps = [tuple(k.replace("_", "-") for k in a["p"]) for a in asgs]
    if any(("-" in k or "_" in k) for a in asgs for k in a["p"]):
        f.append("twin-spelling")
    if len(set(ps)) < len(ps):
        f.append("duplicate-key")
    if any(p != q and p == q[:len(p)] for p in ps for q in ps):
        f.append("prefix-conflict")
    if any(a["v"]["t"] == "D" for a in asgs):
        f.append("mapping-value")
    if any(a["v"]["t"] == "L" and a["v"]["v"] in STR for a in asgs):
        f.append("text-value")
    return "+".join(f) or "plain"


def replay_state(case):
    """Drive the real set/exit along the canonical history of one TLC state.
    -> list of (clause, signature, detail); [] if the code conforms; [("SKIP", reason, None)] for a don't-care."""
    d = to_py(case["init"])
    snaps, objs = [], []
    cur = case["init"]
    for i, s in enumerate(case["sets"]):
        obj, ex = do_set(d, s["asgs"])
        if ex is not None:
            return [("UnexpectedRaise", "set:UnexpectedRaise:" + feats(s["asgs"]),
                     {"step": i, "raised": repr(ex)[:200], "config": copy.deepcopy(d)})]
        if d != to_py(s["after"]):
            return [("SetResult", "set:SetResult:" + feats(s["asgs"]), {"step": i, "config": copy.deepcopy(d)})]
        snaps.append(cur)
        objs.append(obj)
        cur = s["after"]
    for g in case["g"]:
        got = do_get(d, g["p"])
        if got != _canon(g["r"]):
            fs = feats(case["sets"][-1]["asgs"]) if case["sets"] else "initial"
            return [("GetSeesSet", "get:GetSeesSet:" + fs, {"path": g["p"], "got": got, "config": copy.deepcopy(d)})]
    last = case["last"]
    if last["op"] == "fail":
        obj, ex = do_set(d, last["asgs"])
        if ex is None:
            # The code accepts a call the transcription rejects (dotted path through a scalar).  That is no
            # alarm by itself, but the policy-free clauses still bind: get sees the set values, and leaving
            # the context restores the entry configuration.
            for i in last["vis"]:
                a = last["asgs"][i - 1]
                for p in (a["p"], [alt(k) for k in a["p"]]):
                    got = do_get(d, p)
                    if got != _canon(a["v"]):
                        return [("GetSeesSet", "get:GetSeesSet:set-through-scalar-prefix",
                                 {"path": p, "got": got, "config": copy.deepcopy(d)})]
            ex2 = do_exit(obj)
            if ex2 is not None:
                return [("ExitRaised", "exit:ExitRaised:set-through-scalar-prefix", {"raised": repr(ex2)[:200]})]
            if d != to_py(cur):
                return [("ExitRestores", "exit:ExitRestores:set-through-scalar-prefix",
                         {"config": copy.deepcopy(d), "expected": to_py(cur)})]
        elif d != to_py(cur):
            kept = d == to_py(last["pc"])
            through_text = has_text(cur) or "text-value" in feats(last["asgs"])
            sig = ("set:raise-midway:earlier-assignments-kept" + (":text-scalar-on-the-path" if through_text else "")) if kept \
                else "set:raise:config-changed:" + feats(last["asgs"])
            return [("FailedSetIsAtomic", sig, {"raised": repr(ex)[:200], "config": copy.deepcopy(d)})]
    # leave every context, innermost first
    for i in reversed(range(len(objs))):
        ex = do_exit(objs[i])
        if ex is not None:
            return [("ExitRaised", "exit:ExitRaised:" + feats(case["sets"][i]["asgs"]), {"step": i, "raised": repr(ex)[:200]})]
        if d != to_py(snaps[i]):
            return [("ExitRestores", "exit:ExitRestores:" + feats(case["sets"][i]["asgs"]),
                     {"step": i, "config": copy.deepcopy(d), "expected": to_py(snaps[i])})]
    return []


def has_text(n):
    if n["t"] == "L":
        return n["v"] in STR
    f = n["f"]
    return isinstance(f, dict) and any(has_text(v) for v in f.values())


def _canon(n):
    """TLC prints an empty mapping as [] - normalise trees for comparison"""
    if n["t"] == "L":
        return {"t": "L", "v": n["v"]}
    f = n["f"]
    return {"t": "D", "f": {k: _canon(v) for k, v in f.items()} if isinstance(f, dict) else {}}


def ids_of(x, acc):
    if isinstance(x, dict):
        acc.add(id(x))
        for v in x.values():
            ids_of(v, acc)
    return acc


def env_of(c, rng=None):
    import dask.config as C
    env = {}
    for v in c["vars"]:
        name = "__".join(k.upper() for k in v["p"])
        if rng is not None and rng.random() < 0.5:       # "lower-cases the key text": any case spells the same key
            name = "".join(ch.lower() if rng.random() < 0.5 else ch for ch in name)
        env["DASK_" + name] = RAW[v["raw"]]
    if c["useinh"]:
        inh = to_py(c["inh"])
        env["DASK_INTERNAL_INHERIT_CONFIG"] = C.serialize(_map_leaves(inh, from_repr))
    return env


def _map_leaves(x, fn):
    return {k: _map_leaves(v, fn) for k, v in x.items()} if isinstance(x, dict) else fn(x)


def call_fn(c, rng=None):
    """Run one update / merge / env / roundtrip case on the real code.
    -> dict(raised=bool, res=tree | None, side=clause or None)"""
    import dask.config as C
    fam = c["fam"]
    try:
        if fam == "update":
            old, new = to_py(c["old"]), to_py(c["new"])
            new0 = copy.deepcopy(new)
            defs = None if c["defs"]["t"] == "L" else to_py(c["defs"])
            res = C.update(old, new, priority=c["prio"], defaults=defs)
            side = None
            if res is not old:
                side = "UpdateNotInPlace"
            elif new != new0:
                side = "InputMutated"
            return {"raised": False, "res": to_tla(res), "side": side}
        if fam == "merge":
            ds = [to_py(x) for x in c["ds"]]
            ds0 = copy.deepcopy(ds)
            res = C.merge(*ds)
            side = None
            if ds != ds0:
                side = "InputMutated"
            elif any(ids_of(res, set()) & ids_of(x, set()) for x in ds):
                side = "ResultAliasesInput"
            return {"raised": False, "res": to_tla(res), "side": side}
        if fam == "env":
            res = C.collect_env(env_of(c, rng))
            # don't-care: collect_env also files the DASK_INTERNAL_INHERIT_CONFIG variable itself under
            # 'internal_inherit_config' (harmless, nothing documented either way) - not part of the projection
            res.pop("internal_inherit_config", None)
            return {"raised": False, "res": to_tla(norm_keys(res), leaf_repr), "side": None}
        if fam == "roundtrip":
            t = to_py(c["t"])
            return {"raised": False, "res": to_tla(C.deserialize(C.serialize(t))), "side": None}
    except Exception as ex:  # noqa: BLE001
        return {"raised": True, "res": None, "side": None, "exc": repr(ex)[:200]}
    raise MachineryError("unknown family %r" % fam)


def fn_class(c):
    if c["fam"] == "update":
        return "update:%s" % c["prio"]
    return c["fam"]


def judge_fn(c, e, rng=None):
    if e["dc"]:
        return [("SKIP", "update: scalar-vs-mapping conflict under priority != 'new' (precedence unspecified)", None)]
    o = call_fn(c, rng)
    if o["raised"]:
        return [("UnexpectedRaise", fn_class(c) + ":UnexpectedRaise", o)]
    if o["res"] != _canon(e["res"]):
        return [("Result", fn_class(c) + ":Result", o)]
    if o["side"]:
        return [(o["side"], fn_class(c) + ":" + o["side"], o)]
    return []


def _work(item):
    kind, case = item
    if kind == "state":
        return replay_state(case)
    return judge_fn(case["c"], case["e"])


# ------------------------------------------------------------------ code -> spec recording
def rand_tree(rng, depth, keys=KEYS, pleaf=0.5, val=lambda rng: rng.randint(1, 3)):
    d, used = {}, set()
    for _ in range(rng.randint(0, 3)):
        k = rng.choice(keys)
        if k.replace("_", "-") in used:
            continue
        used.add(k.replace("_", "-"))
        d[k] = val(rng) if depth <= 1 or rng.random() < pleaf else rand_tree(rng, depth - 1, keys, pleaf, val)
    return d


def rand_path(rng, d=None):
    """a dotted path; biased towards places that exist in d (in either spelling); runs through an
    existing scalar (a call that must raise) only now and then"""
    p = []
    for _ in range(rng.choice([1, 1, 2, 2, 3])):
        if d is not None and not isinstance(d, dict) and rng.random() < (0.5 if isinstance(d, str) else 0.9):
            break
        if isinstance(d, dict) and d and rng.random() < 0.6:
            k = rng.choice(sorted(d))
            nxt = d[k]
            if rng.random() < 0.4:
                k = alt(k)
            d = nxt
        else:
            k = rng.choice(KEYS)
            d = d.get(k, d.get(alt(k), {})) if isinstance(d, dict) else None
        p.append(k)
    return p or [rng.choice(KEYS)]


def _hist_val(rng):
    return rng.choice(sorted(STR_CODE)) if rng.random() < 0.25 else rng.randint(1, 3)


def record_history(rng, rid):
    d = rand_tree(rng, 3, val=_hist_val)
    init = to_tla(copy.deepcopy(d))
    ev, objs, counter = [], [], [100]

    def probes(extra):
        ps = [rand_path(rng, d) for _ in range(4)] + extra
        ps += [[alt(k) for k in p] for p in extra]
        return [{"p": p, "r": do_get(d, p)} for p in ps]

    for _ in range(rng.randint(4, 14)):
        if objs and (len(objs) >= 5 or rng.random() < 0.4):
            ex = do_exit(objs.pop())
            ev.append({"op": "exit", "raised": ex is not None, "cfg": to_tla(copy.deepcopy(d)), "g": probes([])})
            if ex is not None:
                return {"id": rid, "kind": "hist", "init": init, "ev": ev}
            continue
        asgs = []
        for _ in range(rng.choice([1, 1, 2, 2, 3])):
            counter[0] += 1
            r_ = rng.random()
            v = counter[0] if r_ < 0.75 else rng.choice(sorted(STR_CODE)) if r_ < 0.88 else {"b": counter[0], "c_d": counter[0] + 500}
            p = rand_path(rng, d)
            if asgs and rng.random() < 0.2:
                p = list(asgs[-1]["p"]) if rng.random() < 0.5 else [alt(k) for k in asgs[-1]["p"]]
            asgs.append({"p": p, "v": to_tla(v)})
        if build_call(asgs) is None:
            continue
        obj, ex = do_set(d, asgs)
        e = {"op": "set", "asgs": asgs, "raised": ex is not None, "cfg": to_tla(copy.deepcopy(d)),
             "g": [] if ex is not None else probes([a["p"] for a in asgs])}
        ev.append(e)
        if ex is not None:
            return {"id": rid, "kind": "hist", "init": init, "ev": ev}      # the history ends at a raising call
        objs.append(obj)
    while objs:
        ex = do_exit(objs.pop())
        ev.append({"op": "exit", "raised": ex is not None, "cfg": to_tla(copy.deepcopy(d)), "g": probes([])})
        if ex is not None:
            break
    return {"id": rid, "kind": "hist", "init": init, "ev": ev}


def respell(x, rng, hyphen):
    if isinstance(x, dict):
        return {(k.replace("_", "-") if hyphen else k.replace("-", "_")) if rng.random() < 0.7 else k: respell(v, rng, hyphen)
                for k, v in x.items()}
    return x


def record_fn(rng, rid):
    r = rng.random()
    if r < 0.55:
        old = respell(rand_tree(rng, 3), rng, False)
        new = respell(rand_tree(rng, 3, val=lambda r: r.randint(11, 13)), rng, True)
        prio = rng.choice(["new", "old", "new-defaults"])
        defs = {"t": "L", "v": 0}
        if prio == "new-defaults":
            m = rng.random()
            mutate = lambda x: ({k: mutate(v) for k, v in x.items() if rng.random() < 0.9} if isinstance(x, dict)
                                else (x if rng.random() < 0.6 else x + 10))
            defs = to_tla(mutate(old)) if m < 0.8 else defs
        c = {"fam": "update", "old": to_tla(old), "new": to_tla(new), "prio": prio, "defs": defs}
    elif r < 0.75:
        c = {"fam": "merge", "ds": [to_tla(rand_tree(rng, 3)) for _ in range(rng.randint(0, 4))]}
    elif r < 0.9:
        vars_, seen = [], []
        for _ in range(rng.randint(0, 4)):
            p = [k for k in rand_path(rng)]
            n = tuple(k.replace("_", "-") for k in p)
            if any(n[:len(q)] == q or q[:len(n)] == n for q in seen):
                continue
            seen.append(n)
            vars_.append({"p": p, "raw": rng.choice(sorted(RAW))})
        c = {"fam": "env", "vars": vars_, "inh": {"t": "D", "f": {}}, "useinh": False}
    else:
        c = {"fam": "roundtrip", "t": to_tla(rand_tree(rng, 3))}
    o = call_fn(c, rng)
    rec = dict(c)
    rec.update({"id": rid, "kind": c["fam"], "raised": o["raised"], "res": o["res"] if o["res"] is not None else {"t": "L", "v": 0}})
    return rec, o


def sig_of_reject(rec, clause):
    if rec["kind"] == "hist":
        if clause == "FailedSetKeepsEarlierAssignments":
            return "set:raise-midway:earlier-assignments-kept"
        return "history:%s" % clause
    return "%s:%s" % (fn_class({"fam": rec["kind"], "prio": rec.get("prio")}), clause)


def first_clause(text):
    return text.strip("{}\" ").split('"')[0] or "Rejected"


# ------------------------------------------------------------------ TLC runs
INVS = ["AllExitedRestores", "CanonicalFirstWins", "SnapshotsChain"]
PROPS = ["ExitRestores", "ExitNeverRaises", "FailedSetIsAtomic", "FailedRollbackNeverRaises", "GetSeesSet"]
FN_INVS = ["UpdateObeysContract", "NewDefaultsRule", "MergeRule", "EnvRule"]
SMALL_PATHS = '{<<"a">>, <<"a", "b">>, <<"a", "b", "c">>, <<"a-b">>, <<"a_b">>, <<"a_b", "b">>, <<"a", "a-b">>}'
TINY_PATHS = '{<<"a">>, <<"a", "b">>, <<"a-b">>, <<"a_b">>, <<"a_b", "b">>}'
TEXT_PATHS = '{<<"a">>, <<"a", "b">>, <<"a", "a-b">>, <<"c">>}'


LEAF, TEXT, DICT = '{"leaf"}', '{"leaf", "strz", "stra"}', '{"leaf", "dict"}'


def mc_cases(ctx, paths, maxasg, depth, shapes, label, export=True, timeout=1500):
    spec, cfg = _model_mc(ctx, paths, maxasg, depth, shapes, export)
    if not export:
        ctx.tlc(spec, cfg, label=label, timeout=timeout)
        return []
    cases, _ = ctx.tlc_cases(spec, cfg, label=label, timeout=timeout)
    return cases


def fn_cases(ctx, vals, label, fam="all"):
    spec, cfg = ctx.model(ctx.spec("sched", "ConfigFnMC.tla"), {"Fam": fam, "Vals": TLA(vals)}, invariants=FN_INVS)
    cases, _ = ctx.tlc_cases(spec, cfg, label=label, timeout=1500)
    return cases


def judge_all(items, report, skip, count):
    """items: list of ("state"|"fn", case).  Shared by run() and selftest()."""
    # ~0.25 ms per case.  Serial on purpose: handing the cases to forked workers costs more than it saves
    # (pickling them, or - when inherited - copy-on-write of the whole case list through reference counts).
    results = [_work(x) for x in items]
    for (kind, case), res in zip(items, results):
        if kind == "state":
            key = ("state", case["init"], [s["asgs"] for s in case["sets"]], case["last"])
            nontrivial = bool(case["sets"]) or case["last"]["op"] == "fail"
        else:
            key = ("fn", case["c"])
            nontrivial = True
        for clause, sig, detail in res:
            if clause == "SKIP":
                skip(sig)
        if any(r[0] == "SKIP" for r in res):
            continue
        count(key, nontrivial)
        for clause, sig, detail in res:
            report(sig, "%s: dask.config disagrees with the specification" % clause,
                   {"kind": kind, "case": case, "clause": clause, "observed": detail})


def validate_records(ctx, recs, report):
    spec, cfg = ctx.model(ctx.spec("sched", "ConfigTrace.tla"), {})
    for lo in range(0, len(recs), 10000):
        part = recs[lo:lo + 10000]
        rej = ctx.tlc_validate(spec, part, cfg, timeout=2400)
        byid = {r["id"]: r for r in part}
        for rid, clauses in rej.items():
            cl = first_clause(clauses[0])
            report(sig_of_reject(byid[rid], cl), "TLC rejects a recorded %s (%s)" % (byid[rid]["kind"], clauses[0]),
                   {"kind": "record", "record": byid[rid], "clauses": clauses})


def record_all(ctx, nh, nf, report):
    recs = []
    for i in range(nh):
        r = record_history(ctx.rng, "h%d" % i)
        recs.append(r)
        nsets = sum(1 for e in r["ev"] if e["op"] == "set")
        ctx.count(("hist", r["init"], [e.get("asgs") for e in r["ev"]]), nsets >= 1)
    for i in range(nf):
        r, o = record_fn(ctx.rng, "f%d" % i)
        recs.append(r)
        ctx.count(("fnrec", {k: v for k, v in r.items() if k != "id"}), True)
        if o.get("side"):
            report(fn_class(r) + ":" + o["side"], o["side"] + " in a recorded call", {"kind": "record", "record": r})
    return recs


def _model_mc(ctx, paths, maxasg, depth, shapes, export=True, record_first=None, invariants=INVS):
    consts = {"Inits": TLA("StdInits"), "Paths": TLA(paths), "MaxAsg": maxasg, "MaxDepth": depth,
              "ValShapes": TLA(shapes), "Export": export}
    if record_first is not None:          # override the definition Config!RecordFirst (spec-level mutant)
        consts["RecordFirst"] = record_first
    return ctx.model(ctx.spec("sched", "ConfigMC.tla"), consts, invariants=invariants, properties=PROPS)


def run(ctx):
    from concurrent.futures import ThreadPoolExecutor
    check_str_table()
    if ctx.quick:
        runs = [(SMALL_PATHS, 2, 2, LEAF, "design+states: 2 assignments/call, nesting 2"),
                ("StdPaths", 1, 3, LEAF, "design+states: 1 assignment/call, nesting 3"),
                (TINY_PATHS, 2, 1, TEXT, "design+states: text values, 2 assignments/call, nesting 1")]
        cap = 40000
    else:
        runs = [("StdPaths", 2, 2, LEAF, "design+states: 2 assignments/call, nesting 2"),
                ("StdPaths", 1, 4, LEAF, "design+states: 1 assignment/call, nesting 4"),
                (TINY_PATHS, 2, 2, DICT, "design+states: mapping values, 2 assignments/call, nesting 2"),
                (TEXT_PATHS, 2, 2, TEXT, "design+states: text values, 2 assignments/call, nesting 2"),
                ("StdPaths", 1, 2, TEXT, "design+states: text values, 1 assignment/call, nesting 2"),
                (TINY_PATHS, 2, 3, LEAF, "design+states: 2 assignments/call, nesting 3")]
        cap = 60000
    # code -> spec recording first (pure Python, seeded), then all TLC runs side by side
    side = []
    recs = record_all(ctx, ctx.pick(1500, 20000), ctx.pick(1500, 20000), lambda *a: side.append(a))
    jobs = []
    for paths, ma, depth, dv, label in runs:
        spec, cfg = _model_mc(ctx, paths, ma, depth, dv)
        jobs.append(("states", lambda spec=spec, cfg=cfg, label=label: ctx.tlc_cases(spec, cfg, label=label, timeout=2400)[0]))
    if not ctx.quick:      # design check only (no export), one level deeper than what is replayed
        spec, cfg = _model_mc(ctx, "StdPaths", 1, 5, LEAF, export=False)
        jobs.append(("design", lambda spec=spec, cfg=cfg: ctx.tlc(spec, cfg, label="design only: 1 assignment/call, nesting 5", timeout=2400)))
    spec, cfg = ctx.model(ctx.spec("sched", "ConfigFnMC.tla"), {"Fam": "all", "Vals": TLA(ctx.pick("{1}", "{1, 2}"))}, invariants=FN_INVS)
    jobs.append(("fn", lambda spec=spec, cfg=cfg: ctx.tlc_cases(spec, cfg, label="design+cases: update/merge/env/roundtrip", timeout=2400)[0]))
    rejected = []
    jobs.append(("trace", lambda: validate_records(ctx, recs, lambda *a: rejected.append(a))))
    with ThreadPoolExecutor(len(jobs)) as ex:
        futs = [(kind, ex.submit(fn)) for kind, fn in jobs]
        results = [(kind, f.result()) for kind, f in futs]
    items, nstates, nfn, sampled = [], 0, 0, False
    for kind, res in results:
        if kind == "states":
            nstates += len(res)
            if len(res) > cap:
                sampled, res = True, ctx.rng.sample(res, cap)
            items += [("state", c) for c in res]
        elif kind == "fn":
            nfn = len(res)
            fcap = ctx.pick(15000, 150000)
            if len(res) > fcap:
                sampled, res = True, ctx.rng.sample(res, fcap)
            items += [("fn", c) for c in res]
    judge_all(items, ctx.violation, ctx.skip, ctx.count)
    for a in side + rejected:
        ctx.violation(*a)
    for kind in ("state", "fn"):
        ex = [c for k, c in items if k == kind]
        if ex:
            ctx.sample({kind: ex[len(ex) // 2]})
    ctx.sample({"recorded_history": recs[0]})
    ctx.exhaustive = not sampled
    ctx.rule = ("cases = TLC graph states (canonical set-history + raising call, each replayed forth and back through every "
                "exit) + TLC-enumerated update/merge/env/roundtrip cases + recorded random histories/calls; non-trivial = at "
                "least one set call; distinct by full case content")
    ctx.extra["states_enumerated_by_tlc"] = nstates
    ctx.extra["fn_cases_enumerated_by_tlc"] = nfn
    ctx.assumptions = ["the private dict is the only state of dask.config.set (dict order is not observable by the API)",
                       "TLC evaluates the specification correctly", "key universe with fixed hyphen/underscore twins"]


def replay(ctx, obj):
    c = obj["case"]
    if c["kind"] == "record":
        spec, cfg = ctx.model(ctx.spec("sched", "ConfigTrace.tla"), {})
        rej = ctx.tlc_validate(spec, [c["record"]], cfg)
        print("recorded:", c["record"], "\nrejected:", rej)
        print("(the record is re-validated as recorded; re-record with the same seed to re-execute)")
        return bool(rej)
    res = _work((c["kind"], c["case"]))
    res = [r for r in res if r[0] != "SKIP"]
    print("case:", c["case"], "\nresult:", res)
    return bool(res)


# ------------------------------------------------------------------ selftest
def selftest(ctx):
    import dask.config as C
    ok = True
    check_str_table()
    states = mc_cases(ctx, TINY_PATHS, 2, 2, LEAF, "selftest states")
    states = ctx.rng.sample(states, min(len(states), 5000))
    tstates = mc_cases(ctx, TINY_PATHS, 2, 1, TEXT, "selftest states, text values")
    states += ctx.rng.sample(tstates, min(len(tstates), 3000))
    fns = fn_cases(ctx, "{1}", "selftest fn cases")
    fns = ctx.rng.sample(fns, min(len(fns), 4000))
    items = [("state", c) for c in states] + [("fn", c) for c in fns]

    def violations():
        out = []
        judge_all(items, lambda sig, what, rp: out.append(sig), lambda r: None, lambda k, n: None)
        return out

    base = violations()
    print("selftest baseline (unchanged tree): %d unexpected violations %s" % (len(base), sorted(set(base))[:3]))
    ok &= not base

    orig_exit, orig_canon, orig_assign, orig_update, orig_interp = C.set.__exit__, C.canonical_name, C.set._assign, C.update, C.collect_env
    orig_init = C.set.__init__

    def exit_forward(self, type, value, traceback):       # mutant 1: record replayed forwards (dropped reversed())
        for op, path, value in self._record:
            d = self.config
            if op == "replace":
                for key in path[:-1]:
                    d = d.setdefault(key, {})
                d[path[-1]] = value
            else:
                for key in path[:-1]:
                    try:
                        d = d[key]
                    except KeyError:
                        break
                else:
                    d.pop(path[-1], None)

    def canon_nofallback(k, config):                       # mutant 2: the other spelling is not looked up
        return k

    def assign_always_insert(self, keys, value, d, path=(), record=True):   # mutant 3: leaf always recorded as insert
        key = C.canonical_name(keys[0], d)
        path = path + (key,)
        if len(keys) == 1:
            entry = ("insert", path, None)
            d[key] = value
            if record:
                self._record.append(entry)
        else:
            if key not in d:
                d[key] = {}
                if record:
                    self._record.append(("insert", path, None))
                record = False
            self._assign(keys[1:], value, d[key], path, record=record)

    def assign_raw_key(self, keys, value, d, path=(), record=True):  # mutant 4: wrong operand: the raw key goes into the path
        key = C.canonical_name(keys[0], d)
        path = path + (keys[0],)
        if len(keys) == 1:
            entry = ("replace", path, d[key]) if key in d else ("insert", path, None)
            d[key] = value
            if record:
                self._record.append(entry)
        else:
            if key not in d:
                d[key] = {}
                if record:
                    self._record.append(("insert", path, None))
                record = False
            self._assign(keys[1:], value, d[key], path, record=record)

    def assign_record_first(self, keys, value, d, path=(), record=True):   # mutant 7: dask before 52c0f2a - undo entry appended BEFORE the assignment
        key = C.canonical_name(keys[0], d)
        path = path + (key,)
        if len(keys) == 1:
            if record:
                if key in d:
                    self._record.append(("replace", path, d[key]))
                else:
                    self._record.append(("insert", path, None))
            d[key] = value
        else:
            if key not in d:
                if record:
                    self._record.append(("insert", path, None))
                d[key] = {}
                record = False
            self._assign(keys[1:], value, d[key], path, record=record)

    def assign_overwrites_scalar(self, keys, value, d, path=(), record=True):   # mutant 9: update()'s rule for placeholders, undo entry still "insert"
        key = C.canonical_name(keys[0], d)
        path = path + (key,)
        if len(keys) == 1:
            entry = ("replace", path, d[key]) if key in d else ("insert", path, None)
            d[key] = value
            if record:
                self._record.append(entry)
        else:
            if key not in d or d[key] is None or not isinstance(d[key], dict):
                d[key] = {}
                if record:
                    self._record.append(("insert", path, None))
                record = False
            self._assign(keys[1:], value, d[key], path, record=record)

    def init_no_rollback(self, arg=None, config=None, lock=C.config_lock, **kwargs):   # mutant 8: dask before 485c550 - no rollback when an assignment raises
        if config is None:
            config = C.global_config
        with lock:
            self.config = config
            self._record = []
            if arg is not None:
                for key, value in arg.items():
                    key = C.check_deprecations(key)
                    self._assign(key.split("."), value, config)
            if kwargs:
                for key, value in kwargs.items():
                    key = C.check_deprecations(key.replace("__", "."))
                    self._assign(key.split("."), value, config)

    def update_old_loses(old, new, priority="new", defaults=None):           # mutant 5: priority='old' overwrites scalars
        for k, v in new.items():
            k = C.canonical_name(k, old)
            if isinstance(v, C.Mapping):
                if k not in old or old[k] is None or not isinstance(old[k], dict):
                    old[k] = {}
                update_old_loses(old[k], v, priority=priority, defaults=defaults.get(k) if defaults else None)
            elif (priority in ("new", "old") or k not in old
                  or (priority == "new-defaults" and defaults and k in defaults and defaults[k] == old[k])):
                old[k] = v
        return old

    def collect_env_nolower(env=None):                                       # mutant 6: names are not lower-cased
        d = {}
        for name, value in env.items():
            if name.startswith("DASK_"):
                d[name[5:].replace("__", ".")] = C.interpret_value(value)
        result = {}
        C.set(d, config=result)
        return result

    mutants = [("set.__exit__ replays the record forwards", "__exit__", exit_forward),
               ("canonical_name ignores the other spelling", "canonical_name", canon_nofallback),
               ("_assign records every leaf as insert", "_assign", assign_always_insert),
               ("_assign records the raw instead of the canonical key", "_assign", assign_raw_key),
               ("_assign appends the undo entry before the assignment (pre-52c0f2a)", "_assign", assign_record_first),
               ("set.__init__ does not roll back when an assignment raises (pre-485c550)", "__init__", init_no_rollback),
               ("_assign overwrites a scalar prefix with a section but records an insert", "_assign", assign_overwrites_scalar),
               ("update(priority='old') overwrites existing scalars", "update", update_old_loses),
               ("collect_env does not lower-case names", "collect_env", collect_env_nolower)]
    for name, where, fn in mutants:
        try:
            if where in ("__exit__", "_assign", "__init__"):
                setattr(C.set, where, fn)
            else:
                setattr(C, where, fn)
            v = violations()
        finally:
            C.set.__exit__, C.canonical_name, C.set._assign, C.update, C.collect_env = orig_exit, orig_canon, orig_assign, orig_update, orig_interp
            C.set.__init__ = orig_init
        print("selftest mutant [%s]: %s (%d violations, e.g. %s)" % (name, "DETECTED" if v else "MISSED", len(v), sorted(set(v))[:2]))
        ok &= bool(v)

    # the pre-52c0f2a order must be recognisable by the text-scalar cases alone (number prefixes never showed it)
    try:
        C.set._assign = assign_record_first
        v = [x for x in violations() if "text-scalar-on-the-path" in x]
    finally:
        C.set._assign = orig_assign
    print("selftest mutant [pre-52c0f2a order] caught through a text scalar on the path: %s (%d)" % ("YES" if v else "NO", len(v)))
    ok &= bool(v)

    # specification-level mutant: a model that appends the undo entry first must violate FailedSetIsAtomic
    spec, cfg = _model_mc(ctx, TINY_PATHS, 2, 1, TEXT, export=False, record_first=True, invariants=[])
    r = ctx.tlc(spec, cfg, label="selftest: RecordFirst model", allow_violation=True)
    bad = [x for x in r.violated if x in ("FailedSetIsAtomic", "FailedRollbackNeverRaises")]
    print("selftest spec mutant [Config!RecordFirst = TRUE]: TLC %s %s" % ("REFUTES" if bad else "accepts", r.violated))
    ok &= bool(bad)

    # anchors: the in-memory mutants above are copies of the code with one slip - the originals must still look like this
    import inspect
    src = inspect.getsource(C.set)
    anchors = ["for op, path, value in reversed(self._record):", "key = canonical_name(keys[0], d)", "path = path + (key,)",
               'entry = ("replace", path, d[key])', 'entry = ("insert", path, None)', "self._record.append(entry)",
               "self.__exit__(None, None, None)", "d.pop(path[-1], None)", "d = d.setdefault(key, {})"]
    missing = [a_ for a_ in anchors if a_ not in src]
    print("selftest anchors in dask/config.py (class set): %s %s" % ("all %d present" % len(anchors) if not missing else "MISSING", missing))
    ok &= not missing

    # code -> spec: corrupted / dropped events must be rejected, the untouched record accepted
    rng = ctx.rng
    good = None
    for i in range(200):
        r = record_history(rng, "good")
        kinds = [e["op"] for e in r["ev"]]
        if kinds.count("set") >= 2 and kinds.count("exit") >= 2 and not any(e["raised"] for e in r["ev"]):
            good = r
            break
    if good is None:
        raise MachineryError("selftest: no suitable history recorded")
    bad1 = copy.deepcopy(good)
    bad1["id"] = "corrupt-cfg"
    e = [x for x in bad1["ev"] if x["op"] == "set"][0]
    e["cfg"]["f"]["zz"] = {"t": "L", "v": 7}
    bad2 = copy.deepcopy(good)
    bad2["id"] = "dropped-event"
    idx = [i for i, x in enumerate(bad2["ev"]) if x["op"] == "set"][0]
    del bad2["ev"][idx]
    bad3 = copy.deepcopy(good)
    bad3["id"] = "corrupt-get"
    e = [x for x in bad3["ev"] if x["op"] == "set" and x["g"]][0]
    e["g"][-1]["r"] = {"t": "L", "v": 424242}
    fr = None
    while fr is None or fr["kind"] != "update" or fr["raised"]:
        fr, _ = record_fn(rng, "fgood")
    fbad = copy.deepcopy(fr)
    fbad["id"] = "corrupt-res"
    fbad["res"] = {"t": "D", "f": {"zz": {"t": "L", "v": 1}}}
    spec, cfg = ctx.model(ctx.spec("sched", "ConfigTrace.tla"), {})
    rej = ctx.tlc_validate(spec, [good, bad1, bad2, bad3, fr, fbad], cfg)
    for rid, want in (("good", False), ("corrupt-cfg", True), ("dropped-event", True), ("corrupt-get", True),
                      ("fgood", False), ("corrupt-res", True)):
        got = rid in rej
        print("selftest trace [%s]: %s %s" % (rid, "rejected" if got else "accepted", rej.get(rid, "")))
        ok &= got == want
    print("selftest C17:", "OK" if ok else "FAILED")
    return 0 if ok else 1
