------------------------------ MODULE Divisions ------------------------------
(* Contracts about the divisions of dask dataframes (Pattern B: the output
   relation of an algorithm, every freedom the property leaves is left free).

     C45  division planning: sorted_division_locations, quantile divisions
     C44  repartition / from_pandas: same rows, same order, requested layout
     C41  known divisions describe the partitions truthfully

   Pure definitions.  Every contract is an operator returning the SET OF NAMES
   of the clauses that fail (so {} = contract met); the trace specification
   DivisionsTrace evaluates them on call records of the real code, the
   model-checking modules (DivisionLocations, DivisionsMC, TruthMC) on the specification's
   own transcriptions / references (design check).

   Index labels are small integers (the harness maps real labels - ints,
   floats, strings, timestamps - to their rank); NA is the sentinel of Frames. *)
EXTENDS Frames

Viol(name, holds) == IF holds THEN {} ELSE {name}

NDistinct(s) == Cardinality(SeqSet(s))

-----------------------------------------------------------------------------
(* C45 - sorted_division_locations(seq, npartitions | chunksize)
         -> (divisions, locations)            dask/dataframe/io/io.py

   seq   : non-empty, non-decreasing sequence of labels (1-based here;
           locations are the 0-based Python positions, so Python's seq[l] is
           seq[l + 1] below)
   mode  : "n" (npartitions = k) or "c" (chunksize = k), k >= 1

   The property demands exactly this and nothing about *where* the cuts fall:
     Shape      one division per location, at least the two end points
     Span       locations run from 0 to Len(seq)
     Increasing locations strictly increase (no empty partition)
     DivAtLoc   every division is the label at its location; the last one is
                the last label
     NoSplit    equal labels never straddle a boundary
     ExactN     with npartitions = k and at least k distinct labels there are
                exactly k partitions                                           *)
DivLocBad(seq, mode, k, divs, locs) ==
  LET n  == Len(seq)
      m  == Len(locs)
      in(l) == l \in 0..(n - 1)
  IN IF ~(m >= 2 /\ Len(divs) = m) THEN {"Shape"}
     ELSE Viol("Span", locs[1] = 0 /\ locs[m] = n)
          \cup Viol("Increasing", StrictlyIncreasing(locs))
          \cup Viol("DivAtLoc", /\ \A j \in 1..(m - 1) : in(locs[j]) /\ divs[j] = seq[locs[j] + 1]
                                /\ divs[m] = seq[n])
          \cup Viol("NoSplit", \A j \in 2..(m - 1) : (locs[j] \in 1..(n - 1)) => seq[locs[j]] # seq[locs[j] + 1])
          \cup Viol("ExactN", (mode = "n" /\ NDistinct(seq) >= k) => m - 1 = k)

(* C45 - quantile divisions for set_index (partitionquantiles.process_val_weights,
   RepartitionQuantiles, _calculate_divisions): `data` is the multiset of values
   the divisions were computed from (any order), `divs` the result.            *)
QuantileBad(data, divs) ==
  IF Len(divs) < 2 THEN {"Shape"}
  ELSE Viol("NonDecreasing", NonDecreasing(divs))
       \cup Viol("FirstIsMin", divs[1] = Min(SeqSet(data)))
       \cup Viol("LastIsMax", divs[Len(divs)] = Max(SeqSet(data)))

-----------------------------------------------------------------------------
(* C44 - repartition / from_pandas keep the rows, their order and the requested
   layout.

   A case is   src : partitioned frame (the collection the operation is applied to;
                     known divisions of a source are truthful - precondition)
               arg : the request
                     [k |-> "n", n |-> 3]                         repartition(npartitions = 3)
                     [k |-> "d", d |-> <<0, 2, 3>>, force |-> F]  repartition(divisions = .., force = ..)
                     [k |-> "size", bytes |-> 40]                 repartition(partition_size = 40)
   An OBSERVATION of the result (harness.frameobs.observe) is
               [raised  |-> "" or the exception name,
                nparts  |-> declared .npartitions,
                ndivs   |-> Len(.divisions)   (also when they are unknown),
                divs    |-> .divisions, <<>> when unknown,
                parts   |-> rows of every partition, each computed through its own key,
                wholeok |-> compute() of the whole = concatenation of the partitions]

   What the property states and nothing else (the size of the individual
   partitions, whether divisions stay known, key names ... are left free):
     Raised      a legal request must not raise
     SameRows    the same row ids in the same order
     LabelsKept  every row keeps its index label
     ExactN      npartitions = n  ->  exactly n partitions are computed
     DeclaredN   ... and .npartitions says n
     ExactDivs   divisions = d    ->  .divisions is exactly d, Len(d) - 1 partitions
     Meta        .npartitions = number of computed partitions = Len(.divisions) - 1
     Truthful    known result divisions describe the computed partitions (C41)
     WholeOK     compute() agrees with the partitions
   An illegal divisions request (unknown source divisions, d unsorted or with
   duplicates before the last entry, d not matching / not covering the source's
   outer divisions) is outside the property: raising is fine; but if it is accepted
   silently the result must still meet the contract, else "IllegalAccepted".    *)

SrcOf(idx, layout, sdivs) == [parts |-> SplitBySizes(FrameOfIdx(idx), layout), divs |-> sdivs]

\* dask.dataframe.core.check_divisions + the outer-division rules of RepartitionDivisions
WellFormedDivs(d) == /\ Len(d) >= 2
                     /\ NonDecreasing(d)
                     /\ StrictlyIncreasing(SubSeq(d, 1, Len(d) - 1))
LegalDivs(src, d, force) ==
  /\ KnownDivs(src)
  /\ WellFormedDivs(d)
  /\ LET a == src.divs IN
     IF force THEN d[1] <= a[1] /\ a[Len(a)] <= d[Len(d)]
              ELSE d[1] = a[1] /\ a[Len(a)] = d[Len(d)]

ObsRows(obs)       == ConcatParts(obs.parts)
ObsLabelParts(obs) == [i \in DOMAIN obs.parts |-> Idxs(obs.parts[i])]

RowsBad(rows, obs) ==
  Viol("SameRows", SameRowSeq(rows, ObsRows(obs)))
  \cup Viol("LabelsKept", LabelsKept(rows, ObsRows(obs)))

MetaBad(obs) ==
  Viol("Meta", obs.nparts = Len(obs.parts) /\ obs.ndivs = obs.nparts + 1)
  \cup Viol("Truthful", obs.divs # <<>> => DivisionsTruthful(obs.divs, ObsLabelParts(obs)))
  \cup Viol("WholeOK", obs.wholeok)

RepartContract(src, arg, obs) ==
  RowsBad(Rows(src), obs) \cup MetaBad(obs)
  \cup (CASE arg.k = "n" -> Viol("ExactN", Len(obs.parts) = arg.n) \cup Viol("DeclaredN", obs.nparts = arg.n)
          [] arg.k = "d" -> Viol("ExactDivs", obs.divs = arg.d /\ Len(obs.parts) = Len(arg.d) - 1)
          [] OTHER       -> {})

RepartLegal(src, arg) == arg.k = "d" => LegalDivs(src, arg.d, arg.force)

RepartBad(src, arg, obs) ==
  IF RepartLegal(src, arg)
  THEN IF obs.raised # "" THEN {"Raised"} ELSE RepartContract(src, arg, obs)
  ELSE IF obs.raised # "" THEN {}
       ELSE IF RepartContract(src, arg, obs) = {} THEN {} ELSE {"IllegalAccepted"}

(* from_pandas(frame, npartitions = v | chunksize = v, sort): idx = the labels of
   the pandas frame in row order (row i has rid i - 1).  With sort = TRUE and an
   index that is not already monotonic the rows come out sorted by label (order
   among equal labels is not promised: pandas' default sort is not stable);
   otherwise in their original order.  The number of partitions is NOT promised
   ("npartitions ... may be fewer"); known divisions must be truthful.          *)
FromPandasBad(idx, arg, obs) ==
  LET rows == FrameOfIdx(idx)
      out  == ObsRows(obs)
  IN IF obs.raised # "" THEN {"Raised"}
     ELSE (IF arg.sort /\ ~NonDecreasing(idx)
           THEN Viol("SameRows", SameRowBag(rows, out)) \cup Viol("Sorted", SortedByIdx(out))
           ELSE Viol("SameRows", SameRowSeq(rows, out)))
          \cup Viol("LabelsKept", LabelsKept(rows, out))
          \cup MetaBad(obs)

(* Reference outcomes (one admissible result each) used by the design check of
   DivisionsMC: if the contract rejected them it would be over-strict.         *)
EvenSizes(n, m) == [i \in 1..m |-> (n \div m) + (IF i <= n % m THEN 1 ELSE 0)]
MkObs(parts, divs) == [raised |-> "", nparts |-> Len(parts), ndivs |-> Len(parts) + 1, divs |-> divs,
                       parts |-> parts, wholeok |-> TRUE]
RefRepartN(src, n) == MkObs(SplitBySizes(Rows(src), EvenSizes(Len(Rows(src)), n)), <<>>)
RefRepartD(src, d) ==
  MkObs([i \in 1..(Len(d) - 1) |-> SelectSeq(Rows(src), LAMBDA r : InDivision(d, i, r.idx))], d)
RefRepart(src, arg) == CASE arg.k = "n" -> RefRepartN(src, arg.n)
                         [] arg.k = "d" -> RefRepartD(src, arg.d)
                         [] OTHER       -> MkObs(src.parts, src.divs)
RefFromPandas(idx, arg) ==
  LET rows == IF arg.sort THEN StableSortByIdx(FrameOfIdx(idx)) ELSE FrameOfIdx(idx)
  IN MkObs(<<rows>>, IF SortedByIdx(rows) THEN <<rows[1].idx, rows[Len(rows)].idx>> ELSE <<>>)

-----------------------------------------------------------------------------
(* C41 - known divisions always describe the partitions truthfully.

   Evaluated on an observation (see C44) of ANY collection, whatever program
   produced it.  The property only speaks about collections that report known
   divisions; a collection with unknown divisions, or an operation that raised,
   is not judged here.
     NPartitions  .npartitions = Len(.divisions) - 1 = number of partitions computed
     DivsSorted   divisions are non-decreasing
     InRange      every label of partition i lies in [d_i, d_i+1), the last
                  partition's in the closed interval
     InOrder      the partitions appear in index order: no label of an earlier
                  partition is greater than a label of a later one              *)
LabelsInOrder(lp) ==
  \A i \in DOMAIN lp : \A k \in DOMAIN lp : i < k =>
     \A x \in DOMAIN lp[i] : \A y \in DOMAIN lp[k] : lp[i][x] <= lp[k][y]

TruthBad(obs) ==
  IF obs.raised # "" \/ obs.divs = <<>> THEN {}
  ELSE LET lp == ObsLabelParts(obs) IN
       Viol("NPartitions", obs.nparts = Len(obs.divs) - 1 /\ Len(obs.parts) = obs.nparts /\ obs.ndivs = Len(obs.divs))
       \cup Viol("DivsSorted", NonDecreasing(obs.divs))
       \cup Viol("InRange", Len(lp) = Len(obs.divs) - 1 =>
                              \A i \in DOMAIN lp : \A j \in DOMAIN lp[i] : InDivision(obs.divs, i, lp[i][j]))
       \cup Viol("InOrder", LabelsInOrder(lp))
=============================================================================
