------------------------------ MODULE Divisions ------------------------------
(* Contracts about the divisions of dask dataframes (Pattern B: the output
   relation of an algorithm, every freedom the property leaves is left free).

     C45  division planning: sorted_division_locations, quantile divisions
     C44  repartition / from_pandas: same rows, same order, requested layout
     C41  known divisions describe the partitions truthfully

   Pure definitions.  Every contract is an operator returning the SET OF NAMES
   of the clauses that fail (so {} = contract met); the trace specification
   DivisionsTrace evaluates them on call records of the real code, the
   model-checking modules (DivisionLocations, DivisionsMC) on the specification's
   own transcriptions / references (design check).

   Index labels are small integers (the harness maps real labels - ints,
   floats, strings, timestamps - to their rank); NA is the sentinel of Frames. *)
EXTENDS Frames

Viol(name, holds) == IF holds THEN {} ELSE {name}

NDistinct(s) == Cardinality(SeqSet(s))

-----------------------------------------------------------------------------
(* C45 - sorted_division_locations(seq, npartitions | chunksize)
         -> (divisions, locations)            dask/dataframe/io/io.py

   seq   : non-empty, non-decreasing sequence of labels (1-based here;
           locations are the 0-based Python positions, so Python's seq[l] is
           seq[l + 1] below)
   mode  : "n" (npartitions = k) or "c" (chunksize = k), k >= 1

   The property demands exactly this and nothing about *where* the cuts fall:
     Shape      one division per location, at least the two end points
     Span       locations run from 0 to Len(seq)
     Increasing locations strictly increase (no empty partition)
     DivAtLoc   every division is the label at its location; the last one is
                the last label
     NoSplit    equal labels never straddle a boundary
     ExactN     with npartitions = k and at least k distinct labels there are
                exactly k partitions                                           *)
DivLocBad(seq, mode, k, divs, locs) ==
  LET n  == Len(seq)
      m  == Len(locs)
      in(l) == l \in 0..(n - 1)
  IN IF ~(m >= 2 /\ Len(divs) = m) THEN {"Shape"}
     ELSE Viol("Span", locs[1] = 0 /\ locs[m] = n)
          \cup Viol("Increasing", StrictlyIncreasing(locs))
          \cup Viol("DivAtLoc", /\ \A j \in 1..(m - 1) : in(locs[j]) /\ divs[j] = seq[locs[j] + 1]
                                /\ divs[m] = seq[n])
          \cup Viol("NoSplit", \A j \in 2..(m - 1) : (locs[j] \in 1..(n - 1)) => seq[locs[j]] # seq[locs[j] + 1])
          \cup Viol("ExactN", (mode = "n" /\ NDistinct(seq) >= k) => m - 1 = k)

(* C45 - quantile divisions for set_index (partitionquantiles.process_val_weights,
   RepartitionQuantiles, _calculate_divisions): `data` is the multiset of values
   the divisions were computed from (any order), `divs` the result.            *)
QuantileBad(data, divs) ==
  IF Len(divs) < 2 THEN {"Shape"}
  ELSE Viol("NonDecreasing", NonDecreasing(divs))
       \cup Viol("FirstIsMin", divs[1] = Min(SeqSet(data)))
       \cup Viol("LastIsMax", divs[Len(divs)] = Max(SeqSet(data)))
=============================================================================
