--------------------------- MODULE OptimizerTrace ---------------------------
(* code -> spec for C43.  One record is the RESULT of executing one program at
   one stage of the real optimizer:

     src    the source table (FromPandas)
     steps, fin   the program (vocabulary of module Optimizer)
     st     which expression was executed (not looked at by the verdict; the
            harness pools the stages of a program that produced the same
            observation into one record):
              "pd"  pandas itself (the reference GUARD: a rejected "pd" record
                    is a machinery error of the specification, not a finding)
              "lg" "sl" "tl" "ph" "sp" "fu"   optimize_until(expr, stage) for the stages logical,
                    simplified-logical, tuned-logical, physical, simplified-physical, fused
              "lc"  expr.lower_completely() without any simplification
              "r1"  the simplified-logical expression optimized again, "r2" the fused one
              "cm"  collection.compute()
     base   the dtype classes observed when the program is executed WITHOUT any
            optimization (stage "lc"; <<>> if that execution raised)
     obs    [raised, ser, cols, kinds, rows]: every partition of the executed
            expression computed through its own key, rows concatenated in
            partition order; a scalar result as a one-row Series named "#";
            raised = name of the exception (e.g. RuntimeError for "Optimizer
            does not converge").

   The verdict: the executed result of every stage is DenoteFrame(src, program) -
   same kind of object, same columns in the same order, same rows (index label
   and cells) in the same order; a program that holds a drop_duplicates
   promises no row order (dask de-duplicates through a shuffle / tree reduction)
   and its rows are compared as a multiset of (label, cells) pairs - which
   still says WHICH of several duplicates survives (keep = first / last).
   dtype classes: optimization must not change
   them - a stage is right when its classes are those of the unoptimized
   execution (`base`) or those of pandas (as in FrameOpsTrace, C36: an integer
   result is accepted where pandas, looking at the whole column, says float);
   whether unoptimized dask has the dtypes of pandas at all is the subject of
   C36 / C37 / C42, not of this property; nothing is demanded of the dtype of
   an empty result.  Nothing is said
   about HOW an optimized expression looks: any denotation-preserving
   rewriting is accepted.                                                     *)
EXTENDS Optimizer, TraceIO

KindsOK(obs, wnt) == /\ Len(obs) = Len(wnt)
                     /\ \A j \in DOMAIN wnt : obs[j] = wnt[j] \/ (wnt[j] = "f" /\ obs[j] = "i")

RowPairs(rows) == [k \in DOMAIN rows |-> <<rows[k].idx, rows[k].v>>]

Bad(r) ==
  LET w == DenoteFrame(r.src, [steps |-> r.steps, fin |-> r.fin])
      o == r.obs
  IN IF o.raised # "" THEN {"Raised"}
     ELSE Clause("Kind", o.ser = w.ser)
          \cup Clause("Cols", o.cols = w.cols)
          \cup Clause("Dtypes", Len(o.rows) = 0 \/ o.kinds = r.base \/ KindsOK(o.kinds, w.kinds))
          \cup (IF Len(o.rows) # Len(w.rows) THEN {"NRows"}
                ELSE IF HasDropDup(r.steps) THEN Clause("Values", SameBag(RowPairs(o.rows), RowPairs(w.rows)))
                ELSE Clause("Index", IdxSeq(o.rows) = IdxSeq(w.rows))
                     \cup Clause("Values", ValSeq(o.rows) = ValSeq(w.rows)))

Init == TInit
Next == TNext(Bad)
=============================================================================
